#!/bin/bash
# Offline setup: make sure hypothesis is importable from /venv (the interpreter that has the
# repository's own dependencies).  Nothing is fetched from a network.
set -e
cd "$(dirname "$0")"
if ! /venv/bin/python -c "import hypothesis" 2>/dev/null; then
  /venv/bin/pip install --no-index --find-links /opt/veriftools/wheels hypothesis
fi
/venv/bin/python -c "import hypothesis, sys; print('hypothesis', hypothesis.__version__)"
mkdir -p evidence
