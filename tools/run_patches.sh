#!/bin/bash
# tools/run_patches.sh <out-file> <patch> [<patch> ...]: for each patch (mutants/<ID>-x.patch, seeded/<ID>/patch.diff or
# /tmp/seed_<ID>/patch.diff) run the property's quick check against a scratch copy of /repo carrying it; one line per patch.
cd "$(dirname "$0")/.."
OUT=$1; shift
for p in "$@"; do
  case "$p" in
    */seed_*/patch.diff) id=$(echo "$p" | sed 's#.*/seed_\([^/]*\)/patch.diff#\1#'); name="seed-$id";;
    seeded/*/round[23]/patch.diff|*/seeded/*/round[23]/patch.diff) id=$(basename $(dirname $(dirname "$p"))); name="seed$(basename $(dirname "$p") | tr -d a-z)-$id";;
    seeded/*/patch.diff|*/seeded/*/patch.diff) id=$(basename $(dirname "$p")); name="seed-$id";;
    *) b=$(basename "$p" .patch); id=${b%%-*}; name="$b";;
  esac
  t0=$(date +%s)
  out=$(tools/mutant.sh "$p" "$id" quick 2>/dev/null); rc=$?
  t1=$(date +%s)
  echo "$name rc=$rc wall=$((t1-t0))s viol=$(echo "$out" | grep -c '^VIOLATION') | $(echo "$out" | grep 'failure:' | head -1 | cut -c1-170)" >> "$OUT"
done
