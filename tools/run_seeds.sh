#!/bin/bash
# tools/run_seeds.sh <tier> <seed> [<seed> ...] : every registered check at the given VERIF_SEED values (no evidence rewritten); one line per run
cd "$(dirname "$0")/.."
TIER=$1; shift
for s in "$@"; do
for id in $(python3 -c "import json;print(' '.join(c['property_id'] for c in json.load(open('MANIFEST.json'))['checks']))"); do
  t0=$(date +%s)
  out=$(VERIF_SEED=$s VERIF_NO_EVIDENCE=1 ./check $id $TIER 2>/tmp/vf_seed_err.txt); rc=$?
  t1=$(date +%s)
  echo "seed=$s $id rc=$rc wall=$((t1-t0))s viol=$(echo "$out" | grep -c '^VIOLATION') $(echo "$out" | grep 'failure:' | head -1 | cut -c1-200) $( [ $rc = 2 ] && tail -3 /tmp/vf_seed_err.txt | tr '\n' ' ' | cut -c1-300)"
done
done
