#!/bin/bash
# tools/try_seed2.sh <ID> [tier]: confirm a round-2 seed (/tmp/seed2_<ID>): demo fails with / passes without the patch on a copy of /repo, then run the check
ID=$1; TIER=${2:-quick}; W=/tmp/seed${ROUND:-2}_$ID
S=$(mktemp -d /tmp/vf_s2_XXXXXX)
rsync -a --exclude .git --exclude '__pycache__' /repo/src "$S/"
( cd "$S" && PYTHONPATH=$S/src timeout 600 /venv/bin/python $W/demo_$ID.py >/dev/null 2>&1 ); echo "demo on /repo copy (expect 0): rc=$?"
( cd "$S" && patch -p1 -s < $W/patch.diff ) || { echo "patch failed"; rm -rf "$S"; exit 3; }
( cd "$S" && PYTHONPATH=$S/src timeout 600 /venv/bin/python $W/demo_$ID.py 2>&1 | tail -3 ); echo "demo with patch (expect non-0): rc=${PIPESTATUS[0]}"
( cd "$S" && PYTHONPATH=$S/src timeout 600 /venv/bin/python $W/demo_$ID.py >/dev/null 2>&1 ); echo "demo with patch rc=$?"
rm -rf "$S"
VERIF_PROCS=${VERIF_PROCS:-8} /verif/tools/mutant.sh $W/patch.diff $ID $TIER 2>/dev/null | grep "VIOL\|failure:\|seed=" | cut -c1-260 | head -6
