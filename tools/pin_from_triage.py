"""tools/pin_from_triage.py <ID> <Fid> [name]: pin the smallest example of failures/<ID>/triage.json that the
known finding <Fid> matches as replays/<ID>/<name or Fid>.json (expect finding:<Fid>)."""
import json, sys
sys.path.insert(0, "/verif")
from vf.core import Failure, KnownFindings
pid, fid = sys.argv[1], sys.argv[2]
name = sys.argv[3] if len(sys.argv) > 3 else fid
kf = KnownFindings(pid)
rows = json.load(open(f"/verif/failures/{pid}/triage.json"))
best = None
for r in rows:
    key = r["key"]
    kind = key[0]
    feats = {}
    for item in key[1:]:
        k, v = eval(item)
        feats[k] = eval(v)
    if kf.match(Failure(kind, "", feats)) == fid:
        size = len(json.dumps(r["case"]))
        if best is None or size < best[0]:
            best = (size, r["case"])
if best is None:
    sys.exit("no matching example")
import os
os.makedirs(f"/verif/replays/{pid}", exist_ok=True)
json.dump({"property": pid, "expect": f"finding:{fid}", "case": best[1]}, open(f"/verif/replays/{pid}/{name}.json", "w"), indent=1)
print("wrote", f"replays/{pid}/{name}.json", best[0], "bytes")
