"""tools/store_seed.py <ID> <json-meta-file>: copy /tmp/seed_<ID>/{patch.diff,demo_<ID>.py} to seeded/<ID>/ and write meta.json"""
import json, os, shutil, sys
pid = sys.argv[1]
meta = json.load(open(sys.argv[2]))
d = f"/verif/seeded/{pid}"
os.makedirs(d, exist_ok=True)
shutil.copy(f"/tmp/seed_{pid}/patch.diff", f"{d}/patch.diff")
shutil.copy(f"/tmp/seed_{pid}/demo_{pid}.py", f"{d}/demo_{pid}.py")
meta = {"property": pid, "origin": "independent sub-agent given only the property text and a scratch worktree of /repo (nothing from /verif)", **meta}
json.dump(meta, open(f"{d}/meta.json", "w"), indent=1)
print("stored", d)
