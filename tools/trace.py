"""tools/trace.py <case.json|failure.json> : print the observation of one E1 case (debug aid)."""
import json, sys
sys.path.insert(0, "/verif")
from vf.engine.harness import run_case
d = json.load(open(sys.argv[1]))
case = d.get("case", d)
o = run_case(case)
ids = o.plog.msg_ids
print("stages:", case["stages"])
st = {}
for (new, old, hi), m in zip(o.states, o.state_meta):
    st.setdefault(hi, []).append(f"{old}->{new}")
inj = {}
for i in o.injected:
    inj.setdefault(i["hook_index"], []).append(i["inj"]["do"])
seen = set()
for hi, h in enumerate(o.hook):
    for s in st.get(hi, []): print("      state", s)
    for s in inj.get(hi, []): print("      >>> inject", s)
    m = h["msg"]
    tag = ("tap#%d" % ids[id(m)]) if id(m) in ids else "internal"
    rep = "REPLAY" if id(m) in seen else ""
    seen.add(id(m))
    print(f"{hi:3d} seg{h['seg']} {tag:9s} {rep:6s} {m.command} {m.obj} {m.args} {m.kwargs} run={m.run}")
for s in st.get(len(o.hook), []): print("      state", s)
for s in inj.get(len(o.hook), []): print("      >>> inject", s)
for c in o.calls:
    print("call", c["do"], c.get("outcome"), repr(c.get("exc"))[:200], c.get("state_after"))
print("docs:", [ (getattr(n,'name',n), d.get('seq_num')) for n, d, _ in o.docs])
print("foreign:", [(r["label"], r["state"], repr(r.get("exception"))) for r in o.foreign])
print("stuck", o.stuck, "final", o.final_state, "probe", o.probe and (o.probe["outcome"], repr(o.probe.get("exc"))))
