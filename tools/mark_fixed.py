"""tools/mark_fixed.py: move findings repaired by 'fix:' commits in /repo from "findings" to "fixed" in
known_findings.json (recording the commit) and turn their pinned reproducers into regression inputs
(expect: pass).  Run once after the fix commits are on /repo's main branch."""
import glob, json, subprocess
MAP = {
    "F1": "close_run acts as an implicit checkpoint",
    "F17": "allow the 'suspending' -> 'idle'",
    "F2": "ignore a hard pause request that arrives after",
    "F7": "unsubscribing one token",
    "F8": "SuspendWhenChanged",
    "F14": "RemoteDispatcher drops frames",
    "F16": "PersistentDict.reload",
    "FC21a": "plan_mutator forgets",
    "FC32a": "add_wait_handler",
    "FC16a": "monitor events reference",
    "FC16b": "'configure' updates",
    "F5": "rewind only rolls back", "F6": "rewind only rolls back", "FC05a": "rewind only rolls back",
    "FC05b": "RunStop.num_events counts",
    "F6b": "monitors are suspended",
    "F4": "run trace spans", "FC42a": "run trace spans", "FC42b": "run trace spans", "FC42c": "run trace spans", "FC42d": "run trace spans",
    "FC32b": "simulate_plan no longer",
    "F13": "spiral_fermat",
    "F11": "truncate_json_overflow",
    "F9": "filename templates", "FC37a": "filename templates",
    "F23": "waiting while watching",
    "F10": "RunNormalizer no longer modifies",
    "FC35a": "RunNormalizer.event accepts",
    "FC35b": "frame-indexed datums",
    "FC36a": "consolidator chunks",
    "FC39a": "LiveDispatcher descriptor identity",
    "F15": "LiveDispatcher numbers events",
}
log = subprocess.check_output(["git", "-C", "/repo", "log", "--format=%h %s", "main"], text=True).splitlines()
def commit_of(fragment):
    for line in log:
        h, s = line.split(" ", 1)
        if s.startswith("fix:") and fragment in s:
            return h, s
    raise SystemExit(f"no fix commit matching {fragment!r}")
kf = json.load(open("/verif/known_findings.json"))
keep, fixed = [], kf.get("fixed", [])
done = {e["id"] for e in fixed}
for e in kf["findings"]:
    if e["id"] in MAP:
        h, subj = commit_of(MAP[e["id"]])
        if e["id"] not in done:
            fixed.append({"id": e["id"], "properties": e["properties"], "commit": h, "commit_subject": subj,
                          "what": e["title"], "root_cause": e.get("root_cause", ""), "replay": e.get("replay", ""),
                          "line": f"fixed: property={','.join(e['properties'])} {h} {e['title']}"})
    else:
        keep.append(e)
kf["findings"], kf["fixed"] = keep, fixed
json.dump(kf, open("/verif/known_findings.json", "w"), indent=1)
n = 0
fixed_ids = {e["id"] for e in fixed}
for path in glob.glob("/verif/replays/*/*.json"):
    d = json.load(open(path))
    exp = d.get("expect", "pass")
    if exp.startswith("finding:") and exp[8:] in fixed_ids:
        d["expect"] = "pass"
        d["was"] = exp
        json.dump(d, open(path, "w"), indent=1)
        n += 1
print(len(keep), "findings kept;", len(fixed), "fixed;", n, "replays turned into regression inputs")
