"""tools/mkmutant.py <patch-name> <repo-relative-file> <<< JSON {"old": "...", "new": "..."}
Creates mutants/<patch-name>.patch (unified diff, a/ b/ prefixes) from one exact string replacement."""
import difflib, json, sys
name, rel = sys.argv[1], sys.argv[2]
spec = json.load(sys.stdin)
src = open(f"/repo/{rel}").read()
assert src.count(spec["old"]) == 1, f"old string occurs {src.count(spec['old'])} times"
new = src.replace(spec["old"], spec["new"])
diff = difflib.unified_diff(src.splitlines(True), new.splitlines(True), f"a/{rel}", f"b/{rel}")
open(f"/verif/mutants/{name}.patch", "w").writelines(diff)
print("wrote", f"mutants/{name}.patch")
