#!/bin/bash
# tools/run_all.sh [tier] : run every registered check sequentially against /repo, writing evidence; summary on stdout
cd "$(dirname "$0")/.."
TIER=${1:-quick}
for id in $(python3 -c "import json;print(' '.join(c['property_id'] for c in json.load(open('MANIFEST.json'))['checks']))"); do
  t0=$(date +%s)
  out=$(./check $id $TIER 2>/dev/null); rc=$?
  t1=$(date +%s)
  echo "$id rc=$rc wall=$((t1-t0))s viol=$(echo "$out" | grep -c '^VIOLATION') known=$(echo "$out" | grep -c '^KNOWN-FINDING') $(echo "$out" | grep 'failure:' | head -1 | cut -c1-150)"
done
