"""tools/pin.py <ID> <Fid|pass> <name> <case.json>  -- store a case as replays/<ID>/<name>.json"""
import json, os, sys
pid, expect, name, src = sys.argv[1:5]
d = json.load(open(src))
case = d.get("case", d)
os.makedirs(f"/verif/replays/{pid}", exist_ok=True)
out = {"property": pid, "expect": "pass" if expect == "pass" else f"finding:{expect}", "case": case}
json.dump(out, open(f"/verif/replays/{pid}/{name}.json", "w"), indent=1)
print("wrote", f"replays/{pid}/{name}.json")
