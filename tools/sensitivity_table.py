"""tools/sensitivity_table.py <mutants-log> : markdown for DESIGN.md section 13 from a tools/run_patches.sh log and seeded/*/meta.json"""
import glob, json, re, sys, collections
rows = collections.defaultdict(list)
for line in open(sys.argv[1]):
    m = re.match(r"(\S+) rc=(\d+) wall=(\d+)s viol=(\d+) \| *(?:failure: )?(.*)", line.strip())
    if not m:
        continue
    name, rc, wall, viol, first = m.groups()
    pid = name.split("-")[0]
    kind = first.split(":")[0].strip() if first else ""
    rows[pid].append((name, int(rc), kind))
out = []
out.append("### 13.1 Own single-site regressions (`mutants/<ID>-*.patch`, run with `tools/mutant.sh <patch> <ID> quick` on a scratch copy of the repaired tree)\n")
out.append("| property | patches | caught by the quick tier (first failure kind) | not caught |")
out.append("|---|---|---|---|")
tot = caught = 0
for pid in sorted(rows):
    c = [f"{n.split('-',1)[1]} ({k})" for n, rc, k in rows[pid] if rc == 1]
    nc = [f"{n.split('-',1)[1]} (rc={rc})" for n, rc, k in rows[pid] if rc != 1]
    tot += len(rows[pid]); caught += len(c)
    out.append(f"| {pid} | {len(rows[pid])} | {'; '.join(c)} | {'; '.join(nc) or '-'} |")
out.append(f"\n{caught} of {tot} patches are caught by the quick tier of the property they target.\n")
out.append("### 13.2 Independently seeded regressions (`seeded/<ID>/`: patch.diff, demo, meta.json)\n")
out.append("Each was written by a fresh sub-agent that saw only the property text and a scratch worktree (nothing from /verif), keeps the repository's tests passing, and comes with a demonstration that fails with the change and passes without it (both re-run by me). `tools/mutant.sh seeded/<ID>/patch.diff <ID> quick` applies it to a scratch copy of /repo.\n")
out.append("| property | the change and what it needs to manifest | outcome |")
out.append("|---|---|---|")
for f in sorted(glob.glob("/verif/seeded/*/meta.json")):
    m = json.load(open(f))
    out.append(f"| {m['property']} | {m['idea']} -- needs: {m['needs_to_manifest']} | {m['result']} |")
r2 = sorted(glob.glob("/verif/seeded/*/round2/meta.json"))
if r2:
    out.append("\n### 13.3 Second round of independently seeded regressions (`seeded/<ID>/round2/`)\n")
    out.append("A second fresh sub-agent per property, told only the property text and the one-line idea of the round-1 seed (so that it does something different). Same protocol.\n")
    out.append("| property | the change and what it needs to manifest | outcome |")
    out.append("|---|---|---|")
    for f in r2:
        m = json.load(open(f))
        out.append(f"| {m['property']} | {m['idea']} -- needs: {m['needs_to_manifest']} | {m['result']} |")
print("\n".join(out))
