#!/bin/bash
# tools/mutant.sh <patch-file> <ID> [tier]   -- run a check against a scratch copy of /repo carrying a patch
# The scratch copy lives under /tmp and is removed afterwards.  Exit code is the check's.
set -u
PATCH=$(realpath "$1"); ID=$2; TIER=${3:-quick}
S=$(mktemp -d /tmp/vf_mut_XXXXXX)
rsync -a --exclude .git --exclude '__pycache__' /repo/src "$S/" 
( cd "$S" && patch -p1 -s < "$PATCH" ) || { echo "patch failed"; rm -rf "$S"; exit 3; }
VERIF_REPO="$S/src" VERIF_NO_EVIDENCE=1 /verif/check "$ID" "$TIER"; rc=$?
rm -rf "$S"
exit $rc
