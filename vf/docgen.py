"""Hypothesis strategies generating event-model runs as plain JSON documents.

Self-contained (only needs ``hypothesis``; ``event_model`` only for :func:`validate_current`), so
other checks can import it on its own::

    from vf.docgen import runs, json_values
    docs = runs(external="legacy").example()     # -> [[name, doc], ...]

A *run* is a list ``[[name, doc], ...]`` of JSON-serialisable documents in a valid emission order
(what a RunEngine could publish): ``start``, then descriptors / events (or event pages) /
asset documents interleaved, then ``stop``.  Two flavours of externally stored data exist:

``legacy``   ``resource`` + ``datum`` (or ``datum_page``) documents; the event carries the datum id
             under the external data key (``filled[key] is False``).
``current``  ``stream_resource`` + ``stream_datum`` documents; events do not carry the key.

Every uid is a deterministic function of the draw (no ``uuid4``/wall clock), so a generated run is
reproduced exactly from the Hypothesis seed and can be stored verbatim in a replay file.

Helpers :func:`iter_events`, :func:`iter_datums` unpack pages without touching the inputs, and
:func:`descriptor_index` collects descriptors by uid.
"""

from __future__ import annotations

import copy

__all__ = [
    "json_scalars",
    "json_values",
    "json_objects",
    "safe_keys",
    "runs",
    "simple_runs",
    "iter_events",
    "iter_datums",
    "descriptor_index",
    "validate_current",
    "HDF5_SPECS",
    "SPEC_MIMETYPES",
]

# legacy spec -> mimetype, the subset of bluesky.callbacks.tiled_writer.MIMETYPE_LOOKUP used here
SPEC_MIMETYPES = {
    "AD_HDF5_SWMR_STREAM": "application/x-hdf5",
    "hdf5": "application/x-hdf5",
    "XSP3": "application/x-hdf5",
    "AD_TIFF": "multipart/related;type=image/tiff",
    "NPY_SEQ": "multipart/related;type=application/x-npy",
    "PIZZABOX_ENC_FILE_TXT_PD": "text/csv",
    "SOMETHING_ELSE": "application/octet-stream",
}
HDF5_SPECS = ("AD_HDF5_SWMR_STREAM", "hdf5", "XSP3")
T0 = 1_700_000_000.0


def _st():
    from hypothesis import strategies as st

    return st


# ------------------------------------------------------------------------------------------------
# JSON values


def json_scalars(big_ints=True):
    st = _st()
    ints = st.integers() if big_ints else st.integers(-(2**31), 2**31)
    return st.one_of(
        st.none(),
        st.booleans(),
        ints,
        st.integers(-(10**30), 10**30) if big_ints else ints,
        st.floats(allow_nan=False, allow_infinity=False),
        st.text(max_size=12),
        st.sampled_from(["", "\n", "\r\n", '"', "\\", "]\n[", ",\n", " ", "\x00", "é", "\U0001f600", "{}"]),
    )


def json_keys():
    st = _st()
    return st.one_of(
        st.text(max_size=6), st.sampled_from(["name", "doc", "uid", "time", "a", "", "\n", "ключ", '"q"', "0"])
    )


def safe_keys():
    """Keys acceptable as metadata field names in a RunStart (no '.', '/', not empty)."""
    st = _st()
    return st.sampled_from(["md_s", "md_o", "md_a", "nested", "Z", "x y", "ключ", "k1", "k2"])


def json_values(max_leaves=10, big_ints=True, keys=None):
    """Arbitrary JSON-compatible values: None/bool/int/float (finite)/str/list/dict with str keys."""
    st = _st()
    keys = keys if keys is not None else json_keys()
    return st.recursive(
        json_scalars(big_ints),
        lambda ch: st.one_of(st.lists(ch, max_size=4), st.dictionaries(keys, ch, max_size=4)),
        max_leaves=max_leaves,
    )


def json_objects(max_leaves=10, max_size=5, big_ints=True, keys=None):
    st = _st()
    keys = keys if keys is not None else json_keys()
    return st.dictionaries(keys, json_values(max_leaves, big_ints, keys), max_size=max_size)


# ------------------------------------------------------------------------------------------------
# pieces of a run


class _Uids:
    """Deterministic uid source: ``<8 hex>-<kind><counter>`` (uuid-like first block)."""

    def __init__(self, salt):
        self.salt = salt
        self.n = 0

    def __call__(self, kind):
        self.n += 1
        return f"{(self.salt * 2654435761 + self.n * 40503) % 16**8:08x}-{kind}{self.n:03d}"


_INTERNAL_KINDS = ["number", "integer", "string", "array", "boolean"]


def _value_for(draw, dtype, shape):
    st = _st()
    if dtype == "number":
        return draw(st.floats(allow_nan=False, allow_infinity=False, width=64))
    if dtype == "integer":
        return draw(st.integers(-(2**40), 2**40))
    if dtype == "string":
        return draw(st.text(max_size=5))
    if dtype == "boolean":
        return draw(st.booleans())
    n = shape[0] if shape else 0
    return [draw(st.floats(-1e6, 1e6, allow_nan=False)) for _ in range(n)]


def _internal_key_spec(draw, dtype, legacy_dtypes):
    st = _st()
    shape = [draw(st.integers(0, 3))] if dtype == "array" else []
    spec = {"source": "SIM:" + dtype, "dtype": dtype, "shape": shape}
    if draw(st.booleans()):
        spec["units"] = draw(st.sampled_from(["mm", "", None]))
    if dtype == "number" and draw(st.booleans()):
        spec["precision"] = draw(st.integers(0, 6))
    np_dtype = {"number": "<f8", "integer": "<i8", "string": "<U5", "array": "<f8", "boolean": "|b1"}[dtype]
    style = draw(st.sampled_from(["none", "dtype_numpy", "dtype_str", "dtype_descr", "str+numpy"]))
    if not legacy_dtypes and style in ("dtype_str", "dtype_descr", "str+numpy"):
        style = "dtype_numpy"
    if style in ("dtype_numpy", "str+numpy"):
        spec["dtype_numpy"] = np_dtype
    if style in ("dtype_str", "str+numpy"):
        spec["dtype_str"] = np_dtype
    if style == "dtype_descr":
        # numpy's ``dtype.descr`` for a simple or a structured dtype (as ophyd reports it)
        spec["dtype_descr"] = draw(st.sampled_from([[["", np_dtype]], [["a", "<f8"], ["b", "<i4"]]]))
        spec["dtype_str"] = draw(st.sampled_from([np_dtype, "|V12"]))
    return spec


@_st().composite
def runs(
    draw,
    external="none",  # "none" | "legacy" | "current" | "mixed" (drawn per external key)
    max_streams=3,
    max_events=6,
    pages=True,  # allow event_page / datum_page documents
    reserved_keys=True,  # allow data keys named "time" / "seq_num"
    legacy_dtypes=True,  # allow dtype_str / dtype_descr in data keys
    redescribe=True,  # allow a second descriptor of the same stream mid-run
    late_datums=True,  # allow datum documents to arrive after the event that references them
    frames=True,  # allow 'frame' in datum_kwargs
    filled_true=True,  # allow external keys already filled (value inline, filled[key] True/str)
    omit_filled=True,  # allow events / pages without the optional 'filled' field
    start_md=True,
    min_events=0,
):
    """Strategy for one run: ``[[name, doc], ...]``."""
    st = _st()
    uid = _Uids(draw(st.integers(0, 2**32)))
    start_uid = uid("start")
    start = {"uid": start_uid, "time": T0, "scan_id": draw(st.integers(0, 1000)), "plan_name": "gen"}
    if start_md and draw(st.booleans()):
        for k, v in draw(json_objects(max_leaves=6, max_size=3, big_ints=False, keys=safe_keys())).items():
            start.setdefault(k, v)
    out = [["start", start]]

    n_streams = draw(st.integers(1, max_streams))
    names = draw(st.permutations(["primary", "baseline", "monitor", "secondary"]))[:n_streams]
    used_keys = set()
    streams = []
    for si, name in enumerate(names):
        # --- data keys -------------------------------------------------------------------------
        obj_names = [f"dev{si}a", f"dev{si}b"][: draw(st.integers(1, 2))]
        data_keys, object_keys = {}, {o: [] for o in obj_names}
        n_int = draw(st.integers(0, 3))
        cand = [f"s{si}_k{j}" for j in range(n_int)]
        if reserved_keys and "time" not in used_keys and draw(st.integers(0, 3)) == 0:
            cand += draw(st.sampled_from([["time"], ["seq_num"], ["time", "seq_num"]]))
        for k in cand:
            used_keys.add(k)
            dtype = draw(st.sampled_from(_INTERNAL_KINDS))
            spec = _internal_key_spec(draw, dtype, legacy_dtypes)
            obj = draw(st.sampled_from(obj_names))
            if draw(st.booleans()):
                spec["object_name"] = obj
            data_keys[k] = spec
            object_keys[obj].append(k)
        ext = []
        if external != "none":
            for j in range(draw(st.integers(0 if n_int else 1, 2))):
                k = f"s{si}_img{j}"
                flavour = external if external != "mixed" else draw(st.sampled_from(["legacy", "current"]))
                shape = draw(st.sampled_from([[], [1], [4], [3, 5], [1, 3, 5]]))
                spec = {
                    "source": "file",
                    "dtype": "array" if shape else "number",
                    "shape": shape,
                    "external": "FILESTORE:" if flavour == "legacy" else "STREAM:",
                }
                if draw(st.booleans()):
                    spec["dtype_numpy"] = draw(st.sampled_from(["<f8", "<u2", "|u1"]))
                elif legacy_dtypes and draw(st.booleans()):
                    spec["dtype_str"] = "<u2"
                obj = draw(st.sampled_from(obj_names))
                data_keys[k] = spec
                object_keys[obj].append(k)
                ext.append({"key": k, "flavour": flavour})
        # --- configuration ---------------------------------------------------------------------
        configuration = {}
        for o in obj_names:
            cfg = {"data": {}, "timestamps": {}, "data_keys": {}}
            for j in range(draw(st.integers(0, 2))):
                ck = f"{o}_cfg{j}"
                dtype = draw(st.sampled_from(["number", "integer", "string"]))
                cfg["data_keys"][ck] = _internal_key_spec(draw, dtype, legacy_dtypes)
                cfg["data"][ck] = _value_for(draw, dtype, [])
                cfg["timestamps"][ck] = T0 + 0.5
            configuration[o] = cfg
        hints = {o: {"fields": list(object_keys[o][:1])} for o in obj_names if draw(st.booleans())}

        def make_desc(data_keys=data_keys, object_keys=object_keys, configuration=configuration, hints=hints, name=name):
            return {
                "uid": uid("desc"),
                "time": T0 + 1,
                "run_start": start_uid,
                "name": name,
                "data_keys": copy.deepcopy(data_keys),
                "object_keys": copy.deepcopy(object_keys),
                "configuration": copy.deepcopy(configuration),
                "hints": copy.deepcopy(hints),
            }

        n_events = draw(st.integers(min_events, max_events))
        redesc_at = draw(st.integers(1, n_events - 1)) if (redescribe and n_events >= 2 and draw(st.integers(0, 3)) == 0) else None
        streams.append(
            {"name": name, "data_keys": data_keys, "ext": ext, "make_desc": make_desc, "n": n_events, "redesc_at": redesc_at}
        )

    # --- asset plans per external key ----------------------------------------------------------
    for s in streams:
        for e in s["ext"]:
            k = e["key"]
            if e["flavour"] == "legacy":
                e["spec"] = draw(st.sampled_from(sorted(SPEC_MIMETYPES)))
                e["use_frames"] = frames and draw(st.booleans())
                e["frames_per_event"] = draw(st.sampled_from([1, 1, 2, 3])) if e["use_frames"] else 1
                e["rollover"] = draw(st.sampled_from([None, None, 2, 3, 1]))  # new resource every n events
                e["late"] = draw(st.sampled_from(["no", "no", "all", "some"])) if late_datums else "no"
                e["filled"] = draw(st.sampled_from(["false", "false", "absent", "some_true"])) if filled_true else draw(
                    st.sampled_from(["false", "absent"])
                )
            else:
                e["mimetype"] = draw(
                    st.sampled_from(["application/x-hdf5", "multipart/related;type=image/tiff", "text/csv;header=absent"])
                )
                e["old_schema"] = draw(st.integers(0, 4)) == 0  # event-model < 1.20 stream_resource (spec/root/...)
                e["batch"] = draw(st.sampled_from([1, 1, 2]))
    # one legacy resource may be shared by the two legacy keys of a stream
    for s in streams:
        leg = [e for e in s["ext"] if e["flavour"] == "legacy"]
        s["shared_resource"] = len(leg) == 2 and draw(st.booleans())
        if s["shared_resource"]:
            for f in ("spec", "rollover"):
                leg[1][f] = leg[0][f]

    # --- emission ------------------------------------------------------------------------------
    order = []
    for si, s in enumerate(streams):
        order += [si] * s["n"]
    order = list(draw(st.permutations(order))) if order else []
    desc_upfront = draw(st.booleans())
    state = {si: {"seq": 0, "desc": None, "res": {}, "sres": {}, "pending_sd": {}} for si in range(len(streams))}
    late_queue = []  # asset documents emitted later

    def emit_desc(si):
        d = streams[si]["make_desc"]()
        state[si]["desc"] = d["uid"]
        out.append(["descriptor", d])

    if desc_upfront:
        for si in range(len(streams)):
            emit_desc(si)

    def legacy_resource(si, e, seq):
        s = streams[si]
        stt = state[si]["res"]
        owner = s["ext"][0]["key"] if s["shared_resource"] and e["flavour"] == "legacy" else e["key"]
        epoch = (seq - 1) // e["rollover"] if e["rollover"] else 0
        key = (owner, epoch)
        if key not in stt:
            spec = e["spec"]
            kwargs = {}
            if SPEC_MIMETYPES[spec] == "application/x-hdf5":
                style = draw(st.sampled_from(["path", "dataset", "neither", "both"]))
                if style in ("path", "both"):
                    kwargs["path"] = "/entry/data/data"
                if style in ("dataset", "both"):
                    kwargs["dataset"] = "/entry/data/ds"
            if SPEC_MIMETYPES[spec].startswith("multipart"):
                kwargs.update({"template": "%s%s_%6.6d.tiff", "filename": "img"})
            if draw(st.booleans()):
                kwargs["chunk_shape"] = [draw(st.integers(1, 4))]
            if draw(st.booleans()):
                kwargs["frame_per_point"] = e["frames_per_event"]
            res = {
                "uid": uid("res"),
                "spec": spec,
                "root": draw(st.sampled_from(["/data", "/", "/data/", "data"])),
                "resource_path": draw(st.sampled_from(["a/b.h5", "/a/b.h5", "b.h5"])),
                "resource_kwargs": kwargs,
            }
            if draw(st.booleans()):
                res["path_semantics"] = "posix"
            if draw(st.booleans()):
                res["run_start"] = start_uid
            stt[key] = {"uid": res["uid"], "n": 0, "per_key": {}}
            out.append(["resource", res])
        return stt[key]

    for si in order:
        s = streams[si]
        stt = state[si]
        stt["seq"] += 1
        seq = stt["seq"]
        if stt["desc"] is None or (s["redesc_at"] is not None and seq == s["redesc_at"] + 1):
            emit_desc(si)
        data, ts, filled = {}, {}, {}
        for k, spec in s["data_keys"].items():
            if "external" in spec:
                continue
            data[k] = _value_for(draw, spec["dtype"], spec["shape"])
            ts[k] = T0 + 2 + seq
        for e in s["ext"]:
            k = e["key"]
            if e["flavour"] == "legacy":
                if e["filled"] == "some_true" and draw(st.booleans()):
                    # already filled: value inline, filled[key] is True or the datum id it came from
                    data[k] = [1.0, 2.0]
                    ts[k] = T0 + 2 + seq
                    filled[k] = draw(st.sampled_from([True, "some-datum-id"]))
                    continue
                r = legacy_resource(si, e, seq)
                i = r["per_key"].get(k, 0)
                r["per_key"][k] = i + 1
                datum_id = f"{r['uid']}/{k}/{i}"
                kwargs = {}
                if e["use_frames"]:
                    kwargs["frame"] = (i + 1) * e["frames_per_event"] - 1
                else:
                    kwargs["point_number"] = i
                if s["shared_resource"]:
                    kwargs["dataset"] = "/entry/" + k
                datum = {"datum_id": datum_id, "resource": r["uid"], "datum_kwargs": kwargs}
                is_late = e["late"] == "all" or (e["late"] == "some" and draw(st.booleans()))
                (late_queue if is_late else out).append(["datum", datum])
                data[k] = datum_id
                ts[k] = T0 + 2 + seq
                if e["filled"] != "absent":
                    filled[k] = False
            else:
                # current form: the event does not carry the key
                if k not in stt["sres"]:
                    sres_uid = uid("sres")
                    params = {}
                    if e["mimetype"] == "application/x-hdf5":
                        style = draw(st.sampled_from(["path", "dataset", "neither"]))
                        if style == "path":
                            params["path"] = "/entry/data/data"
                        if style == "dataset":
                            params["dataset"] = "/entry/data/ds"
                    if e["mimetype"].startswith("multipart"):
                        params["template"] = "img_{:05d}.tif"
                    if draw(st.booleans()):
                        params["chunk_shape"] = [draw(st.integers(1, 4))]
                    if e["old_schema"]:
                        spec = {"application/x-hdf5": "AD_HDF5_SWMR_STREAM", "multipart/related;type=image/tiff": "AD_TIFF"}.get(
                            e["mimetype"], "SOMETHING_ELSE"
                        )
                        sres = {
                            "uid": sres_uid,
                            "data_key": k,
                            "spec": spec,
                            "root": "/data",
                            "resource_path": "a/b.h5",
                            "resource_kwargs": params,
                            "path_semantics": "posix",
                            "run_start": start_uid,
                        }
                    else:
                        sres = {
                            "uid": sres_uid,
                            "data_key": k,
                            "mimetype": e["mimetype"],
                            "uri": "file://localhost/data/a/b.h5",
                            "parameters": params,
                        }
                        if draw(st.booleans()):
                            sres["run_start"] = start_uid
                    stt["sres"][k] = sres_uid
                    out.append(["stream_resource", sres])
                first = stt["pending_sd"].setdefault(k, seq)
                if seq - first + 1 >= e["batch"] or seq == s["n"]:
                    out.append(
                        [
                            "stream_datum",
                            {
                                "uid": f"{stt['sres'][k]}/{first - 1}",
                                "stream_resource": stt["sres"][k],
                                "descriptor": stt["desc"],
                                "indices": {"start": first - 1, "stop": seq},
                                "seq_nums": {"start": first, "stop": seq + 1},
                            },
                        ]
                    )
                    del stt["pending_sd"][k]
        ev = {
            "uid": uid("ev"),
            "time": T0 + 3 + seq,
            "seq_num": seq,
            "descriptor": stt["desc"],
            "data": data,
            "timestamps": ts,
            "filled": filled,
        }
        out.append(["event", ev])
        # some late datums are released at a random later point
        if late_queue and draw(st.integers(0, 3)) == 0:
            n_rel = draw(st.integers(1, len(late_queue)))
            out.extend(late_queue[:n_rel])
            del late_queue[:n_rel]
    # descriptors of streams that never produced an event still appear (declared streams)
    for si in range(len(streams)):
        if state[si]["desc"] is None and draw(st.booleans()):
            emit_desc(si)
    out.extend(late_queue)

    num_events = {s["name"]: s["n"] for si, s in enumerate(streams) if state[si]["desc"] is not None}
    stop = {
        "uid": uid("stop"),
        "time": T0 + 100,
        "run_start": start_uid,
        "exit_status": draw(st.sampled_from(["success", "abort", "fail"])),
        "reason": draw(st.sampled_from(["", "because"])),
        "num_events": num_events,
    }
    out.append(["stop", stop])

    if pages:
        out = _paginate(draw, out)
    if omit_filled:
        out = _maybe_omit_filled(draw, out)
    return out


def _paginate(draw, docs):
    """Merge some runs of adjacent events (same descriptor) into event pages and adjacent datums
    (same resource) into datum pages; otherwise order-preserving."""
    st = _st()
    out = []
    i = 0
    while i < len(docs):
        name, doc = docs[i]
        if name == "event" and draw(st.integers(0, 2)) == 0:
            j = i + 1
            while j < len(docs) and docs[j][0] == "event" and docs[j][1]["descriptor"] == doc["descriptor"] and j - i < 4:
                j += 1
            evs = [d for _, d in docs[i:j]]
            keys = list(evs[0]["data"])
            fkeys = sorted({k for e in evs for k in e["filled"]})
            # every event of a page carries the same data keys; a page column needs a value per row
            if all(list(e["data"]) == keys for e in evs) and all(set(e["filled"]) == set(fkeys) for e in evs):
                page = {
                    "uid": [e["uid"] for e in evs],
                    "time": [e["time"] for e in evs],
                    "seq_num": [e["seq_num"] for e in evs],
                    "descriptor": doc["descriptor"],
                    "data": {k: [e["data"][k] for e in evs] for k in keys},
                    "timestamps": {k: [e["timestamps"][k] for e in evs] for k in keys},
                    "filled": {k: [e["filled"][k] for e in evs] for k in fkeys},
                }
                out.append(["event_page", page])
                i = j
                continue
        if name == "datum" and draw(st.integers(0, 2)) == 0:
            j = i + 1
            while j < len(docs) and docs[j][0] == "datum" and docs[j][1]["resource"] == doc["resource"] and j - i < 4:
                j += 1
            ds = [d for _, d in docs[i:j]]
            kk = list(ds[0]["datum_kwargs"])
            if all(list(d["datum_kwargs"]) == kk for d in ds):
                page = {
                    "resource": doc["resource"],
                    "datum_id": [d["datum_id"] for d in ds],
                    "datum_kwargs": {k: [d["datum_kwargs"][k] for d in ds] for k in kk},
                }
                out.append(["datum_page", page])
                i = j
                continue
        out.append(docs[i])
        i += 1
    return out


def _maybe_omit_filled(draw, docs):
    """'filled' is optional in the event / event_page schema: drop empty ones now and then."""
    st = _st()
    if draw(st.integers(0, 4)) != 0:
        return docs
    out = []
    for name, doc in docs:
        if name in ("event", "event_page") and not doc["filled"] and draw(st.integers(0, 2)) == 0:
            doc = {k: v for k, v in doc.items() if k != "filled"}
        out.append([name, doc])
    return out


def simple_runs(max_streams=3, max_events=6, **kw):
    """Runs with internal data only, individual event documents, always with 'filled' (what a
    RunEngine subscriber such as LiveDispatcher sees)."""
    kw.setdefault("external", "none")
    kw.setdefault("pages", False)
    kw.setdefault("omit_filled", False)
    kw.setdefault("legacy_dtypes", False)
    kw.setdefault("reserved_keys", False)
    return runs(max_streams=max_streams, max_events=max_events, **kw)


# ------------------------------------------------------------------------------------------------
# read-only helpers


def iter_events(name, doc):
    """Yield event dicts of an ``event`` / ``event_page`` document (fresh dicts; ``filled`` is
    ``None`` when the field is absent from the input)."""
    if name == "event":
        e = dict(doc)
        e["filled"] = doc.get("filled")
        yield e
    elif name == "event_page":
        for i in range(len(doc["uid"])):
            yield {
                "uid": doc["uid"][i],
                "time": doc["time"][i],
                "seq_num": doc["seq_num"][i],
                "descriptor": doc["descriptor"],
                "data": {k: v[i] for k, v in doc["data"].items()},
                "timestamps": {k: v[i] for k, v in doc["timestamps"].items()},
                "filled": {k: v[i] for k, v in doc["filled"].items()} if "filled" in doc else None,
            }


def iter_datums(name, doc):
    if name == "datum":
        yield doc
    elif name == "datum_page":
        for i in range(len(doc["datum_id"])):
            yield {
                "datum_id": doc["datum_id"][i],
                "resource": doc["resource"],
                "datum_kwargs": {k: v[i] for k, v in doc["datum_kwargs"].items()},
            }


def descriptor_index(docs):
    return {doc["uid"]: doc for name, doc in docs if name == "descriptor"}


def validate_current(name, doc):
    """Validate one document against the installed event-model schema; returns None or the message."""
    from event_model import DocumentNames, schema_validators

    try:
        schema_validators[DocumentNames[name]].validate(doc)
    except Exception as e:  # jsonschema.ValidationError
        return f"{type(e).__name__}: {str(e).splitlines()[0][:300]}"
    return None
