"""Instrumented fake devices implementing the bluesky.protocols runtime protocols.

All devices of one case share a :class:`World`: the call ledger, the fault plan, the loop (for
virtual-time statuses) and the commanded state.  Readings are pure functions of commanded state
(motor setpoints, configuration), never of call counts.
"""

from __future__ import annotations


class DeviceError(Exception):
    """Raised by a fake device when the fault plan says so."""


class St:
    """Minimal Status implementation (bluesky.protocols.Status)."""

    def __init__(self, world, dev, op):
        self.world = world
        self.dev = dev
        self.op = op
        self.done = False
        self.success = False
        self._exc = None
        self._cbs = []
        self.sid = world.new_id()

    def add_callback(self, cb):
        if self.done:
            cb(self)
        else:
            self._cbs.append(cb)

    def exception(self, timeout=0.0):
        return self._exc

    def _finish(self, exc=None):
        if self.done:
            return
        self.done = True
        self.success = exc is None
        self._exc = exc
        self.world.log(self.dev, "status_done", (self.op, self.sid, self.success))
        cbs, self._cbs = self._cbs, []
        for cb in cbs:
            cb(self)

    def __repr__(self):
        return f"<St {self.dev}.{self.op}#{self.sid} done={self.done} ok={self.success}>"


class World:
    def __init__(self, loop, faults=None):
        self.loop = loop
        self.ledger = []  # (seq, dev, op, info)
        self._ids = 0
        self.faults = {}
        for f in faults or []:
            self.faults[(f["dev"], f["op"], int(f["n"]))] = f
        self.counts = {}
        self.devices = {}
        self.raised = []  # DeviceError instances raised by the fault plan (identity checks)
        self.results = {}  # result id -> object (readings, statuses) for identity oracles
        self.pending = []  # statuses never finished ("hang")

    def new_id(self):
        self._ids += 1
        return self._ids

    def log(self, dev, op, info=None):
        self.ledger.append((len(self.ledger), dev, op, info))

    def fault(self, dev, op):
        """Count the call and return the fault entry for it (or None)."""
        n = self.counts.get((dev, op), 0) + 1
        self.counts[(dev, op)] = n
        return self.faults.get((dev, op, n))

    def maybe_raise(self, dev, op):
        f = self.fault(dev, op)
        if f is not None and f["kind"] == "raise":
            e = DeviceError(f"{dev}.{op}#{f['n']}")
            self.raised.append(e)
            self.log(dev, op + "!raise", None)
            raise e
        return f

    def status(self, dev, op, delay, f=None):
        st = St(self, dev, op)
        self.results[st.sid] = st
        kind = f["kind"] if f else None
        if kind == "hang":
            self.pending.append(st)
            return st
        exc = None
        if kind == "status_fail":
            exc = DeviceError(f"{dev}.{op}#{f['n']} status")
            self.raised.append(exc)
            delay = f.get("dt", delay)
        if delay and delay > 0:
            self.loop.call_later(delay, st._finish, exc)
        else:
            st._finish(exc)
        return st

    def vtime(self):
        return self.loop.time()


class Base:
    parent = None

    def __init__(self, world, name, **kw):
        self.world = world
        self.name = name
        world.devices[name] = self

    def __repr__(self):
        return self.name

    def __hash__(self):
        return hash(self.name)

    def __eq__(self, other):
        return self is other


def _value_of_world(world, salt):
    """Deterministic reading value: depends only on commanded motor setpoints."""
    v = float(salt)
    for i, (name, dev) in enumerate(sorted(world.devices.items())):
        if isinstance(dev, Motor):
            v += (i + 1) * dev.setpoint
    return v


class Det(Base):
    """Readable, Triggerable, Stageable, Configurable detector."""

    def __init__(self, world, name, keys=None, trigger_delay=0.0, salt=0.0, async_read=False, cfg=None, pausable=False):
        super().__init__(world, name)
        self.keys = list(keys or [name])
        self.trigger_delay = trigger_delay
        self.salt = salt
        self.staged = 0
        self.cfg = dict(cfg or {})
        self.hints = {"fields": [self.keys[0]]}
        if async_read:
            self.read = self._aread

    def _reading(self):
        base = _value_of_world(self.world, self.salt)
        t = self.world.vtime()
        r = {k: {"value": base + 0.5 * i, "timestamp": t} for i, k in enumerate(self.keys)}
        return r

    def read(self):
        self.world.maybe_raise(self.name, "read")
        r = self._reading()
        rid = self.world.new_id()
        self.world.results[rid] = r
        self.world.log(self.name, "read", rid)
        return r

    async def _aread(self):
        return Det.read(self)

    def describe(self):
        self.world.log(self.name, "describe")
        return {k: {"source": f"vf:{self.name}", "dtype": "number", "shape": []} for k in self.keys}

    def trigger(self):
        f = self.world.maybe_raise(self.name, "trigger")
        st = self.world.status(self.name, "trigger", self.trigger_delay, f)
        self.world.log(self.name, "trigger", st.sid)
        return st

    def stage(self):
        self.world.maybe_raise(self.name, "stage")
        self.staged += 1
        self.world.log(self.name, "stage")
        return [self]

    def unstage(self):
        self.world.maybe_raise(self.name, "unstage")
        self.staged -= 1
        self.world.log(self.name, "unstage")
        return [self]

    def read_configuration(self):
        self.world.log(self.name, "read_configuration", dict(self.cfg))
        t = self.world.vtime()
        return {f"{self.name}_{k}": {"value": v, "timestamp": t} for k, v in sorted(self.cfg.items())}

    def describe_configuration(self):
        return {
            f"{self.name}_{k}": {"source": f"vf:{self.name}:cfg", "dtype": "number", "shape": []}
            for k in sorted(self.cfg)
        }

    def configure(self, d):
        self.world.maybe_raise(self.name, "configure")
        old = self.read_configuration()
        self.cfg.update(d)
        new = self.read_configuration()
        self.world.log(self.name, "configure", dict(d))
        return old, new


class PausableDet(Det):
    def pause(self):
        self.world.log(self.name, "pause")

    def resume(self):
        self.world.log(self.name, "resume")


class Motor(Base):
    """Movable, Stoppable, Readable, Stageable (optionally Locatable/Checkable) motor."""

    def __init__(self, world, name, pos=0.0, delay=0.0, kind="position", readback_offset=0.0, limits=None, parent=None):
        super().__init__(world, name)
        self.setpoint = float(pos)
        self.delay = delay
        self.kind = kind
        self.readback_offset = readback_offset
        self.staged = 0
        self.limits = limits
        self.parent = parent
        self.hints = {"fields": [name]}
        if kind == "locatable":
            self.locate = self._locate
        if kind == "position":
            pass

    @property
    def position(self):
        if self.kind == "position":
            return self.setpoint
        raise AttributeError("position")

    def _locate(self):
        self.world.log(self.name, "locate", self.setpoint)
        loc = {"setpoint": self.setpoint, "readback": self.setpoint + self.readback_offset}
        rid = self.world.new_id()
        self.world.results[rid] = loc
        return loc

    def read(self):
        self.world.maybe_raise(self.name, "read")
        r = {self.name: {"value": self.setpoint + self.readback_offset, "timestamp": self.world.vtime()}}
        rid = self.world.new_id()
        self.world.results[rid] = r
        self.world.log(self.name, "read", rid)
        return r

    def describe(self):
        return {self.name: {"source": f"vf:{self.name}", "dtype": "number", "shape": []}}

    def set(self, value, **kw):
        f = self.world.maybe_raise(self.name, "set")
        self.setpoint = float(value)
        st = self.world.status(self.name, "set", self.delay, f)
        self.world.log(self.name, "set", (float(value), st.sid))
        return st

    def stop(self, success=True):
        self.world.log(self.name, "stop", success)
        self.world.maybe_raise(self.name, "stop")

    def stage(self):
        self.world.maybe_raise(self.name, "stage")
        self.staged += 1
        self.world.log(self.name, "stage")
        return [self]

    def unstage(self):
        self.world.maybe_raise(self.name, "unstage")
        self.staged -= 1
        self.world.log(self.name, "unstage")
        return [self]

    def check_value(self, value):
        if self.limits is not None:
            lo, hi = self.limits
            if not (lo <= value <= hi):
                raise ValueError(f"{self.name}: {value} outside limits {self.limits}")

    def read_configuration(self):
        return {}

    def describe_configuration(self):
        return {}


class Sig(Base):
    """Subscribable + Readable signal with ophyd-like semantics: ``subscribe(cb)`` immediately
    calls ``cb`` once with the current value when ``run=True`` (default), ``put`` notifies every
    subscriber synchronously in the calling thread."""

    def __init__(self, world, name, value=0.0):
        super().__init__(world, name)
        self.value = value
        self.subs = []

    def read(self):
        r = {self.name: {"value": self.value, "timestamp": self.world.vtime()}}
        rid = self.world.new_id()
        self.world.results[rid] = r
        self.world.log(self.name, "read", rid)
        return r

    def describe(self):
        return {self.name: {"source": f"vf:{self.name}", "dtype": "number", "shape": []}}

    def subscribe(self, cb, run=True, **kw):
        self.world.log(self.name, "subscribe", id(cb))
        self.subs.append(cb)
        if run:
            cb()

    def clear_sub(self, cb):
        self.world.log(self.name, "clear_sub", id(cb))
        self.subs = [c for c in self.subs if c is not cb]

    def put(self, value):
        self.value = value
        self.world.log(self.name, "put", (value, len(self.subs)))
        for cb in list(self.subs):
            cb()

    def read_configuration(self):
        return {}

    def describe_configuration(self):
        return {}


class Flyer(Base):
    """Flyable + EventCollectable (or EventPageCollectable) flyer producing n events per collect."""

    def __init__(self, world, name, n_events=2, pages=False, delay=0.0, stream=None):
        super().__init__(world, name)
        self.n_events = n_events
        self.delay = delay
        self.stream = stream or name
        self.kicked = 0
        self.collected = 0
        if pages:
            self.collect_pages = self._collect_pages
        else:
            self.collect = self._collect

    def kickoff(self):
        f = self.world.maybe_raise(self.name, "kickoff")
        st = self.world.status(self.name, "kickoff", self.delay, f)
        self.kicked += 1
        self.world.log(self.name, "kickoff", st.sid)
        return st

    def complete(self):
        f = self.world.maybe_raise(self.name, "complete")
        st = self.world.status(self.name, "complete", self.delay, f)
        self.world.log(self.name, "complete", st.sid)
        return st

    def describe_collect(self):
        return {self.stream: {f"{self.name}_x": {"source": f"vf:{self.name}", "dtype": "number", "shape": []}}}

    def _collect(self):
        self.world.log(self.name, "collect")
        self.world.maybe_raise(self.name, "collect")
        t = self.world.vtime()
        for i in range(self.n_events):
            yield {"data": {f"{self.name}_x": float(self.collected)}, "timestamps": {f"{self.name}_x": t}, "time": t}
            self.collected += 1

    def _collect_pages(self):
        self.world.log(self.name, "collect")
        self.world.maybe_raise(self.name, "collect")
        t = self.world.vtime()
        n = self.n_events
        if n:
            yield {
                "data": {f"{self.name}_x": [float(self.collected + i) for i in range(n)]},
                "timestamps": {f"{self.name}_x": [t] * n},
                "time": [t] * n,
            }
            self.collected += n

    def stop(self, success=True):
        self.world.log(self.name, "stop", success)
