"""Instrumented fake devices implementing the bluesky.protocols runtime protocols.

All devices of one case share a :class:`World`: the call ledger, the fault plan, the loop (for
virtual-time statuses) and the commanded state.  Readings are pure functions of commanded state
(motor setpoints, configuration), never of call counts.
"""

from __future__ import annotations


class DeviceError(Exception):
    """Raised by a fake device when the fault plan says so."""


class St:
    """Minimal Status implementation (bluesky.protocols.Status)."""

    def __init__(self, world, dev, op):
        self.world = world
        self.dev = dev
        self.op = op
        self.done = False
        self.success = False
        self._exc = None
        self._cbs = []
        self.sid = world.new_id()

    def add_callback(self, cb):
        if self.done:
            cb(self)
        else:
            self._cbs.append(cb)

    def exception(self, timeout=0.0):
        return self._exc

    def _finish(self, exc=None):
        if self.done:
            return
        self.done = True
        self.success = exc is None
        self._exc = exc
        self.world.log(self.dev, "status_done", (self.op, self.sid, self.success))
        cbs, self._cbs = self._cbs, []
        for cb in cbs:
            cb(self)

    def __repr__(self):
        return f"<St {self.dev}.{self.op}#{self.sid} done={self.done} ok={self.success}>"


class World:
    def __init__(self, loop, faults=None):
        self.loop = loop
        self.ledger = []  # (seq, dev, op, info)
        self._ids = 0
        self.faults = {}
        for f in faults or []:
            self.faults[(f["dev"], f["op"], int(f["n"]))] = f
        self.counts = {}
        self.devices = {}
        self.raised = []  # DeviceError instances raised by the fault plan (identity checks)
        self.results = {}  # result id -> object (readings, statuses) for identity oracles
        self.pending = []  # statuses never finished ("hang")

    def new_id(self):
        self._ids += 1
        return self._ids

    def log(self, dev, op, info=None):
        self.ledger.append((len(self.ledger), dev, op, info))

    def fault(self, dev, op):
        """Count the call and return the fault entry for it (or None)."""
        n = self.counts.get((dev, op), 0) + 1
        self.counts[(dev, op)] = n
        return self.faults.get((dev, op, n))

    def maybe_raise(self, dev, op):
        f = self.fault(dev, op)
        if f is not None and f["kind"] == "raise":
            e = DeviceError(f"{dev}.{op}#{f['n']}")
            self.raised.append(e)
            self.log(dev, op + "!raise", None)
            raise e
        return f

    def status(self, dev, op, delay, f=None):
        st = St(self, dev, op)
        self.results[st.sid] = st
        kind = f["kind"] if f else None
        if kind == "hang":
            self.pending.append(st)
            return st
        exc = None
        if kind == "status_fail":
            exc = DeviceError(f"{dev}.{op}#{f['n']} status")
            self.raised.append(exc)
            delay = f.get("dt", delay)
        if delay and delay > 0:
            self.loop.call_later(delay, st._finish, exc)
        else:
            st._finish(exc)
        return st

    def vtime(self):
        return self.loop.time()


class Base:
    parent = None

    def __init__(self, world, name, **kw):
        self.world = world
        self.name = name
        world.devices[name] = self

    def __repr__(self):
        return self.name

    def __hash__(self):
        return hash(self.name)

    def __eq__(self, other):
        return self is other


def _value_of_world(world, salt):
    """Deterministic reading value: depends only on commanded motor setpoints."""
    v = float(salt)
    for i, (name, dev) in enumerate(sorted(world.devices.items())):
        if isinstance(dev, Motor):
            v += (i + 1) * dev.setpoint
    return v


class Det(Base):
    """Readable, Triggerable, Stageable, Configurable detector."""

    def __init__(
        self, world, name, keys=None, trigger_delay=0.0, salt=0.0, async_read=False, cfg=None, pausable=False, stage_status=None
    ):
        super().__init__(world, name)
        self.stage_status = stage_status  # None: stage()/unstage() return lists; float: a Status finishing after that delay
        self.keys = list(keys or [name])
        self.trigger_delay = trigger_delay
        self.salt = salt
        self.staged = 0
        self.cfg = dict(cfg or {})
        self.hints = {"fields": [self.keys[0]]}
        if async_read:
            self.read = self._aread

    def _reading(self):
        base = _value_of_world(self.world, self.salt)
        t = self.world.vtime()
        r = {k: {"value": base + 0.5 * i, "timestamp": t} for i, k in enumerate(self.keys)}
        return r

    def read(self):
        self.world.maybe_raise(self.name, "read")
        r = self._reading()
        rid = self.world.new_id()
        self.world.results[rid] = r
        self.world.log(self.name, "read", rid)
        return r

    async def _aread(self):
        return Det.read(self)

    def describe(self):
        self.world.log(self.name, "describe")
        return {k: {"source": f"vf:{self.name}", "dtype": "number", "shape": []} for k in self.keys}

    def trigger(self):
        f = self.world.maybe_raise(self.name, "trigger")
        st = self.world.status(self.name, "trigger", self.trigger_delay, f)
        self.world.log(self.name, "trigger", st.sid)
        return st

    def stage(self):
        f = self.world.maybe_raise(self.name, "stage")
        self.staged += 1
        self.world.log(self.name, "stage")
        if self.stage_status is not None:
            return self.world.status(self.name, "stage", self.stage_status, f)
        return [self]

    def unstage(self):
        f = self.world.maybe_raise(self.name, "unstage")
        self.staged -= 1
        self.world.log(self.name, "unstage")
        if self.stage_status is not None:
            return self.world.status(self.name, "unstage", self.stage_status, f)
        return [self]

    def read_configuration(self):
        self.world.log(self.name, "read_configuration", dict(self.cfg))
        t = self.world.vtime()
        return {f"{self.name}_{k}": {"value": v, "timestamp": t} for k, v in sorted(self.cfg.items())}

    def describe_configuration(self):
        return {
            f"{self.name}_{k}": {"source": f"vf:{self.name}:cfg", "dtype": "number", "shape": []}
            for k in sorted(self.cfg)
        }

    def configure(self, d):
        self.world.maybe_raise(self.name, "configure")
        old = self.read_configuration()
        self.cfg.update(d)
        new = self.read_configuration()
        self.world.log(self.name, "configure", dict(d))
        return old, new


class PausableDet(Det):
    def pause(self):
        self.world.maybe_raise(self.name, "pause")
        self.world.log(self.name, "pause")

    def resume(self):
        self.world.maybe_raise(self.name, "resume")
        self.world.log(self.name, "resume")


class Motor(Base):
    """Movable, Stoppable, Readable, Stageable (optionally Locatable/Checkable) motor."""

    def __init__(self, world, name, pos=0.0, delay=0.0, kind="position", readback_offset=0.0, limits=None, parent=None, async_stop=False):
        super().__init__(world, name)
        if async_stop:
            # ophyd-async style: stop() is a coroutine function that really suspends once
            self.stop = self._astop
        self.setpoint = float(pos)
        self.delay = delay
        self.kind = kind
        self.readback_offset = readback_offset
        self.staged = 0
        self.limits = limits
        self.parent = parent
        self.hints = {"fields": [name]}
        if kind == "locatable":
            self.locate = self._locate
        if kind == "position":
            pass

    @property
    def position(self):
        if self.kind == "position":
            return self.setpoint
        raise AttributeError("position")

    def _locate(self):
        self.world.log(self.name, "locate", self.setpoint)
        loc = {"setpoint": self.setpoint, "readback": self.setpoint + self.readback_offset}
        rid = self.world.new_id()
        self.world.results[rid] = loc
        return loc

    def read(self):
        self.world.maybe_raise(self.name, "read")
        r = {self.name: {"value": self.setpoint + self.readback_offset, "timestamp": self.world.vtime()}}
        rid = self.world.new_id()
        self.world.results[rid] = r
        self.world.log(self.name, "read", rid)
        return r

    def describe(self):
        return {self.name: {"source": f"vf:{self.name}", "dtype": "number", "shape": []}}

    def set(self, value, **kw):
        f = self.world.maybe_raise(self.name, "set")
        self.setpoint = float(value)
        st = self.world.status(self.name, "set", self.delay, f)
        self.world.log(self.name, "set", (float(value), st.sid))
        return st

    def stop(self, success=True):
        self.world.log(self.name, "stop", success)
        self.world.maybe_raise(self.name, "stop")

    async def _astop(self, success=True):
        import asyncio

        self.world.log(self.name, "stop", success)
        await asyncio.sleep(0)
        self.world.maybe_raise(self.name, "stop")

    def stage(self):
        self.world.maybe_raise(self.name, "stage")
        self.staged += 1
        self.world.log(self.name, "stage")
        return [self]

    def unstage(self):
        self.world.maybe_raise(self.name, "unstage")
        self.staged -= 1
        self.world.log(self.name, "unstage")
        return [self]

    def check_value(self, value):
        if self.limits is not None:
            lo, hi = self.limits
            if not (lo <= value <= hi):
                raise ValueError(f"{self.name}: {value} outside limits {self.limits}")

    def read_configuration(self):
        return {}

    def describe_configuration(self):
        return {}


class Sig(Base):
    """Subscribable + Readable signal with ophyd-like semantics: ``subscribe(cb)`` immediately
    calls ``cb`` once with the current value when ``run=True`` (default), ``put`` notifies every
    subscriber synchronously in the calling thread."""

    def __init__(self, world, name, value=0.0):
        super().__init__(world, name)
        self.value = value
        self.subs = []

    def read(self):
        r = {self.name: {"value": self.value, "timestamp": self.world.vtime()}}
        rid = self.world.new_id()
        self.world.results[rid] = r
        self.world.log(self.name, "read", rid)
        return r

    def describe(self):
        return {self.name: {"source": f"vf:{self.name}", "dtype": "number", "shape": []}}

    def subscribe(self, cb, run=True, **kw):
        self.world.maybe_raise(self.name, "subscribe")
        self.world.log(self.name, "subscribe", id(cb))
        self.subs.append(cb)
        if run:
            cb()

    def clear_sub(self, cb):
        self.world.maybe_raise(self.name, "clear_sub")  # a failing removal leaves the callback subscribed
        self.world.log(self.name, "clear_sub", id(cb))
        self.subs = [c for c in self.subs if c is not cb]

    def put(self, value):
        self.value = value
        self.world.log(self.name, "put", (value, len(self.subs)))
        for cb in list(self.subs):
            cb()

    def read_configuration(self):
        return {}

    def describe_configuration(self):
        return {}


class Flyer(Base):
    """Flyable + EventCollectable (or EventPageCollectable) flyer producing n events per collect."""

    def __init__(self, world, name, n_events=2, pages=False, delay=0.0, stream=None):
        super().__init__(world, name)
        self.n_events = n_events
        self.delay = delay
        self.stream = stream or name
        self.kicked = 0
        self.collected = 0
        if pages:
            self.collect_pages = self._collect_pages
        else:
            self.collect = self._collect

    def kickoff(self):
        f = self.world.maybe_raise(self.name, "kickoff")
        st = self.world.status(self.name, "kickoff", self.delay, f)
        self.kicked += 1
        self.world.log(self.name, "kickoff", st.sid)
        return st

    def complete(self):
        f = self.world.maybe_raise(self.name, "complete")
        st = self.world.status(self.name, "complete", self.delay, f)
        self.world.log(self.name, "complete", st.sid)
        return st

    def describe_collect(self):
        return {self.stream: {f"{self.name}_x": {"source": f"vf:{self.name}", "dtype": "number", "shape": []}}}

    def _collect(self):
        self.world.log(self.name, "collect")
        self.world.maybe_raise(self.name, "collect")
        t = self.world.vtime()
        for i in range(self.n_events):
            yield {"data": {f"{self.name}_x": float(self.collected)}, "timestamps": {f"{self.name}_x": t}, "time": t}
            self.collected += 1

    def _collect_pages(self):
        self.world.log(self.name, "collect")
        self.world.maybe_raise(self.name, "collect")
        t = self.world.vtime()
        n = self.n_events
        if n:
            yield {
                "data": {f"{self.name}_x": [float(self.collected + i) for i in range(n)]},
                "timestamps": {f"{self.name}_x": [t] * n},
                "time": [t] * n,
            }
            self.collected += n

    def stop(self, success=True):
        self.world.log(self.name, "stop", success)


class CfgSig(Sig):
    """Subscribable + Readable + Configurable + Movable signal (spec key ``cfgsigs``; used by C16).

    Like :class:`Sig` with a configuration dict reported through ``read_configuration`` (same
    format as :class:`Det`), ``configure(d)`` and a ``set(value)`` that performs a ``put`` (so a
    plan can make a monitored signal update with an ordinary ``set`` message) and returns a
    finished status."""

    def __init__(self, world, name, value=0.0, cfg=None):
        super().__init__(world, name, value)
        self.cfg = dict(cfg or {})

    read_configuration = Det.read_configuration
    describe_configuration = Det.describe_configuration
    configure = Det.configure

    def set(self, value, **kw):
        self.world.maybe_raise(self.name, "set")
        self.put(value)
        st = self.world.status(self.name, "set", 0.0, None)
        self.world.log(self.name, "set", (value, st.sid))
        return st


class StreamDet(Base):
    """Detector writing frames into a 'file': Collectable + WritesStreamAssets (+ Flyable, and
    Triggerable/Readable for step scans), modelled on ophyd-async's StandardDetector.

    Fly mode (``collect``): ``frames`` is the progression of the written-frame count, one entry per
    *query* (``get_index()`` or ``collect_asset_docs(index=None)``); past its end the last value is
    repeated.  ``collect_asset_docs(index)`` yields one ``stream_resource`` per fly data key the first
    time ``index > 0`` and then, if ``index`` is beyond what was already published, one
    ``stream_datum`` per key with ``indices = [published, index)`` (blindly trusting ``index``, as
    ophyd-async does).  Data keys: ``<name>_fly`` (or ``keys``), all ``external: "STREAM:"``.

    ``pages=True``: the device is EventPageCollectable *instead of* WritesStreamAssets (no
    ``get_index``; the engine calls ``collect_asset_docs()`` without an index): ``collect_pages()``
    yields one page with as many rows of the internal key ``<name>_n`` as frames were published by
    the preceding ``collect_asset_docs``.

    Step mode (``trigger`` + ``read`` inside create/save): ``trigger()`` takes one frame into a
    separate step file; the following ``collect_asset_docs(None)`` publishes it under the data key
    ``<name>_step`` with ``indices = [k, k+1)``.  ``read()`` returns the internal key ``<name>_val``
    when ``scalar=True`` and nothing otherwise.  Plans must not put a single-detector ``collect`` of
    this device between its ``trigger`` and ``read``.
    """

    def __init__(self, world, name, frames=(), keys=None, pages=False, scalar=False, delay=0.0, trigger_delay=0.0, async_=False):
        super().__init__(world, name)
        self.frames = [int(x) for x in frames]
        self.keys = list(keys or [f"{name}_fly"])
        self.pages = bool(pages)
        self.scalar = bool(scalar)
        self.delay = delay
        self.trigger_delay = trigger_delay
        self.async_ = bool(async_)
        self._pos = 0  # next entry of the progression
        self._published = 0  # fly frames already announced by stream_datum documents
        self._fly_res = None  # {key: stream_resource uid}
        self._step_res = None
        self._step_taken = 0
        self._step_pending = False
        self._last_width = 0
        self._n_datum = 0
        if self.pages:
            self.collect_pages = self._collect_pages
        elif self.async_:
            self.get_index = self._aget_index
            self.collect_asset_docs = self._acollect_asset_docs
        else:
            self.get_index = self._get_index
        self.hints = {"fields": []}

    # ---- written-frame counter
    def _query(self):
        if not self.frames:
            return 0
        v = self.frames[min(self._pos, len(self.frames) - 1)]
        self._pos += 1
        return v

    def _get_index(self):
        v = self._query()
        self.world.log(self.name, "get_index", v)
        return v

    async def _aget_index(self):
        return self._get_index()

    # ---- Flyable
    def kickoff(self):
        f = self.world.maybe_raise(self.name, "kickoff")
        st = self.world.status(self.name, "kickoff", 0.0, f)
        self.world.log(self.name, "kickoff", st.sid)
        return st

    def complete(self):
        f = self.world.maybe_raise(self.name, "complete")
        st = self.world.status(self.name, "complete", self.delay, f)
        self.world.log(self.name, "complete", st.sid)
        return st

    # ---- Collectable
    def _dk(self, external=True):
        dk = {"source": f"vf:{self.name}", "dtype": "array" if external else "number", "shape": [2, 2] if external else []}
        if external:
            dk["external"] = "STREAM:"
        return dk

    def describe_collect(self):
        self.world.log(self.name, "describe_collect")
        d = {k: self._dk() for k in self.keys}
        if self.pages:
            d[f"{self.name}_n"] = self._dk(False)
        return d

    def _resource(self, key):
        uid = f"{self.name}/{key}/{self.world.new_id()}"
        return uid, {
            "uid": uid,
            "data_key": key,
            "mimetype": "application/x-hdf5",
            "uri": f"file://localhost/nonexistent/{self.name}.h5",
            "parameters": {"dataset": f"/{key}/data"},
        }

    def _datum(self, res_uid, start, stop):
        self._n_datum += 1
        return {
            "uid": f"{res_uid}/{self._n_datum}",
            "stream_resource": res_uid,
            "descriptor": "",
            "indices": {"start": int(start), "stop": int(stop)},
            "seq_nums": {"start": 0, "stop": 0},
        }

    def collect_asset_docs(self, index=None):
        self.world.maybe_raise(self.name, "collect_asset_docs")
        if index is None and self._step_pending:
            self._step_pending = False
            key = f"{self.name}_step"
            if self._step_res is None:
                uid, doc = self._resource(key)
                self._step_res = uid
                yield "stream_resource", doc
            k = self._step_taken - 1
            self.world.log(self.name, "collect_asset_docs", ("step", k, k + 1))
            yield "stream_datum", self._datum(self._step_res, k, k + 1)
            return
        asked = index
        if index is None:
            index = self._query()
        index = int(index)
        self.world.log(self.name, "collect_asset_docs", ("fly", asked, self._published, index))
        self._last_width = 0
        if index > 0 and self._fly_res is None:
            self._fly_res = {}
            for key in self.keys:
                uid, doc = self._resource(key)
                self._fly_res[key] = uid
                yield "stream_resource", doc
        if index > self._published:
            for key in self.keys:
                yield "stream_datum", self._datum(self._fly_res[key], self._published, index)
            self._last_width = index - self._published
            self._published = index

    async def _acollect_asset_docs(self, index=None):
        for item in StreamDet.collect_asset_docs(self, index):
            yield item

    def _collect_pages(self):
        self.world.log(self.name, "collect_pages", self._last_width)
        n = self._last_width
        self._last_width = 0
        t = self.world.vtime()
        if n:
            base = self._published - n
            yield {
                "data": {f"{self.name}_n": [float(base + i) for i in range(n)]},
                "timestamps": {f"{self.name}_n": [t] * n},
                "time": [t] * n,
            }

    # ---- step mode: Triggerable + Readable
    def trigger(self):
        f = self.world.maybe_raise(self.name, "trigger")
        self._step_taken += 1
        self._step_pending = True
        st = self.world.status(self.name, "trigger", self.trigger_delay, f)
        self.world.log(self.name, "trigger", st.sid)
        return st

    def read(self):
        self.world.maybe_raise(self.name, "read")
        r = {}
        if self.scalar:
            r[f"{self.name}_val"] = {"value": float(self._step_taken), "timestamp": self.world.vtime()}
        rid = self.world.new_id()
        self.world.results[rid] = r
        self.world.log(self.name, "read", rid)
        return r

    def describe(self):
        d = {f"{self.name}_step": self._dk()}
        if self.scalar:
            d[f"{self.name}_val"] = self._dk(False)
        return d

    def read_configuration(self):
        return {}

    def describe_configuration(self):
        return {}

    def stop(self, success=True):
        self.world.log(self.name, "stop", success)
