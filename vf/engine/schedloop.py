"""SchedLoop: an asyncio event loop whose schedule is owned by the harness.

* virtual time: ``time()`` is a counter that only advances when the loop has nothing ready and a
  timer is pending (the selector ``select(timeout>0)`` is turned into a clock jump);
* every callback the loop runs is counted; before the k-th callback of a *segment* (one blocking
  public RunEngine call made by the harness) the loop can stall while a foreign thread performs a
  public API call and has enqueued its ``call_soon_threadsafe`` handle -- so "a request arrives at
  an arbitrary moment" becomes the integer k;
* quiescence (``select(None)``: nothing ready, no timer) is observable, which gives an exact
  "stuck" verdict without wall-clock timeouts.

Only public asyncio extension points are used (``SelectorEventLoop(selector=...)``, overriding
``time``, ``call_soon``, ``call_at``, ``call_soon_threadsafe``).
"""

from __future__ import annotations

import asyncio
import selectors
import threading
import time as _time


class _VSelector:
    def __init__(self):
        self._real = selectors.DefaultSelector()
        self.owner = None

    def __getattr__(self, name):
        return getattr(self._real, name)

    def select(self, timeout=None):
        events = self._real.select(0)
        if events:
            return events
        own = self.owner
        if timeout is None:
            own._set_idle(True)
            try:
                return self._real.select(None)
            finally:
                own._set_idle(False)
        if timeout > 0:
            own._vtime += timeout
        return []


class HarnessWatchdog(BaseException):
    """Real-time watchdog fired inside the harness (harness error, never a violation)."""


class SchedLoop(asyncio.SelectorEventLoop):
    def __init__(self):
        sel = _VSelector()
        super().__init__(selector=sel)
        sel.owner = self
        self._vtime = 1000.0
        self._loop_tid = None
        self._idle = threading.Event()
        self._idle_seq = 0
        self.count = 0  # handles executed in the current segment
        self.total = 0
        self._due = {}  # handle index -> [callable]
        self._gate = threading.Event()
        self._gate.set()
        self._foreign_enq = 0
        self._foreign_cv = threading.Condition()
        self.helpers = []  # live helper threads
        self.trace = None  # optional list: per handle a short label (debugging)
        self.on_handle = None
        self.harness_error = None

    # ---- virtual time
    def time(self):
        return self._vtime

    # ---- idle bookkeeping
    def _set_idle(self, v):
        if v:
            self._idle_seq += 1
            self._idle.set()
        else:
            self._idle.clear()

    def is_idle(self):
        return self._idle.is_set()

    def wait_idle(self, timeout=20.0):
        """Block (real time) until the loop is quiescent: nothing ready and no timers."""
        t0 = _time.monotonic()
        while True:
            if self._idle.wait(0.05):
                # make sure it stays idle (no self-pipe wake-up in flight)
                if not self._ready and not self._scheduled and self._idle.is_set():
                    return True
            if _time.monotonic() - t0 > timeout:
                return False

    def helpers_alive(self):
        return any(t.is_alive() for t in self.helpers)

    def is_stuck(self):
        """True when nothing can make progress any more: loop quiescent and no helper thread that
        could still enqueue work.  (Callers additionally check that their own wake-up condition
        is not already satisfied.)"""
        return self._idle.is_set() and not self._ready and not self._scheduled and not self.helpers_alive()

    # ---- segment control
    def begin_segment(self, due=None, hold=False):
        self.count = 0
        self._due = dict(due or {})
        if hold:
            self._gate.clear()

    def open_gate(self):
        self._gate.set()

    def add_due(self, k, fn):
        self._due.setdefault(k, []).append(fn)

    # ---- counting shim
    def _wrap(self, callback):
        loop = self

        def shim(*args):
            loop._before_handle()
            return callback(*args)

        shim._vf_inner = callback
        return shim

    def _before_handle(self):
        if not self._gate.is_set():
            # the harness' main thread is still enqueuing its public call
            if not self._gate.wait(30):
                self.harness_error = "gate never opened"
        k = self.count
        self.count += 1
        self.total += 1
        fns = self._due.pop(k, None)
        if fns:
            for fn in fns:
                try:
                    fn()
                except BaseException as e:  # noqa: BLE001  -- an injection itself must never kill a handle
                    self.harness_error = f"injection at handle {k} raised {type(e).__name__}: {e}"
        if self.on_handle is not None:
            self.on_handle(k)

    def call_soon(self, callback, *args, context=None):
        return super().call_soon(self._wrap(callback), *args, context=context)

    def call_at(self, when, callback, *args, context=None):
        return super().call_at(when, self._wrap(callback), *args, context=context)

    def call_soon_threadsafe(self, callback, *args, context=None):
        # BaseEventLoop.call_soon_threadsafe uses self._call_soon directly, so wrap here too
        h = super().call_soon_threadsafe(self._wrap(callback), *args, context=context)
        if threading.get_ident() != self._loop_tid:
            with self._foreign_cv:
                self._foreign_enq += 1
                self._foreign_cv.notify_all()
        return h

    def run_forever(self):
        self._loop_tid = threading.get_ident()
        return super().run_forever()

    # ---- foreign-thread injection (called on the loop thread, inside the shim)
    def inject_foreign(self, fn, results, label):
        """Run ``fn()`` on a fresh helper thread and stall the loop until that thread has either
        enqueued a threadsafe handle or finished (e.g. raised before enqueuing)."""
        with self._foreign_cv:
            base = self._foreign_enq
        rec = {"label": label, "at": self.count - 1, "state": "started"}
        results.append(rec)

        def target():
            try:
                rec["result"] = fn()
                rec["state"] = "returned"
            except BaseException as e:  # noqa: BLE001
                rec["exception"] = e
                rec["state"] = "raised"

        th = threading.Thread(target=target, daemon=True, name=f"vf-helper-{label}")
        self.helpers.append(th)
        th.start()
        t0 = _time.monotonic()
        with self._foreign_cv:
            while self._foreign_enq == base and th.is_alive():
                self._foreign_cv.wait(0.01)
                if _time.monotonic() - t0 > 20:
                    raise HarnessWatchdog(f"foreign call {label} neither enqueued nor finished")
        return rec
