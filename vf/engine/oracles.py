"""Reference models used by the E1 oracles (pure functions of the observation record)."""

from __future__ import annotations

from collections import OrderedDict, defaultdict


def doc_name(n):
    return getattr(n, "name", n)


_VALIDATORS = None


def _validators():
    global _VALIDATORS
    if _VALIDATORS is None:
        from event_model import DocumentNames, schema_validators

        _VALIDATORS = {dn.name: schema_validators[dn] for dn in DocumentNames if dn in schema_validators}
    return _VALIDATORS


class Run:
    def __init__(self, start):
        self.start = start
        self.uid = start["uid"]
        self.docs = [("start", start)]
        self.stop = None
        self.descriptors = OrderedDict()  # uid -> doc
        self.events = defaultdict(list)  # descriptor uid -> [event docs in emission order]
        self.resources = {}
        self.stream_resources = {}
        self.stream_datums = []

    def stream_of(self, desc_uid):
        return self.descriptors[desc_uid]["name"]

    def events_by_stream(self):
        out = defaultdict(list)
        for duid, evs in self.events.items():
            out[self.stream_of(duid)].extend(evs)
        # restore global emission order within a stream
        for k in out:
            out[k].sort(key=lambda e: e["_vf_order"])
        return out


def check_docs(docs, idle=True, validate=True):
    """docmodel: lifecycle automaton + referential integrity + schema validity + uid uniqueness.

    ``docs`` is a list of (name, doc, ...) in emission order.  Returns (runs, problems) where
    problems is a list of (kind, detail).
    """
    problems = []
    runs = OrderedDict()
    seen_uids = set()
    desc_to_run = {}
    res_to_run = {}
    sres_to_run = {}
    datum_ids = set()
    vals = _validators() if validate else {}

    def uid_once(u, what):
        if u in seen_uids:
            problems.append(("duplicate_uid", f"{what} uid {u} emitted twice"))
        seen_uids.add(u)

    for order, item in enumerate(docs):
        name, doc = doc_name(item[0]), item[1]
        if validate and name in vals:
            try:
                vals[name].validate(doc)
            except Exception as e:  # noqa: BLE001
                problems.append(("schema_invalid", f"{name}: {str(e)[:300]}"))
        if name == "start":
            uid_once(doc["uid"], "start")
            if doc["uid"] in runs:
                problems.append(("second_start", f"run {doc['uid']} started twice"))
            runs[doc["uid"]] = Run(doc)
            continue
        # find the run
        run = None
        if name == "stop":
            uid_once(doc["uid"], "stop")
            run = runs.get(doc.get("run_start"))
            if run is None:
                problems.append(("dangling_ref", f"stop refers to unknown run {doc.get('run_start')}"))
                continue
            if run.stop is not None:
                problems.append(("second_stop", f"run {run.uid} stopped twice"))
            run.stop = doc
            run.docs.append((name, doc))
            continue
        if name == "descriptor":
            uid_once(doc["uid"], "descriptor")
            run = runs.get(doc.get("run_start"))
            if run is None:
                problems.append(("dangling_ref", f"descriptor refers to unknown run {doc.get('run_start')}"))
                continue
            run.descriptors[doc["uid"]] = doc
            desc_to_run[doc["uid"]] = run
        elif name == "event":
            uid_once(doc["uid"], "event")
            run = desc_to_run.get(doc.get("descriptor"))
            if run is None:
                problems.append(("dangling_ref", f"event refers to unknown descriptor {doc.get('descriptor')}"))
                continue
            d = dict(doc)
            d["_vf_order"] = order
            run.events[doc["descriptor"]].append(d)
        elif name == "event_page":
            run = desc_to_run.get(doc.get("descriptor"))
            for u in doc.get("uid", []):
                uid_once(u, "event(page)")
            if run is None:
                problems.append(("dangling_ref", f"event_page refers to unknown descriptor {doc.get('descriptor')}"))
                continue
            n = len(doc["seq_num"])
            for i in range(n):
                run.events[doc["descriptor"]].append(
                    {
                        "uid": doc["uid"][i],
                        "seq_num": doc["seq_num"][i],
                        "time": doc["time"][i],
                        "data": {k: v[i] for k, v in doc["data"].items()},
                        "timestamps": {k: v[i] for k, v in doc["timestamps"].items()},
                        "descriptor": doc["descriptor"],
                        "_vf_order": order,
                        "_vf_page": True,
                    }
                )
        elif name == "resource":
            uid_once(doc["uid"], "resource")
            run = runs.get(doc.get("run_start"))
            if run is None:
                problems.append(("dangling_ref", f"resource refers to unknown run {doc.get('run_start')}"))
                continue
            run.resources[doc["uid"]] = doc
            res_to_run[doc["uid"]] = run
        elif name == "datum":
            if doc["datum_id"] in datum_ids:
                problems.append(("duplicate_uid", f"datum_id {doc['datum_id']} emitted twice"))
            datum_ids.add(doc["datum_id"])
            run = res_to_run.get(doc.get("resource"))
            if run is None:
                problems.append(("dangling_ref", f"datum refers to unknown resource {doc.get('resource')}"))
                continue
        elif name == "stream_resource":
            uid_once(doc["uid"], "stream_resource")
            run = runs.get(doc.get("run_start"))
            if run is None:
                problems.append(("dangling_ref", f"stream_resource refers to unknown run {doc.get('run_start')}"))
                continue
            run.stream_resources[doc["uid"]] = doc
            sres_to_run[doc["uid"]] = run
        elif name == "stream_datum":
            uid_once(doc["uid"], "stream_datum")
            run = sres_to_run.get(doc.get("stream_resource"))
            if run is None:
                problems.append(
                    ("dangling_ref", f"stream_datum refers to unknown stream_resource {doc.get('stream_resource')}")
                )
                continue
            drun = desc_to_run.get(doc.get("descriptor"))
            if drun is not run:
                problems.append(("cross_run_ref", "stream_datum's descriptor and stream_resource belong to different runs"))
            d = dict(doc)
            d["_vf_order"] = order
            run.stream_datums.append(d)
        else:
            problems.append(("unknown_doc", f"unexpected document name {name}"))
            continue
        if run.stop is not None:
            problems.append(("doc_after_stop", f"{name} of run {run.uid} emitted after its stop"))
        run.docs.append((name, doc))

    if idle:
        for run in runs.values():
            if run.stop is None:
                problems.append(("missing_stop", f"run {run.uid} has no stop although the engine is idle"))
    return runs, problems


def numbering_problems(run, rewound_streams=(), only_streams=None):
    """C05: per stream, seq_nums are exactly 1..N with N = num_events (missing key <=> 0)."""
    problems = []
    if run.stop is None:
        return problems
    ne = run.stop.get("num_events", {}) or {}
    by_stream = run.events_by_stream()
    for duid, d in run.descriptors.items():
        by_stream.setdefault(d["name"], by_stream.get(d["name"], []))
    for stream, evs in by_stream.items():
        if only_streams is not None and stream not in only_streams:
            continue
        seqs = [e["seq_num"] for e in evs]
        n = ne.get(stream, 0)
        uniq = sorted(set(seqs))
        if uniq != list(range(1, len(uniq) + 1)):
            problems.append(("seq_gap", f"stream {stream}: seq_nums {seqs} are not 1..N"))
        if len(uniq) != n:
            problems.append(("num_events_mismatch", f"stream {stream}: num_events={n} but distinct seq_nums={uniq}"))
    for stream in ne:
        if only_streams is not None and stream not in only_streams:
            continue
        if stream not in by_stream and ne[stream] != 0:
            problems.append(("num_events_unknown_stream", f"num_events names stream {stream} with no descriptor"))
    return problems


# ------------------------------------------------------------------------------------------
# cachemodel (C04): written from the property text, not from RunEngine._msg_cache

NON_REPLAYABLE = {
    "pause",
    "subscribe",
    "unsubscribe",
    "stage",
    "unstage",
    "monitor",
    "unmonitor",
    "open_run",
    "close_run",
    "install_suspender",
    "remove_suspender",
    "_start_suspender",
}
IMPLICIT_CHECKPOINTS = {"stage", "unstage", "monitor", "unmonitor", "subscribe", "unsubscribe", "close_run"}


def replay_model(obs):
    """Scan the executed-message trace (msg_hook order) with the replay model of C04.

    Returns (problems, info) where info["interruptions"] is a list of
    {"kind", "hook_index", "cache_len", "cache_cmds", "since_implicit"}.
    """
    plog = obs.plog
    user_ids = plog.msg_ids  # id(msg) -> tap index (messages yielded by the plan under test)
    cache = []  # None when not resumable
    rewindable = True
    future = []  # messages that must be executed next, in order (identity)
    executed = set()
    last_fresh_tap = -1
    problems = []
    interruptions = []
    since_implicit = 99
    # interruption points: 'paused' transitions that are followed by a resume (paused->running),
    # and _start_suspender messages.  A transition into aborting/stopping/halting voids whatever
    # replay was still expected (the plan is being torn down; what follows is cleanup).
    events = []  # (hook_index, kind)
    for j, (new, old, hi) in enumerate(obs.states):
        if new == "paused":
            nxt = obs.states[j + 1][0] if j + 1 < len(obs.states) else None
            events.append((hi, "pause" if nxt == "running" else "pause_then_terminate"))
        elif new in ("aborting", "stopping", "halting"):
            events.append((hi, "terminate"))
    paused_at = events
    pi = 0
    terminated = False

    def interrupt(kind, hi):
        nonlocal cache, future
        c = list(cache) if cache is not None else []
        interruptions.append(
            {
                "kind": kind,
                "hook_index": hi,
                "cache_len": len(c),
                "cache_cmds": [m.command for m in c],
                "since_implicit": since_implicit,
                "resumable": cache is not None,
                "rewindable": rewindable,
            }
        )
        future = c + future
        if cache is not None:
            cache = []

    for hi, h in enumerate(obs.hook):
        while pi < len(paused_at) and paused_at[pi][0] <= hi:
            if paused_at[pi][1] == "pause":
                interrupt("pause", paused_at[pi][0])
            else:
                future = []
                terminated = True
            pi += 1
        m = h["msg"]
        cmd = m.command
        is_user = id(m) in user_ids
        if cmd == "_start_suspender":
            if not terminated:
                interrupt("suspend", hi)
        elif is_user:
            if future:
                if m is future[0]:
                    future.pop(0)
                else:
                    exp = future[0]
                    problems.append(
                        (
                            "replay_mismatch",
                            f"hook#{hi}: executed {cmd}(tap#{user_ids[id(m)]}) but the model expected replay of "
                            f"{exp.command}(tap#{user_ids.get(id(exp))}); remaining expected replay: {[x.command for x in future][:8]}",
                        )
                    )
                    # resynchronise: drop the expectation to avoid cascades
                    future = []
            elif id(m) in executed:
                problems.append(
                    (
                        "unexpected_reexecution",
                        f"hook#{hi}: {cmd}(tap#{user_ids[id(m)]}) executed again although the model's cache did not hold it",
                    )
                )
            else:
                t = user_ids[id(m)]
                if t != last_fresh_tap + 1:
                    problems.append(("plan_not_continued", f"hook#{hi}: fresh message tap#{t} after tap#{last_fresh_tap}"))
                last_fresh_tap = t
            executed.add(id(m))
        # caching
        if cache is not None and rewindable and cmd not in NON_REPLAYABLE:
            cache.append(m)
        since_implicit += 1
        # effects
        if cmd == "checkpoint":
            cache = []
        elif cmd == "clear_checkpoint":
            cache = None
        elif cmd in IMPLICIT_CHECKPOINTS:
            if cache is not None:
                cache = []
            since_implicit = 0
        elif cmd == "rewindable":
            v = m.args[0] if m.args else None
            if v is not None and bool(v) != rewindable:
                rewindable = bool(v)
                if cache is not None:
                    cache = []
                since_implicit = 0
    while pi < len(paused_at):
        if paused_at[pi][1] == "pause":
            interrupt("pause", paused_at[pi][0])
        pi += 1
    return problems, {"interruptions": interruptions, "unreplayed": [m.command for m in future]}
