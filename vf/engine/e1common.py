"""Glue shared by the E1 property modules."""

from __future__ import annotations

from ..core import Result
from .harness import run_case


def klass_of(case, obs):
    name = case.get("name", "gen")
    inj = [i["inj"]["do"] for i in obs.injected]
    decs = [s["do"] for s in case.get("stages", [])[1:]]
    return f"{name}|{'+'.join(inj) or 'none'}|{'>'.join(d for d in decs[:1])}"


def landing(obs):
    """Where did the first injection land relative to the plan's messages?"""
    if not obs.injected:
        return "none"
    i = obs.injected[0]
    hi = i["hook_index"]
    if hi == 0:
        return "before_first_msg"
    if hi >= len(obs.hook):
        return "after_last_msg"
    prev = obs.hook[hi - 1]["msg"].command
    return f"after_{prev}"


def features(case, obs):
    """Outcome-independent features of the case used to match known findings narrowly."""
    f = {"plan": case.get("name", "gen"), "landing": landing(obs)}
    if obs.injected:
        f["first_inj"] = obs.injected[0]["inj"]["do"]
        f["open_runs_at_inj"] = obs.injected[0]["open_runs"]
        f["state_at_inj"] = obs.injected[0]["state"]
    f["decisions"] = ">".join(s["do"] for s in case.get("stages", [])[1:])
    # a foreign-thread abort/stop/halt whose coroutine ran when the engine had meanwhile become
    # paused (the caller sampled "not paused" before): visible as paused->X inside a call/resume stage
    hit = False
    stages = case.get("stages", [])
    for (new, old, hi), meta in zip(obs.states, obs.state_meta):
        if old == "paused" and new in ("aborting", "stopping", "halting"):
            si = meta["seg"]
            if 0 <= si < len(stages) and stages[si]["do"] in ("call", "resume"):
                hit = True
    f["foreign_terminator_hit_paused"] = hit
    f["suspend_requested"] = any(i["inj"]["do"] == "suspend" for i in obs.injected)
    # a status fault plus a wait(..., watch=[...]) executed by the plan (F24)
    f["status_fault_and_watching_wait"] = any(x.get("kind") == "status_fail" for x in (case.get("faults") or [])) and any(
        h["msg"].command == "wait" and h["msg"].kwargs.get("watch") for h in obs.hook
    )
    return f


def interrupted_with_open_run(obs):
    if any(i["open_runs"] >= 1 for i in obs.injected):
        return True
    return False


def make_check(oracle):
    def check_case(case):
        obs = run_case(case)
        res = Result()
        res.klass = klass_of(case, obs)
        res.classes.append("landing:" + landing(obs))
        if obs.stuck:
            res.classes.append("stuck")
        oracle(case, obs, res)
        return res

    return check_case


def generated(ctx, check_case, n, profile="general"):
    from . import plangen

    ctx.hyp(lambda: plangen.cases(profile), check_case, max_examples=n, tag=profile)
