"""Oracles of the RunEngine properties, as pure functions of (case, obs)."""

from __future__ import annotations

from . import e1common
from .oracles import NON_REPLAYABLE, check_docs, doc_name, replay_model

TERMINATORS = ("abort", "stop", "halt")


def _feat(case, obs, **kw):
    f = e1common.features(case, obs)
    f.update(kw)
    return f


def model_states(obs):
    """Per hook index i: model resumability *before* message i executes (len = len(hook)+1)."""
    res = [True]
    resumable = True
    bundling = set()  # run keys with an event bundle open: a checkpoint is rejected then and changes nothing
    for h in obs.hook:
        cmd = h["msg"].command
        if cmd == "create":
            bundling.add(h["msg"].run)
        elif cmd in ("save", "drop", "close_run"):
            bundling.discard(h["msg"].run)
        if cmd == "checkpoint":
            if not bundling:
                resumable = True
        elif cmd == "clear_checkpoint":
            resumable = False
        res.append(resumable)
    return res


def accepted_requests(obs):
    """Foreign requests that were accepted (returned without raising), with their labels."""
    return [r for r in obs.foreign if r.get("state") == "returned"]


def effect_window(obs, inj_rec):
    """Hook-index window [a, b] between the arrival of a request and the state change it caused."""
    a = inj_rec["hook_index"]
    b = a
    for (new, old, hi), meta in zip(obs.states, obs.state_meta):
        if meta["total"] >= inj_rec["total"] and new in ("pausing", "suspending", "aborting", "stopping", "halting"):
            b = max(a, hi)
            break
    else:
        b = len(obs.hook)
    return a, b


# ------------------------------------------------------------------------------------------ C07


def oracle_c07(case, obs, res):
    from bluesky.run_engine import RunEngineStateMachine

    table = RunEngineStateMachine.Meta.transitions
    F = lambda **kw: _feat(case, obs, **kw)  # noqa: E731
    for (new, old, hi), meta in zip(obs.states, obs.state_meta):
        if new == old:
            continue
        if new not in table.get(old, []):
            res.fail("illegal_transition", f"{old} -> {new} at hook#{hi}", **F())
        if new == "panicked":
            res.fail("panicked", f"engine panicked at hook#{hi}", **F())
    if obs.stuck:
        res.fail("stuck", f"a blocking call can make no further progress (calls: {_calls(obs)})", **F())
        return res
    for c in obs.calls:
        if c.get("outcome") in ("return", "raise"):
            st = c.get("state_after")
            if st not in ("idle", "paused"):
                exc = c.get("exc")
                res.fail(
                    "transient_state_after_call",
                    f"{c['do']}() {'raised' if c['outcome'] == 'raise' else 'returned'} ({type(exc).__name__ if exc is not None else 'ok'}) with state {st!r}",
                    **F(call=c["do"], state_after=st),
                )
    if obs.probe is not None:
        p = obs.probe
        if p.get("outcome") != "return" or p.get("state_after") != "idle":
            exc = p.get("exc")
            res.fail(
                "unusable_for_next_call",
                f"probe RE([Msg('null')]) -> {p.get('outcome')} {type(exc).__name__ if exc is not None else ''}: {exc} "
                f"(state before {p.get('state_before')}, after {p.get('state_after')})",
                **F(state_before_probe=p.get("state_before")),
            )
    # non-trivial: a request arrived in a non-running state or within 3 handles of a state change
    nt = False
    for i in obs.injected:
        if i["state"] != "running":
            nt = True
        for meta in obs.state_meta:
            if abs(meta["total"] - i["total"]) <= 3:
                nt = True
    res.nontrivial = nt
    for r in obs.foreign:
        if r.get("state") == "raised":
            res.classes.append("foreign_raised:" + type(r["exception"]).__name__)
    return res


def _calls(obs):
    out = []
    for c in obs.calls:
        e = c.get("exc")
        out.append(f"{c['do']}:{c.get('outcome')}:{type(e).__name__ if e is not None else ''}:{c.get('state_after')}")
    return out


# ------------------------------------------------------------------------------------------ C08


def oracle_c08(case, obs, res):
    from bluesky.utils import RunEngineInterrupted

    F = lambda **kw: _feat(case, obs, **kw)  # noqa: E731
    if obs.stuck:
        res.classes.append("stuck(C07)")
        return res
    ms = model_states(obs)
    term_requested = False  # an abort/stop/halt was accepted so far (foreign or main-thread stage)
    nonresumable_hit = False
    for ci, c in enumerate(obs.calls):
        if c.get("outcome") not in ("return", "raise"):
            continue
        do = c["do"]
        if do in TERMINATORS:
            term_requested = True
            continue
        seg_i = ci
        # accepted foreign terminators injected in this segment
        for r in obs.foreign:
            if r.get("seg") == seg_i and r["label"] in TERMINATORS and r.get("state") == "returned":
                term_requested = True
        # pause/suspend requests of this segment that took effect in a non-resumable section
        ambiguous = False
        for inj in obs.injected:
            if inj["seg"] != seg_i or inj["inj"]["do"] not in ("pause", "suspend", "defer"):
                continue
            a, b = effect_window(obs, inj)
            window = ms[a : b + 1] or [ms[-1]]
            if not any(window):
                nonresumable_hit = True
            elif not all(window):
                ambiguous = True
        # in-plan pause messages in a non-resumable section
        for hi in range(c.get("hook_start", 0), c.get("hook_end", len(obs.hook))):
            if obs.hook[hi]["msg"].command == "pause" and not ms[hi]:
                nonresumable_hit = True
        st = c.get("state_after")
        exc = c.get("exc")
        if c["outcome"] == "raise" and isinstance(exc, RunEngineInterrupted):
            if st == "paused":
                nxt = obs.calls[ci + 1] if ci + 1 < len(obs.calls) else None
                if nxt is not None and nxt["do"] == "resume" and nxt.get("outcome") == "raise":
                    from bluesky._vendor.super_state_machine.errors import TransitionError

                    if isinstance(nxt.get("exc"), TransitionError):
                        res.fail("paused_not_resumable", f"resume() rejected: {nxt['exc']}", **F())
            elif st == "idle":
                if not term_requested and not nonresumable_hit and not ambiguous:
                    # outcome-independent features: was a clear_checkpoint executed before a request of this
                    # segment arrived (checkpoint re-arming, F3)?  did every request arrive after the plan's
                    # last message (F2)?
                    reqs = [i for i in obs.injected if i["seg"] == seg_i and i["inj"]["do"] in ("pause", "suspend", "defer")]
                    cleared_before = any(
                        any(h["msg"].command == "clear_checkpoint" for h in obs.hook[: effect_window(obs, i)[1]]) for i in reqs
                    )
                    # in-plan pause messages (hard, or deferred ones honoured at a later checkpoint) of this stage
                    stage_cmds = [h["msg"].command for h in obs.hook[c.get("hook_start", 0) : c.get("hook_end", len(obs.hook))]]
                    if "pause" in stage_cmds and any(
                        h["msg"].command == "clear_checkpoint" for h in obs.hook[: c.get("hook_end", len(obs.hook))]
                    ):
                        cleared_before = True
                    hook_end = c.get("hook_end", len(obs.hook))
                    after_end = bool(reqs) and all(effect_window(obs, i)[1] >= hook_end for i in reqs)
                    res.fail(
                        "interrupted_but_idle",
                        f"{do}() raised RunEngineInterrupted with state 'idle' although no abort/stop/halt was requested "
                        f"and no pause/suspension hit a non-resumable section (plan returned: {obs.plog.returned})",
                        **F(clear_checkpoint_before_request=cleared_before, request_after_last_message=after_end),
                    )
                # every run closed
                runs, _ = check_docs(obs.docs[: None], idle=False, validate=False)
                # (documents emitted so far belong to this or earlier stages; all runs must be closed now)
                open_runs = [r.uid for r in runs.values() if r.stop is None]
                if open_runs and ci == len([x for x in obs.calls]) - 1:
                    res.fail("idle_with_open_run", f"idle after interruption but runs {open_runs} have no stop", **F())
            else:
                res.classes.append("transient_after_call(C07)")
        elif c["outcome"] == "return":
            if st != "idle":
                res.fail("returned_not_idle", f"{do}() returned normally with state {st!r}", **F())
            if not obs.plog.returned:
                res.fail("returned_without_completion", f"{do}() returned normally but the plan did not run to completion", **F())
        elif c["outcome"] == "raise":
            res.classes.append("call_raised:" + type(exc).__name__)
    # non-trivial: request within the last 10 handles of a call, or right at a checkpoint boundary
    nt = False
    for inj in obs.injected:
        c = obs.calls[inj["seg"]] if inj["seg"] < len(obs.calls) else None
        if c and "handles" in c and c["handles"] - inj["k"] <= 10:
            nt = True
        hi = inj["hook_index"]
        around = [obs.hook[j]["msg"].command for j in range(max(0, hi - 1), min(len(obs.hook), hi + 1))]
        if "checkpoint" in around or "clear_checkpoint" in around:
            nt = True
    res.nontrivial = nt
    return res


def interruption_features(obs):
    """Outcome-independent features of where the interruptions took effect."""
    _, info = replay_model(obs)
    prev_cmds = []
    closed = False
    nonrew = False
    helper_inflight = False
    for it in info["interruptions"]:
        hi = it["hook_index"]
        if not it.get("rewindable", True):
            nonrew = True
        user = [h["msg"].command for h in obs.hook[:hi] if id(h["msg"]) in obs.plog.msg_ids]
        prev_cmds.append(user[-1] if user else None)
        if 0 < hi <= len(obs.hook) and id(obs.hook[hi - 1]["msg"]) not in obs.plog.msg_ids and not it.get("rewindable", True):
            helper_inflight = True  # a message of the engine's own suspension helper plan (wait_for, ...) was in flight
        if "close_run" in _cmds_since_checkpoint(obs, hi):
            closed = True
    return {
        "close_run_since_checkpoint": closed,
        # the message in flight at the interruption is a command that is never put in the replay cache
        "interrupted_at_nonreplayable": helper_inflight or any(c in NON_REPLAYABLE for c in prev_cmds if c),
        # the interruption took effect while the plan was marked non-rewindable
        "interrupted_in_nonrewindable_region": nonrew,
        "prev_cmds": ",".join(str(c) for c in prev_cmds),
    }


# ------------------------------------------------------------------------------------------ C04


def oracle_c04(case, obs, res):
    F = lambda **kw: _feat(case, obs, **kw)  # noqa: E731
    if obs.stuck:
        res.classes.append("stuck(C07)")
        return res
    problems, info = replay_model(obs)
    ints = info["interruptions"]
    feats = interruption_features(obs)
    for kind, detail in problems:
        res.fail(kind, detail, **F(**feats))
    res.nontrivial = any((it["cache_len"] > 0 or it["since_implicit"] <= 2) and it["resumable"] for it in ints)
    for it in ints:
        res.classes.append(f"int:{it['kind']}:cache={'0' if it['cache_len'] == 0 else '1-3' if it['cache_len'] <= 3 else '4+'}")
    return res


def _cmds_since_checkpoint(obs, hi):
    out = []
    for h in obs.hook[:hi]:
        c = h["msg"].command
        if c == "checkpoint":
            out = []
        else:
            out.append(c)
    return out


# ------------------------------------------------------------------------------------------ C03


def bundled_streams(obs):
    names = set()
    for h in obs.hook:
        m = h["msg"]
        if m.command == "create":
            n = m.kwargs.get("name") or (m.args[0] if m.args else None)
            names.add((m.run, n))
    return names


def final_data(obs):
    """{(run_index, stream): {seq_num: data}} using the LAST event emitted per seq_num, plus
    num_events per run."""
    runs, _ = check_docs(obs.docs, idle=False, validate=False)
    out = {}
    ne = {}
    for ri, run in enumerate(runs.values()):
        for stream, evs in run.events_by_stream().items():
            d = {}
            for e in evs:
                d[e["seq_num"]] = e["data"]
            out[(ri, stream)] = d
        ne[ri] = dict((run.stop or {}).get("num_events", {}) or {})
    return out, ne


def oracle_c03(case, obs, res, ref_obs):
    from bluesky.utils import RunEngineInterrupted

    F = lambda **kw: _feat(case, obs, **kw)  # noqa: E731
    if obs.stuck:
        res.classes.append("stuck(C07)")
        return res
    feats = interruption_features(obs)
    # every resume completes without error (RunEngineInterrupted = paused again is fine)
    for c in obs.calls:
        if c.get("auto"):
            continue  # the harness' own abort() of a plan left paused at the end of the history is not part of the property
        if c.get("outcome") == "raise" and not isinstance(c.get("exc"), RunEngineInterrupted):
            res.fail(
                "resume_raises" if c["do"] == "resume" else "call_raises",
                f"{c['do']}() raised {type(c['exc']).__name__}: {c['exc']}",
                **F(**feats),
            )
    if res.failures:
        return res
    if obs.auto_abort or not obs.plog.returned:
        res.classes.append("not_completed")
        return res
    names = {n for (_, n) in bundled_streams(ref_obs)}
    got, ne = final_data(obs)
    ref, ne_ref = final_data(ref_obs)
    for key in sorted(set(got) | set(ref), key=repr):
        if key[1] not in names:
            continue
        g, r = got.get(key, {}), ref.get(key, {})
        if g != r:
            res.fail(
                "data_differs",
                f"run#{key[0]} stream {key[1]}: interrupted execution recorded {g}, uninterrupted {r}",
                **F(**feats),
            )
    for ri in sorted(set(ne) | set(ne_ref)):
        a = {k: v for k, v in ne.get(ri, {}).items() if k in names}
        b = {k: v for k, v in ne_ref.get(ri, {}).items() if k in names}
        if a != b:
            res.fail("num_events_differs", f"run#{ri}: num_events {a} vs uninterrupted {b}", **F(**feats))
    _, info = replay_model(obs)
    res.nontrivial = any(it["cache_len"] > 0 for it in info["interruptions"]) and e1common.interrupted_with_open_run(obs)
    return res


# ------------------------------------------------------------------------------------------ C10


def cleanup_obligations(obs):
    """Plan-side: every try/finally that was entered ran its finally; every finalize/contingency
    final plan started.  Returns list of unmet obligations."""
    ev = obs.plog.events
    entered = [e for e in ev if e["t"] == "try_enter" and e["has_final"]]
    done = {e["node"] for e in ev if e["t"] == "finally"}
    missing = [f"finally of try#{i}" for i, e in enumerate(entered) if e["node"] not in done]
    for label in ("finalize", "contingency_final"):
        n_enter = sum(1 for e in ev if e["t"] == "wrap_enter" and e["label"] == label)
        n_start = sum(1 for e in ev if e["t"] == "cleanup_start" and e["label"] == label)
        if n_start < n_enter:
            missing.append(f"{label} cleanup ({n_start} of {n_enter} started)")
    return missing, len(entered) + sum(1 for e in ev if e["t"] == "wrap_enter")


def oracle_c10(case, obs, res):
    from bluesky.utils import RunEngineInterrupted

    F = lambda **kw: _feat(case, obs, **kw)  # noqa: E731
    if obs.stuck:
        res.classes.append("stuck(C07)")
        return res
    ms = model_states(obs)
    reqs = [i for i in obs.injected if i["inj"]["do"] in ("pause", "suspend") and i["seg"] == 0]
    judged = []
    for i in reqs:
        a, b = effect_window(obs, i)
        window = ms[a : b + 1] or [ms[-1]]
        if b >= obs.calls[0].get("hook_end", len(obs.hook)) and obs.plog.returned:
            res.classes.append("request_after_plan_end")
            continue
        if not any(window):
            judged.append(i)
        elif all(window):
            res.classes.append("request_in_resumable_section(C08)")
        else:
            res.classes.append("request_at_resumability_boundary")
    if not judged:
        return res
    # only the first request matters: it must abort the plan
    i = judged[0]
    if any(r is not i and r["total"] < i["total"] for r in reqs):
        res.classes.append("earlier_request")
        return res
    c = obs.calls[0]
    if i["state"] != "running":
        res.classes.append("request_in_state_" + i["state"])
        return res
    paused_after = [s for s, m in zip(obs.states, obs.state_meta) if s[0] == "paused" and m["total"] >= i["total"]]
    if paused_after:
        res.fail("paused_in_nonresumable_section", f"engine entered 'paused' after a {i['inj']['do']} in a non-resumable section", **F())
    from bluesky.utils import IllegalMessageSequence

    # a swallowed IllegalMessageSequence (rejected message) is not the interruption: the plan simply went on
    handled = [
        e for e in obs.plog.events if e["t"] == "except" and e.get("action") != "reraise" and not isinstance(e.get("exc"), IllegalMessageSequence)
    ]
    if handled:
        # the plan itself swallowed or transformed the FailedPause: what happens next is the plan's doing
        res.classes.append("plan_handled_failed_pause")
        return res
    if not (c.get("outcome") == "raise" and isinstance(c.get("exc"), RunEngineInterrupted)):
        res.fail(
            "interruption_not_reported",
            f"RE(...) outcome {c.get('outcome')} {type(c.get('exc')).__name__ if c.get('exc') is not None else ''} "
            "instead of RunEngineInterrupted",
            **F(),
        )
    if c.get("state_after") not in ("idle",) and not paused_after:
        res.fail("not_idle_after_failed_pause", f"state {c.get('state_after')} after the call", **F())
    missing, n_oblig = cleanup_obligations(obs)
    if missing:
        res.fail("cleanup_skipped", f"cleanup code did not run: {missing}", **F())
    runs, _ = check_docs(obs.docs, idle=False, validate=False)
    # runs open when the request took effect
    order = i["hook_index"]
    for r in runs.values():
        if r.stop is None:
            res.fail("run_left_open", f"run {r.uid} has no stop", **F())
    open_then = i["open_runs"]
    res.nontrivial = n_oblig >= 1 and open_then >= 1
    return res


# ------------------------------------------------------------------------------------------ C09


def oracle_c09(case, obs, res):
    F = lambda **kw: _feat(case, obs, **kw)  # noqa: E731
    if obs.stuck:
        res.classes.append("stuck(C07)")
        return res
    # deferred requests: accepted foreign 'defer' calls and in-plan pause(defer=True) messages
    acc = [r for r in obs.foreign if r["label"] == "defer" and r.get("state") == "returned" and r.get("seg") == 0]
    others = [i for i in obs.injected if i["inj"]["do"] not in ("defer", "suspend")]
    if any(i["inj"]["do"] == "suspend" for i in obs.injected):
        res.classes.append("deferred_pause_with_suspension")
    if not acc or others:
        res.classes.append("no_single_deferred_request")
        return res
    if any(h["msg"].command == "pause" and id(h["msg"]) in obs.plog.msg_ids for h in obs.hook):
        res.classes.append("in_plan_pause_present")
        return res
    c = obs.calls[0]
    end = c.get("hook_end", len(obs.hook))
    if any(i["inj"]["do"] == "suspend" for i in obs.injected):
        # a suspension may cancel the checkpoint's grace sleep in flight and rewind; only require that the
        # deferred request is not lost: the engine pauses at some checkpoint, or the request stays pending
        flagged = [hi for hi in range(len(obs.hook)) if obs.hook[hi]["deferred"]]
        paused_any = any(s_[0] == "paused" for s_ in obs.states)
        term = any(s_[0] in ("aborting", "stopping", "halting") for s_ in obs.states)
        last = [x for x in obs.calls if x.get("outcome") in ("return", "raise") and x["do"] in ("call", "resume")]
        if flagged and not paused_any and not term and last and last[-1]["outcome"] == "return" and not last[-1].get("deferred_after"):
            res.fail("deferred_pause_lost", "a deferred pause was pending, a suspension came in between; the plan then ran to completion without pausing and the request is no longer pending", **F())
        res.nontrivial = bool(flagged)
        return res
    # first hook (in stage 0) that saw the flag set
    seen = [hi for hi in range(0, end) if obs.hook[hi]["deferred"]]
    # first checkpoint whose hook saw the flag set
    cps = [hi for hi in seen if obs.hook[hi]["msg"].command == "checkpoint"]
    paused = [(s, m) for s, m in zip(obs.states, obs.state_meta) if s[0] == "paused" and m["seg"] == 0]
    terminated = any(s[0] in ("aborting", "stopping", "halting") for s in obs.states)
    if terminated:
        res.classes.append("terminated")
        return res
    if cps:
        cp = cps[0]
        if not paused:
            res.fail("no_pause_at_checkpoint", f"deferred pause pending at checkpoint hook#{cp} but the engine never paused", **F())
            return res
        ph = paused[0][0][2]  # hook index at which 'paused' was entered
        if ph != cp + 1:
            res.fail(
                "pause_not_at_next_checkpoint",
                f"deferred pause seen pending at checkpoint hook#{cp}; engine paused when {ph} messages had been hooked "
                f"(executed after the checkpoint: {[h['msg'].command for h in obs.hook[cp + 1 : ph]]})",
                **F(),
            )
        # resume replays nothing
        nxt = obs.calls[1] if len(obs.calls) > 1 else None
        if nxt is not None and nxt["do"] == "resume" and nxt.get("outcome") in ("return", "raise"):
            seen_ids = {id(h["msg"]) for h in obs.hook[:ph]}
            rs, re_ = nxt.get("hook_start", ph), nxt.get("hook_end", len(obs.hook))
            replayed = [h["msg"].command for h in obs.hook[rs:re_] if id(h["msg"]) in seen_ids]
            if replayed:
                res.fail("replay_after_deferred_pause", f"resume after a deferred pause replayed {replayed}", **F())
        res.nontrivial = (cp - seen[0]) >= 1 if seen else False
        res.classes.append("paused_at_checkpoint")
    else:
        # no checkpoint followed the request (as far as the hooks saw the flag)
        if seen and paused:
            res.fail("pause_without_checkpoint", "engine paused although no checkpoint followed the deferred request", **F())
        if c.get("outcome") == "return":
            res.classes.append("no_checkpoint_followed")
            if seen and not c.get("deferred_after"):
                res.fail("pending_flag_lost", "deferred_pause_requested is False after the plan completed without a checkpoint", **F())
            if not seen and not c.get("deferred_after"):
                # accepted (acc is non-empty) while no message was left to see it: the request arrived during the
                # engine's end-of-plan work; it was accepted, so it must be reported as pending until the next plan starts
                res.fail(
                    "pending_flag_lost",
                    "a deferred pause request was accepted after the plan's last message, but deferred_pause_requested is False after the call",
                    **F(late_request=True),
                )
            if obs.probe is not None and obs.probe.get("outcome") == "return":
                ps = obs.probe.get("hook_start")
                if ps is not None and ps < len(obs.hook) and obs.hook[ps]["deferred"]:
                    res.fail("pending_flag_survives_next_plan", "deferred_pause_requested still True once the next plan started", **F())
            res.nontrivial = bool(seen)
    return res


# ------------------------------------------------------------------------------------------ C02


def _causes(case, obs):
    """Independent list of things that can end the plan: (kind, hook_index_of_effect, payload)."""
    from bluesky.utils import RunEngineControlException

    causes = []
    stages = case.get("stages", [])
    # a request from another thread takes effect when its coroutine changes the state; if the plan had
    # already run to completion by then, the plan ended normally and the request is not what ended it
    late = {
        {"aborting": "abort", "stopping": "stop", "halting": "halt"}[s[0]]
        for s, m in zip(obs.states, obs.state_meta)
        if s[0] in ("aborting", "stopping", "halting") and s[1] == "running" and m.get("plan_done") and obs.plog.returned
    }
    for r in obs.foreign:
        if r["label"] in TERMINATORS and r.get("state") == "returned":
            if r["label"] in late:
                causes.append(("ambiguous", None, r))
                continue
            causes.append((r["label"], None, r))
    for ci, c in enumerate(obs.calls):
        if c["do"] in TERMINATORS and c.get("outcome") in ("return", "raise") and not c.get("auto"):
            causes.append((c["do"], c.get("hook_start"), c))
        if c.get("auto"):
            causes.append(("abort", c.get("hook_start"), c))
    from bluesky.utils import FailedPause

    ms = model_states(obs)
    cleared = [hi for hi, h in enumerate(obs.hook) if h["msg"].command == "clear_checkpoint"]
    for i in obs.injected:
        if i["inj"]["do"] in ("pause", "suspend", "defer"):
            a, b = effect_window(obs, i)
            seg_end = obs.calls[i["seg"]].get("hook_end", len(obs.hook)) if i["seg"] < len(obs.calls) else len(obs.hook)
            if a >= seg_end and obs.plog.returned:
                continue  # arrived after the plan had finished
            took_effect = any(
                s_[0] in ("pausing", "suspending") and m_["total"] >= i["total"] for s_, m_ in zip(obs.states, obs.state_meta)
            )
            if i["inj"]["do"] in ("pause", "suspend") and not took_effect and obs.plog.returned:
                # the request was queued while the last message was executing and its coroutine only ran once the
                # plan had returned: the engine ignores it (nothing left to pause).  Whether ignoring a request
                # in the middle of a plan is right is C08's / C10's question, not this property's.
                continue
            if cleared and cleared[0] < b + 1 and i["inj"]["do"] == "defer":
                causes.append(("ambiguous", a, i))  # deferred pause after clear_checkpoint: F3 territory (C08)
                continue
            if i["inj"]["do"] == "defer":
                continue
            window = ms[a : b + 1] or [ms[-1]]
            if not any(window):
                causes.append(("failed_pause", a, i))
            elif not all(window) or (cleared and cleared[0] < b + 1):
                causes.append(("ambiguous", a, i))
    for hi, h in enumerate(obs.hook):
        if h["msg"].command == "pause" and not ms[hi]:
            if h["msg"].kwargs.get("defer"):
                # a deferred in-plan pause in a non-resumable section only matters if a checkpoint follows (F3, C08)
                if any(h2["msg"].command == "checkpoint" for h2 in obs.hook[hi + 1 :]):
                    causes.append(("ambiguous", hi, None))
                continue
            causes.append(("failed_pause", hi, None))
    for y in obs.plog.yields:
        if isinstance(y.get("thrown"), FailedPause):
            causes.append(("failed_pause", None, y))
    exc = obs.plog.raised
    if exc is not None and not isinstance(exc, (RunEngineControlException, GeneratorExit, FailedPause)):
        causes.append(("error", None, exc))
    # the plan itself swallowed or transformed a control exception: what follows is the plan's doing
    for e in obs.plog.events:
        if e["t"] == "except" and e.get("action") != "reraise" and isinstance(e.get("exc"), (RunEngineControlException, FailedPause)):
            causes.append(("ambiguous", None, e))
    # a device hook that no plan message stands for (the removal / re-installation of monitor callbacks around a
    # pause, a Pausable device's pause()/resume()) failed inside the engine: the exception is never offered to the
    # plan, so it is not "a plan or device error [that] goes unhandled" by the plan in the sense of this oracle
    for x in obs.world.raised:
        op = str(x).split(".", 1)[-1].split("#", 1)[0]
        if op in ("clear_sub", "subscribe", "pause", "resume") and x is not exc and x is not getattr(exc, "__cause__", None):
            if not any(y.get("thrown") is x for y in obs.plog.yields):
                causes.append(("ambiguous", None, x))
    return causes


def oracle_c02(case, obs, res):
    from bluesky.utils import FailedStatus, RunEngineInterrupted

    from .devices import DeviceError

    reqs = [i for i in obs.injected if i["inj"]["do"] in ("pause", "suspend", "defer")]
    after_end = bool(reqs) and all(
        effect_window(obs, i)[1] >= (obs.calls[i["seg"]].get("hook_end", len(obs.hook)) if i["seg"] < len(obs.calls) else 0)
        for i in reqs
    )
    F = lambda **kw: _feat(case, obs, request_after_last_message=after_end, **kw, **interruption_features(obs))  # noqa: E731
    if obs.stuck or obs.final_state != "idle":
        res.classes.append("not_idle(C07)")
        return res
    causes = _causes(case, obs)
    kinds = sorted({c[0] for c in causes})
    if len(kinds) > 1 or "ambiguous" in kinds:
        res.classes.append("multi_cause:" + "+".join(kinds))
        return res
    cause = kinds[0] if kinds else "none"
    res.classes.append("cause:" + cause)
    expected = {"none": "success", "stop": "success", "abort": "abort", "halt": "abort", "failed_pause": "abort", "error": "fail"}[cause]
    exc = obs.plog.raised if cause == "error" else None
    runs, _ = check_docs(obs.docs, idle=False, validate=False)
    # classify each stop: emitted by the engine itself, or while a plan-issued close_run executed
    judged = 0
    for item in obs.docs:
        name, doc, hi = doc_name(item[0]), item[1], item[2]
        if name != "stop":
            continue
        last = obs.hook[hi - 1]["msg"] if 0 < hi <= len(obs.hook) else None
        by_plan = last is not None and last.command == "close_run" and id(last) in obs.plog.msg_ids
        # is the engine's own cleanup the emitter?  (stop emitted after the last hooked message of its stage
        # and the last message is not a close_run of the plan)
        if by_plan:
            kw = last.kwargs
            if kw.get("reason") == "plan-said-so":
                continue  # the plan chose the status itself
            if kw.get("exit_status") == "fail" and not (cause == "error" and kw.get("reason") == str(exc)):
                seen = {str(y["thrown"]) for y in obs.plog.yields if y.get("thrown") is not None}
                seen |= {str(e["exc"]) for e in obs.plog.events if e.get("exc") is not None}
                if kw.get("reason") in seen:
                    # an exception passed through run_wrapper, which closed its run as failed with that exception's
                    # text; what happened to the exception afterwards (swallowed or transformed by an enclosing
                    # handler, or overtaken by an abort/stop during the plan's clean-up) does not change that
                    continue
            if kw.get("exit_status") is None:
                # plain close_run by the plan (documented default 'success'); only meaningful without a cause
                if cause != "none":
                    continue
            status_only = True
        else:
            status_only = False
        judged += 1
        if doc.get("exit_status") != expected:
            res.fail(
                "wrong_exit_status",
                f"cause {cause}: RunStop exit_status={doc.get('exit_status')!r} (reason {doc.get('reason')!r}), expected {expected!r}; "
                f"closed by {'plan/wrapper close_run' if by_plan else 'engine'}",
                **F(cause=cause, closed_by_plan=by_plan),
            )
        if cause == "error" and doc.get("exit_status") == "fail" and doc.get("reason") != str(exc):
            res.fail(
                "wrong_reason",
                f"RunStop reason {doc.get('reason')!r} != str(exception) {str(exc)!r}",
                **F(cause=cause, closed_by_plan=by_plan),
            )
    # the call's outcome
    main = [c for c in obs.calls if c["do"] in ("call", "resume") and c.get("outcome") in ("return", "raise")]
    last_call = main[-1] if main else None
    if last_call is not None:
        e = last_call.get("exc")
        if cause in ("stop", "abort", "halt", "failed_pause"):
            # the blocking call that was running when the plan ended must raise RunEngineInterrupted
            term_from_pause = any(c["do"] in TERMINATORS for c in obs.calls)
            if not term_from_pause and not (last_call["outcome"] == "raise" and isinstance(e, RunEngineInterrupted)):
                res.fail(
                    "interruption_not_raised",
                    f"cause {cause}: {last_call['do']}() -> {last_call['outcome']} {type(e).__name__ if e is not None else ''}",
                    **F(cause=cause),
                )
        elif cause == "error":
            if last_call["outcome"] != "raise" or e is not exc:
                res.fail(
                    "exception_not_reraised",
                    f"plan ended with {type(exc).__name__}: {exc}; {last_call['do']}() -> {last_call['outcome']} "
                    f"{type(e).__name__ if e is not None else ''}: {e}",
                    **F(cause=cause),
                )
            if isinstance(exc, FailedStatus):
                if not isinstance(exc.__cause__, DeviceError) or exc.__cause__ not in obs.world.raised:
                    res.fail("failed_status_not_chained", f"FailedStatus.__cause__ is {exc.__cause__!r}", **F(cause=cause))
        elif cause == "none":
            if last_call["outcome"] != "return":
                res.fail("unexpected_raise", f"no cause but {last_call['do']}() raised {type(e).__name__}: {e}", **F(cause=cause))
            elif case.get("re", {}).get("call_returns_result"):
                v = last_call.get("value")
                if getattr(v, "exit_status", None) != "success" or getattr(v, "interrupted", None) is not False:
                    res.fail("result_object_disagrees", f"RunEngineResult {v}", **F(cause=cause))
    res.nontrivial = judged >= 1 and cause != "none"
    # "a failed status surfaces as FailedStatus": a single status that failed before the plan's wait on its group
    # ended must have been thrown into the plan -- otherwise the failure silently vanished (and with it the 'fail'
    # status and the re-raised exception this property is about)
    ys = obs.plog.yields
    failed = [info for (_, _dev, op, info) in obs.world.ledger if op == "status_done" and info[2] is False]
    failed_at = [L for (L, _dev, op, info) in obs.world.ledger if op == "status_done" and info[2] is False]
    if len(failed) == 1 and cause in ("none",):
        st = obs.world.results.get(failed[0][1])
        sexc = getattr(st, "_exc", None)
        delivered = any(
            y.get("thrown") is not None
            and (y["thrown"] is sexc or getattr(y["thrown"], "__cause__", None) is sexc or (getattr(y["thrown"], "args", None) and y["thrown"].args[0] is st))
            for y in ys
        )
        src = next((y for y in ys if y.get("resp") is st), None)
        if not delivered and src is not None and src["msg"].kwargs.get("group") is not None:
            g = src["msg"].kwargs["group"]
            w = next(
                (y for y in ys[src["i"] + 1 :] if y["msg"].command == "wait" and (y["msg"].kwargs.get("group") == g or (y["msg"].args and y["msg"].args[0] == g))),
                None,
            )
            if w is not None and "resp" in w and not w["msg"].kwargs.get("watch") and w.get("ledger_after") is not None and w["ledger_after"] > failed_at[0]:
                res.nontrivial = True
                res.fail(
                    "failed_status_vanished",
                    f"{st!r} (created by yield {src['i']} {src['msg'].command}, group {g!r}) failed before the plan's wait on that group "
                    f"(yield {w['i']}) ended, yet the wait returned {w['resp']!r} and no FailedStatus was ever thrown into the plan",
                    **F(cause=cause),
                )
    return res


# ------------------------------------------------------------------------------------------ C06


def oracle_c06(case, obs, res):
    F = lambda **kw: _feat(case, obs, **kw, **interruption_features(obs))  # noqa: E731
    if obs.stuck or obs.final_state != "idle":
        res.classes.append("not_idle(C07)")
        return res
    world = obs.world
    # ledger up to the moment the engine went idle after the last stage (before the probe)
    end = None
    if obs.probe is not None:
        # first ledger index of the probe = ledger length at its first hook
        ps = obs.probe.get("hook_start")
        if ps is not None and ps < len(obs.hook):
            end = obs.hook[ps]["ledger"]
    led = world.ledger[:end]
    per = {}
    for seq, dev, op, info in led:
        per.setdefault(dev, []).append((seq, op, info))
    outstanding = 0
    for dev, ops in per.items():
        n_stage = sum(1 for _, op, _ in ops if op == "stage")
        # an unstage call that raised (injected fault) is still an unstage attempt: the engine cannot do more
        n_unstage = sum(1 for _, op, _ in ops if op in ("unstage", "unstage!raise"))
        if n_stage >= 1:
            outstanding += 1
            n_ok = sum(1 for _, op, _ in ops if op == "unstage")
            if n_unstage < n_stage:
                res.fail("left_staged", f"{dev}: staged {n_stage}x but unstaged {n_unstage}x when the engine went idle", **F(device=dev))
            elif n_ok < n_stage:
                # an injected fault made an unstage fail: the device may stay staged only if the engine's own
                # clean-up (an unstage not issued by a plan message) tried after the last plan-issued attempt
                windows = []
                for hi, h in enumerate(obs.hook):
                    if h["msg"].command == "unstage" and getattr(h["msg"].obj, "name", None) == dev:
                        lo = h["ledger"]
                        up = obs.hook[hi + 1]["ledger"] if hi + 1 < len(obs.hook) else len(world.ledger)
                        windows.append((lo, up))
                attempts = [seq for seq, op, _ in ops if op in ("unstage", "unstage!raise")]
                engine_attempts = [q for q in attempts if not any(lo <= q < up for lo, up in windows)]
                plan_attempts = [q for q in attempts if any(lo <= q < up for lo, up in windows)]
                if not engine_attempts or (plan_attempts and max(engine_attempts) < max(plan_attempts)):
                    res.fail(
                        "left_staged_without_engine_attempt",
                        f"{dev}: staged {n_stage}x, successfully unstaged {n_ok}x; the failing unstage was issued by the plan and the engine's clean-up never tried again",
                        **F(device=dev),
                    )
            elif n_unstage > n_stage:
                res.classes.append("over_unstaged")
        # a set() that raised may still have started a move: it counts as "was set"
        sets = [seq for seq, op, _ in ops if op in ("set", "set!raise")]
        if sets:
            outstanding += 1
            stops = [seq for seq, op, _ in ops if op == "stop"]
            if not stops or max(stops) < max(sets):
                res.fail("not_stopped_after_set", f"{dev}: last set at ledger#{max(sets)} but last stop at {max(stops) if stops else None}", **F(device=dev))
        kicks = [seq for seq, op, _ in ops if op == "kickoff"]
        if kicks:
            outstanding += 1
            cols = [seq for seq, op, _ in ops if op in ("collect", "collect!raise")]
            # a 'collect' message for this flyer executed after the kickoff also counts as an attempt
            # (it may have been cancelled in flight before reaching the device)
            kick_hooks = [hi for hi, h in enumerate(obs.hook) if h["msg"].command == "kickoff" and getattr(h["msg"].obj, "name", None) == dev]
            col_hooks = [hi for hi, h in enumerate(obs.hook) if h["msg"].command == "collect" and getattr(h["msg"].obj, "name", None) == dev]
            attempted_msg = bool(kick_hooks) and any(c > max(kick_hooks) for c in col_hooks)
            if (not cols or max(cols) < max(kicks)) and not attempted_msg:
                # was the flyer's run closed by a plan-issued close_run while it was still uncollected?
                k = max(kick_hooks) if kick_hooks else None
                key = obs.hook[k]["msg"].run if k is not None else None
                closed_by_plan = k is not None and any(
                    h["msg"].command == "close_run" and h["msg"].run == key for h in obs.hook[k + 1 :]
                )
                res.fail(
                    "flyer_not_collected",
                    f"{dev}: kicked off at ledger#{max(kicks)} and never collected afterwards",
                    **F(device=dev, run_closed_by_plan_message=closed_by_plan),
                )
    from .devices import Sig

    for name, d in world.devices.items():
        if isinstance(d, Sig):
            if any(op == "subscribe" for _, op, _ in per.get(name, [])):
                outstanding += 1
            # state of the subscription list when the engine went idle: replay the ledger
            subs = []
            for _, op, info in per.get(name, []):
                if op == "subscribe":
                    subs.append(info)
                elif op == "clear_sub":
                    subs = [x for x in subs if x != info]
            if subs:
                res.fail("monitor_subscription_left", f"{name}: {len(subs)} engine callback(s) still subscribed at idle", **F(device=name))
    p = obs.probe
    if p is not None and case.get("probe") == "run" and p.get("outcome") == "return":
        if p.get("cb_docs_after", 0) != p.get("cb_docs_before", 0):
            res.fail(
                "temporary_subscription_survived",
                f"a per-call / in-plan subscription of the previous call received {p['cb_docs_after'] - p['cb_docs_before']} documents of the next call",
                **F(),
            )
    ended_abnormally = any(
        c.get("outcome") == "raise" for c in obs.calls if c["do"] in ("call", "resume")
    ) or any(c["do"] in TERMINATORS for c in obs.calls)
    res.nontrivial = ended_abnormally and outstanding >= 1
    return res


# ------------------------------------------------------------------------------------------ C13

_NONE_RESPONSE = {"null", "checkpoint", "clear_checkpoint", "create", "save", "drop", "sleep", "monitor", "unmonitor", "unsubscribe", "pause"}


def oracle_c13(case, obs, res):
    from .devices import St

    if obs.stuck:
        res.classes.append("stuck(C07)")
        return res
    feats = interruption_features(obs)
    F = lambda **kw: _feat(case, obs, **kw, **feats)  # noqa: E731
    # hook indices per message object
    hooks_of = {}
    for hi, h in enumerate(obs.hook):
        hooks_of.setdefault(id(h["msg"]), []).append(hi)
    # interruption points (hook index at which a pause/suspension took effect)
    _, info = replay_model(obs)
    int_points = {it["hook_index"] for it in info["interruptions"]}
    term_points = [hi for (new, old, hi) in obs.states if new in ("aborting", "stopping", "halting")]
    world = obs.world
    led = world.ledger
    docs_at = {}
    for name, doc, hi in obs.docs:
        docs_at.setdefault(hi, []).append((doc_name(name), doc))
    # the plan's own code sits inside its preprocessors: what it receives at a yield must be what came back for that
    # very message at the outside of the plan, and a message deleted by a preprocessor is resumed with None
    tap_of = {id(y["msg"]): y for y in obs.plog.yields}
    for rec in getattr(obs.plog, "inner", []):
        if "resp" not in rec:
            continue
        m = rec["msg"]
        if rec.get("deleted"):
            if "inner:deleted" not in res.classes:
                res.classes.append("inner:deleted")
            res.nontrivial = True
            if id(m) in hooks_of:
                res.fail("deleted_message_executed", f"{m.command} was to be removed by a preprocessor but reached the engine", **F(cmd=m.command))
            elif rec["resp"] is not None:
                res.fail(
                    "deleted_message_got_foreign_response",
                    f"{m.command}{m.args!r} is removed by a preprocessor, so nothing answers it, but its yield received {rec['resp']!r}",
                    **F(cmd=m.command),
                )
        elif id(m) in tap_of and "resp" in tap_of[id(m)]:
            if "inner:passed_through" not in res.classes:
                res.classes.append("inner:passed_through")
            if rec["resp"] is not tap_of[id(m)]["resp"]:
                res.fail(
                    "inner_response_differs",
                    f"{m.command}: the plan's yield received {rec['resp']!r} but {tap_of[id(m)]['resp']!r} came back for that message",
                    **F(cmd=m.command),
                )
    rewound_between = False
    for y in obs.plog.yields:
        if "resp" not in y:
            continue
        m, resp = y["msg"], y["resp"]
        cmd = m.command
        his = hooks_of.get(id(m), [])
        if not his:
            continue
        # was this message in flight when an interruption took effect (its hook is the last one before it)?
        in_flight = any((hi + 1) in int_points for hi in his)
        if len(his) > 1 or in_flight:
            rewound_between = True
        feat = dict(in_flight_at_interruption=in_flight, command=cmd)

        def executions():
            for hi in his:
                lo = obs.hook[hi]["ledger"]
                up = obs.hook[hi + 1]["ledger"] if hi + 1 < len(obs.hook) else len(led)
                yield hi, led[lo:up]

        def bad(kind, detail):
            res.fail(kind, f"yield tap#{y['i']} {cmd}({getattr(m.obj, 'name', None)}): {detail}", **F(**feat))

        if cmd in _NONE_RESPONSE:
            if resp is not None:
                bad("wrong_response", f"received {resp!r}, expected None")
        elif cmd == "read":
            rids = [info_ for _, seg in executions() for (_, dev, op, info_) in seg if op == "read" and dev == m.obj.name]
            if not any(world.results.get(r) is resp for r in rids):
                bad("wrong_response", f"received {str(resp)[:120]}, which is not a reading returned by an execution of this message")
        elif cmd in ("set", "trigger", "kickoff", "complete"):
            sids = []
            for _, seg in executions():
                for _, dev, op, info_ in seg:
                    if op == cmd and dev == m.obj.name:
                        sids.append(info_[1] if isinstance(info_, tuple) else info_)
            if not (isinstance(resp, St) and resp.sid in sids):
                bad("wrong_response", f"received {resp!r}, expected the status object of this message's own {cmd} call (ids {sids})")
        elif cmd == "wait":
            if resp is not True:
                bad("wrong_response", f"received {resp!r}, expected True (done)")
        elif cmd == "open_run":
            uids = [d["uid"] for hi in his for (n, d) in docs_at.get(hi + 1, []) if n == "start"]
            if resp not in uids:
                bad("wrong_response", f"received {resp!r}, expected the uid of the start document it emitted {uids}")
        elif cmd == "close_run":
            uids = [d["run_start"] for hi in his for (n, d) in docs_at.get(hi + 1, []) if n == "stop"]
            if resp not in uids:
                bad("wrong_response", f"received {resp!r}, expected the run_start uid of the stop document it emitted {uids}")
        elif cmd == "rewindable":
            if not isinstance(resp, bool):
                bad("wrong_response", f"received {resp!r}, expected the rewindable flag")
        elif cmd == "subscribe":
            if not isinstance(resp, int):
                bad("wrong_response", f"received {resp!r}, expected a subscription token")
        elif cmd == "configure":
            if not (isinstance(resp, tuple) and len(resp) == 2):
                bad("wrong_response", f"received {str(resp)[:100]}, expected (old, new) configuration")
        elif cmd in ("stage", "unstage"):
            sids = [info_ for _, seg in executions() for (_, dev, op, info_) in seg if op == "status_new" and dev == m.obj.name]
            ok = resp == [m.obj] or (isinstance(resp, St) and resp.dev == m.obj.name and resp.op == cmd)
            if not ok:
                bad("wrong_response", f"received {resp!r}, expected the device's own {cmd} result")
    # return value of the public call
    runs, _ = check_docs(obs.docs[: (obs.probe or {}).get("docs_before")], idle=False, validate=False)
    uids = tuple(runs.keys())
    main = [c for c in obs.calls if c.get("outcome") == "return" and c["do"] in ("call", "resume", "abort", "stop", "halt")]
    for c in main:
        v = c.get("value")
        got = tuple(getattr(v, "run_start_uids", v) or ())
        n = len(got)
        if got != uids[:n] or (c is main[-1] and got != uids):
            res.fail("wrong_uid_tuple", f"{c['do']}() returned {got}, runs opened in order: {uids}", **F(command="RE"))
        if hasattr(v, "plan_result") and c["do"] in ("call", "resume") and obs.plog.returned:
            if v.plan_result != obs.plog.return_value:
                res.fail("wrong_plan_result", f"plan returned {obs.plog.return_value!r}, RunEngineResult.plan_result={v.plan_result!r}", **F(command="RE"))
    res.nontrivial = rewound_between
    return res


# ------------------------------------------------------------------------------------------ C14


def oracle_c14(case, obs, res):
    from bluesky.utils import IllegalMessageSequence

    from .oracles import numbering_problems

    if obs.stuck:
        res.classes.append("stuck(C07)")
        return res
    feats = interruption_features(obs)
    F = lambda **kw: _feat(case, obs, **kw, **feats)  # noqa: E731
    idle = obs.final_state == "idle"
    runs, problems = check_docs(obs.docs[: (obs.probe or {}).get("docs_before")], idle=idle)
    for kind, detail in problems:
        res.fail(kind, detail, **F())
    # which run does each key denote over time?  open_run(K) at hook h emits a start at docs index with hook h+1
    start_at = {}
    for name, doc, hi in obs.docs:
        if doc_name(name) == "start":
            start_at.setdefault(hi, []).append(doc["uid"])
    current = {}  # key -> run uid
    dup_expected = []
    desc_run = {d_uid: r.uid for r in runs.values() for d_uid in r.descriptors}
    desc_name = {d_uid: d["name"] for r in runs.values() for d_uid, d in r.descriptors.items()}
    bnames = {n for (_, n) in bundled_streams(obs)}
    docs_by_hook = {}
    for name, doc, hi in obs.docs:
        docs_by_hook.setdefault(hi, []).append((doc_name(name), doc))
    thrown_at = {}
    resumed = set()
    for y in obs.plog.yields:
        if "thrown" in y:
            thrown_at[id(y["msg"])] = y["thrown"]
        if "thrown" in y or "resp" in y:
            resumed.add(id(y["msg"]))
    simultaneous = 0
    max_open = 0
    events_in = set()
    open_now = set()
    for hi, h in enumerate(obs.hook):
        m = h["msg"]
        if id(m) not in obs.plog.msg_ids:
            continue
        key = m.run
        emitted = docs_by_hook.get(hi + 1, [])
        if m.command == "open_run":
            new = [d["uid"] for n, d in emitted if n == "start"]
            if key in current:
                tag = m.kwargs.get("tag")
                if tag is not None and tag != "dup":
                    # every generated open_run carries the key the plan author wrote as its tag ("dup" marks the
                    # deliberate duplicates): two differently tagged runs must never arrive under one key
                    res.fail(
                        "distinct_runs_share_a_key",
                        f"open_run tagged {tag!r} reached the engine with run key {key!r}, which already denotes an open run",
                        **F(),
                    )
                # duplicate open on an open key: must be rejected at that yield, nothing emitted
                if new:
                    res.fail("duplicate_open_emitted_start", f"open_run for already-open key {key!r} emitted a start", **F())
                exc = thrown_at.get(id(m))
                from bluesky.utils import FailedPause, RunEngineControlException

                if isinstance(exc, (RunEngineControlException, FailedPause)) or id(m) not in resumed:
                    res.classes.append("duplicate_open_preempted_by_request")
                elif not isinstance(exc, IllegalMessageSequence):
                    res.fail("duplicate_open_not_rejected", f"open_run for already-open key {key!r}: plan received {exc!r}", **F())
                res.classes.append("duplicate_open")
                dup_expected.append(key)
            elif new:
                current[key] = new[0]
                open_now.add(key)
        elif m.command == "close_run":
            for n, d in [x for x in emitted if x[0] == "stop"][:1]:
                if n == "stop" and key in current and d["run_start"] != current[key]:
                    res.fail("close_applied_to_other_run", f"close_run(run={key!r}) stopped run {d['run_start']} but the key denotes {current[key]}", **F())
            if any(n == "stop" for n, d in emitted):
                current.pop(key, None)
                open_now.discard(key)
        elif m.command in ("save",):
            for n, d in emitted:
                if n in ("event", "descriptor", "event_page"):
                    sname = d.get("name") if n == "descriptor" else desc_name.get(d.get("descriptor"))
                    if sname not in bnames:
                        continue  # interruption / monitor documents emitted between two messages
                    run_uid = d.get("run_start") or desc_run.get(d.get("descriptor"))
                    if key in current and run_uid != current[key]:
                        res.fail(
                            "message_applied_to_other_run",
                            f"{m.command}(run={key!r}) produced a {n} of run {run_uid} but the key denotes {current[key]}",
                            **F(),
                        )
                    if n == "event":
                        events_in.add(run_uid)
        max_open = max(max_open, len(open_now))
    # per run numbering (only for runs that were never rewound while a non-bundled stream had events: C05 owns that)
    _, info = replay_model(obs)
    if not info["interruptions"]:
        # numbering across rewinds is C05's business; here: independence of the counters of concurrent runs
        for r in runs.values():
            for kind, detail in numbering_problems(r, only_streams=bnames):
                res.fail(kind, f"run {r.start.get('tag')}: {detail}", **F(numbering=True))
    res.nontrivial = max_open >= 2 and len(events_in) >= 2
    return res


# ------------------------------------------------------------------------------------------ C11


def oracle_c11(case, obs, res):
    if obs.stuck:
        res.classes.append("stuck(C07)")
        return res
    feats = interruption_features(obs)
    F = lambda **kw: _feat(case, obs, **kw, **feats)  # noqa: E731
    user = obs.plog.msg_ids
    starts = [hi for hi, h in enumerate(obs.hook) if h["msg"].command == "_start_suspender"]
    if not starts:
        res.classes.append("no_suspension_started")
        return res
    susp = obs.suspend_events
    terminated_at = [hi for (new, old, hi) in obs.states if new in ("aborting", "stopping", "halting")]
    pauses = [hi for (new, old, hi) in obs.states if new == "pausing"]
    nontrivial = False
    for si, s0 in enumerate(starts):
        m = obs.hook[s0]["msg"]
        fut = m.args[3]
        rec = next((r for r in susp if r["ev"].wait == fut or getattr(fut, "__self__", None) is r["ev"]), None)
        if rec is None:
            continue
        seg0 = obs.hook[s0]["seg"]
        rel = rec.get("released_at_hook")
        if rel is not None and rel <= s0:
            # released (virtual time passed while paused) before the helper plan even started
            res.classes.append("released_before_suspension_started")
            continue
        # hooks between _start_suspender and the release (or end of trace if never released)
        upto = rel if rel is not None else len(obs.hook)
        if any(s0 < t <= upto for t in terminated_at):
            res.classes.append("terminated_during_suspension")
            continue
        paused_during = any(s0 < p <= upto for p in pauses)
        other_start = any(s0 < o <= upto + 8 for o in starts)  # incl. one landing before the helper plan has finished
        held = obs.hook[s0 + 1 : upto]
        intruders = [(s0 + 1 + j, h["msg"].command) for j, h in enumerate(held) if id(h["msg"]) in user]
        if intruders:
            res.fail(
                "plan_ran_during_suspension",
                f"suspension started at hook#{s0}, released at hook#{rel}: plan messages executed in between: {intruders[:6]}",
                **F(paused_during_suspension=paused_during, overlapping_suspension=other_start),
            )
        # the call must not have returned during the suspension: every hook of the window in the same stage
        if any(h["seg"] != seg0 for h in held) and not paused_during:
            res.fail("control_returned_during_suspension", "a blocking call returned while the suspension was in effect", **F())
        # motors set so far are stopped between _start_suspender and the wait
        led = obs.world.ledger
        lo = obs.hook[s0]["ledger"]
        wf = next((j for j in range(s0 + 1, len(obs.hook)) if obs.hook[j]["msg"].command == "wait_for"), None)
        up = obs.hook[wf]["ledger"] if wf is not None else len(led)
        moved = {dev for (_, dev, op, _) in led[:lo] if op == "set"}
        stopped = {dev for (_, dev, op, _) in led[lo:up] if op == "stop"}
        if moved - stopped:
            res.fail("moved_device_not_stopped_at_suspension", f"devices set before the suspension but not stopped at it: {sorted(moved - stopped)}", **F())
        if moved:
            nontrivial = nontrivial or feats_cache_nonempty(obs, s0)
        if rel is None or paused_during or other_start:
            res.classes.append("suspension_complex" if rel is not None else "never_released")
            continue
        # the helper must put the rewindable flag back the way it was before the suspension
        pre_rew = True
        for h in obs.hook[:s0]:
            if h["msg"].command == "rewindable" and h["msg"].args and h["msg"].args[0] is not None:
                pre_rew = bool(h["msg"].args[0])
        k_res = next((j for j in range(upto, len(obs.hook)) if obs.hook[j]["msg"].command == "_resume_from_suspender"), None)
        if k_res is not None:
            restore = next(
                (obs.hook[j]["msg"] for j in range(k_res, min(len(obs.hook), k_res + 8))
                 if obs.hook[j]["msg"].command == "rewindable" and id(obs.hook[j]["msg"]) not in user),
                None,
            )
            if restore is not None and restore.args and bool(restore.args[0]) != pre_rew:
                res.fail(
                    "rewindable_not_restored",
                    f"plan was rewindable={pre_rew} before the suspension; the helper plan set rewindable={restore.args[0]!r} afterwards",
                    **F(),
                )
        # after the release: _resume_from_suspender, post plan, rewindable, then the replay (checked by C04's model)
        after = [h["msg"].command for h in obs.hook[upto : upto + 12] if id(h["msg"]) not in user]
        if "_resume_from_suspender" not in after:
            if not any(t >= upto for t in terminated_at):
                res.fail("no_resume_after_release", f"messages after release: {after}", **F())
        inj = rec["inj"]
        if inj.get("pre") is not None:
            pre_seen = any(h["msg"].command == "null" and h["msg"].args == ("pre",) for h in held)
            if not pre_seen:
                res.fail("pre_plan_not_run", "the suspender's pre-plan did not run before the wait", **F())
        if inj.get("post") is not None and not any(t >= upto for t in terminated_at):
            k = next((j for j in range(upto, len(obs.hook)) if obs.hook[j]["msg"].command == "_resume_from_suspender"), None)
            post_ok = k is not None and any(
                h["msg"].command == "null" and h["msg"].args == ("post",) for h in obs.hook[k : k + 4]
            )
            if not post_ok:
                res.fail("post_plan_not_run", "the suspender's post-plan did not run right after the release", **F())
        # interruption record carries the justification
        if (case.get("re") or {}).get("record_interruptions") and inj.get("just"):
            texts = [d["data"].get("interruption") for n, d, _ in obs.docs if doc_name(n) == "event" and "interruption" in d.get("data", {})]
            n_start = sum(1 for n, d, hi in obs.docs if doc_name(n) == "start" and hi <= s0)
            n_stop = sum(1 for n, d, hi in obs.docs if doc_name(n) == "stop" and hi <= s0)
            open_runs = n_start - n_stop
            if open_runs > 0 and inj["just"] not in texts:
                res.fail("justification_not_recorded", f"interruption events {texts} lack the justification {inj['just']!r}", **F())
    problems, info = replay_model(obs)
    for kind, detail in problems:
        res.fail(kind, detail, **F())
    res.nontrivial = nontrivial
    return res


def feats_cache_nonempty(obs, hook_index):
    _, info = replay_model(obs)
    return any(it["hook_index"] == hook_index and it["cache_len"] > 0 for it in info["interruptions"])
