"""Oracles of the RunEngine properties, as pure functions of (case, obs)."""

from __future__ import annotations

from . import e1common
from .oracles import NON_REPLAYABLE, check_docs, replay_model

TERMINATORS = ("abort", "stop", "halt")


def _feat(case, obs, **kw):
    f = e1common.features(case, obs)
    f.update(kw)
    return f


def model_states(obs):
    """Per hook index i: model resumability *before* message i executes (len = len(hook)+1)."""
    res = [True]
    resumable = True
    for h in obs.hook:
        cmd = h["msg"].command
        if cmd == "checkpoint":
            resumable = True
        elif cmd == "clear_checkpoint":
            resumable = False
        res.append(resumable)
    return res


def accepted_requests(obs):
    """Foreign requests that were accepted (returned without raising), with their labels."""
    return [r for r in obs.foreign if r.get("state") == "returned"]


def effect_window(obs, inj_rec):
    """Hook-index window [a, b] between the arrival of a request and the state change it caused."""
    a = inj_rec["hook_index"]
    b = a
    for (new, old, hi), meta in zip(obs.states, obs.state_meta):
        if meta["total"] >= inj_rec["total"] and new in ("pausing", "suspending", "aborting", "stopping", "halting"):
            b = max(a, hi)
            break
    else:
        b = len(obs.hook)
    return a, b


# ------------------------------------------------------------------------------------------ C07


def oracle_c07(case, obs, res):
    from bluesky.run_engine import RunEngineStateMachine

    table = RunEngineStateMachine.Meta.transitions
    F = lambda **kw: _feat(case, obs, **kw)  # noqa: E731
    for (new, old, hi), meta in zip(obs.states, obs.state_meta):
        if new == old:
            continue
        if new not in table.get(old, []):
            res.fail("illegal_transition", f"{old} -> {new} at hook#{hi}", **F())
        if new == "panicked":
            res.fail("panicked", f"engine panicked at hook#{hi}", **F())
    if obs.stuck:
        res.fail("stuck", f"a blocking call can make no further progress (calls: {_calls(obs)})", **F())
        return res
    for c in obs.calls:
        if c.get("outcome") in ("return", "raise"):
            st = c.get("state_after")
            if st not in ("idle", "paused"):
                exc = c.get("exc")
                res.fail(
                    "transient_state_after_call",
                    f"{c['do']}() {c['outcome']}ed ({type(exc).__name__ if exc is not None else 'ok'}) with state {st!r}",
                    **F(call=c["do"], state_after=st),
                )
    if obs.probe is not None:
        p = obs.probe
        if p.get("outcome") != "return" or p.get("state_after") != "idle":
            exc = p.get("exc")
            res.fail(
                "unusable_for_next_call",
                f"probe RE([Msg('null')]) -> {p.get('outcome')} {type(exc).__name__ if exc is not None else ''}: {exc} "
                f"(state before {p.get('state_before')}, after {p.get('state_after')})",
                **F(state_before_probe=p.get("state_before")),
            )
    # non-trivial: a request arrived in a non-running state or within 3 handles of a state change
    nt = False
    for i in obs.injected:
        if i["state"] != "running":
            nt = True
        for meta in obs.state_meta:
            if abs(meta["total"] - i["total"]) <= 3:
                nt = True
    res.nontrivial = nt
    for r in obs.foreign:
        if r.get("state") == "raised":
            res.classes.append("foreign_raised:" + type(r["exception"]).__name__)
    return res


def _calls(obs):
    out = []
    for c in obs.calls:
        e = c.get("exc")
        out.append(f"{c['do']}:{c.get('outcome')}:{type(e).__name__ if e is not None else ''}:{c.get('state_after')}")
    return out


# ------------------------------------------------------------------------------------------ C08


def oracle_c08(case, obs, res):
    from bluesky.utils import RunEngineInterrupted

    F = lambda **kw: _feat(case, obs, **kw)  # noqa: E731
    if obs.stuck:
        res.classes.append("stuck(C07)")
        return res
    ms = model_states(obs)
    term_requested = False  # an abort/stop/halt was accepted so far (foreign or main-thread stage)
    nonresumable_hit = False
    for ci, c in enumerate(obs.calls):
        if c.get("outcome") not in ("return", "raise"):
            continue
        do = c["do"]
        if do in TERMINATORS:
            term_requested = True
            continue
        seg_i = ci
        # accepted foreign terminators injected in this segment
        for r in obs.foreign:
            if r.get("seg") == seg_i and r["label"] in TERMINATORS and r.get("state") == "returned":
                term_requested = True
        # pause/suspend requests of this segment that took effect in a non-resumable section
        ambiguous = False
        for inj in obs.injected:
            if inj["seg"] != seg_i or inj["inj"]["do"] not in ("pause", "suspend", "defer"):
                continue
            a, b = effect_window(obs, inj)
            window = ms[a : b + 1] or [ms[-1]]
            if not any(window):
                nonresumable_hit = True
            elif not all(window):
                ambiguous = True
        # in-plan pause messages in a non-resumable section
        for hi in range(c.get("hook_start", 0), c.get("hook_end", len(obs.hook))):
            if obs.hook[hi]["msg"].command == "pause" and not ms[hi]:
                nonresumable_hit = True
        st = c.get("state_after")
        exc = c.get("exc")
        if c["outcome"] == "raise" and isinstance(exc, RunEngineInterrupted):
            if st == "paused":
                nxt = obs.calls[ci + 1] if ci + 1 < len(obs.calls) else None
                if nxt is not None and nxt["do"] == "resume" and nxt.get("outcome") == "raise":
                    from bluesky._vendor.super_state_machine.errors import TransitionError

                    if isinstance(nxt.get("exc"), TransitionError):
                        res.fail("paused_not_resumable", f"resume() rejected: {nxt['exc']}", **F())
            elif st == "idle":
                if not term_requested and not nonresumable_hit and not ambiguous:
                    # outcome-independent features: was a clear_checkpoint executed before a request of this
                    # segment arrived (checkpoint re-arming, F3)?  did every request arrive after the plan's
                    # last message (F2)?
                    reqs = [i for i in obs.injected if i["seg"] == seg_i and i["inj"]["do"] in ("pause", "suspend", "defer")]
                    cleared_before = any(
                        any(h["msg"].command == "clear_checkpoint" for h in obs.hook[: effect_window(obs, i)[1]]) for i in reqs
                    )
                    hook_end = c.get("hook_end", len(obs.hook))
                    after_end = bool(reqs) and all(effect_window(obs, i)[1] >= hook_end for i in reqs)
                    res.fail(
                        "interrupted_but_idle",
                        f"{do}() raised RunEngineInterrupted with state 'idle' although no abort/stop/halt was requested "
                        f"and no pause/suspension hit a non-resumable section (plan returned: {obs.plog.returned})",
                        **F(clear_checkpoint_before_request=cleared_before, request_after_last_message=after_end),
                    )
                # every run closed
                runs, _ = check_docs(obs.docs[: None], idle=False, validate=False)
                # (documents emitted so far belong to this or earlier stages; all runs must be closed now)
                open_runs = [r.uid for r in runs.values() if r.stop is None]
                if open_runs and ci == len([x for x in obs.calls]) - 1:
                    res.fail("idle_with_open_run", f"idle after interruption but runs {open_runs} have no stop", **F())
            else:
                res.classes.append("transient_after_call(C07)")
        elif c["outcome"] == "return":
            if st != "idle":
                res.fail("returned_not_idle", f"{do}() returned normally with state {st!r}", **F())
            if not obs.plog.returned:
                res.fail("returned_without_completion", f"{do}() returned normally but the plan did not run to completion", **F())
        elif c["outcome"] == "raise":
            res.classes.append("call_raised:" + type(exc).__name__)
    # non-trivial: request within the last 10 handles of a call, or right at a checkpoint boundary
    nt = False
    for inj in obs.injected:
        c = obs.calls[inj["seg"]] if inj["seg"] < len(obs.calls) else None
        if c and "handles" in c and c["handles"] - inj["k"] <= 10:
            nt = True
        hi = inj["hook_index"]
        around = [obs.hook[j]["msg"].command for j in range(max(0, hi - 1), min(len(obs.hook), hi + 1))]
        if "checkpoint" in around or "clear_checkpoint" in around:
            nt = True
    res.nontrivial = nt
    return res


def interruption_features(obs):
    """Outcome-independent features of where the interruptions took effect."""
    _, info = replay_model(obs)
    prev_cmds = []
    closed = False
    nonrew = False
    for it in info["interruptions"]:
        hi = it["hook_index"]
        if not it.get("rewindable", True):
            nonrew = True
        user = [h["msg"].command for h in obs.hook[:hi] if id(h["msg"]) in obs.plog.msg_ids]
        prev_cmds.append(user[-1] if user else None)
        if "close_run" in _cmds_since_checkpoint(obs, hi):
            closed = True
    return {
        "close_run_since_checkpoint": closed,
        # the message in flight at the interruption is not in the replay cache: it is a
        # non-replayable command, or it was executed while the plan was marked non-rewindable
        "interrupted_at_nonreplayable": nonrew or any(c in NON_REPLAYABLE for c in prev_cmds if c),
        "prev_cmds": ",".join(str(c) for c in prev_cmds),
    }


# ------------------------------------------------------------------------------------------ C04


def oracle_c04(case, obs, res):
    F = lambda **kw: _feat(case, obs, **kw)  # noqa: E731
    if obs.stuck:
        res.classes.append("stuck(C07)")
        return res
    problems, info = replay_model(obs)
    ints = info["interruptions"]
    feats = interruption_features(obs)
    for kind, detail in problems:
        res.fail(kind, detail, **F(**feats))
    res.nontrivial = any((it["cache_len"] > 0 or it["since_implicit"] <= 2) and it["resumable"] for it in ints)
    for it in ints:
        res.classes.append(f"int:{it['kind']}:cache={'0' if it['cache_len'] == 0 else '1-3' if it['cache_len'] <= 3 else '4+'}")
    return res


def _cmds_since_checkpoint(obs, hi):
    out = []
    for h in obs.hook[:hi]:
        c = h["msg"].command
        if c == "checkpoint":
            out = []
        else:
            out.append(c)
    return out


# ------------------------------------------------------------------------------------------ C03


def bundled_streams(obs):
    names = set()
    for h in obs.hook:
        m = h["msg"]
        if m.command == "create":
            n = m.kwargs.get("name") or (m.args[0] if m.args else None)
            names.add((m.run, n))
    return names


def final_data(obs):
    """{(run_index, stream): {seq_num: data}} using the LAST event emitted per seq_num, plus
    num_events per run."""
    runs, _ = check_docs(obs.docs, idle=False, validate=False)
    out = {}
    ne = {}
    for ri, run in enumerate(runs.values()):
        for stream, evs in run.events_by_stream().items():
            d = {}
            for e in evs:
                d[e["seq_num"]] = e["data"]
            out[(ri, stream)] = d
        ne[ri] = dict((run.stop or {}).get("num_events", {}) or {})
    return out, ne


def oracle_c03(case, obs, res, ref_obs):
    from bluesky.utils import RunEngineInterrupted

    F = lambda **kw: _feat(case, obs, **kw)  # noqa: E731
    if obs.stuck:
        res.classes.append("stuck(C07)")
        return res
    feats = interruption_features(obs)
    # every resume completes without error (RunEngineInterrupted = paused again is fine)
    for c in obs.calls:
        if c.get("outcome") == "raise" and not isinstance(c.get("exc"), RunEngineInterrupted):
            res.fail(
                "resume_raises" if c["do"] == "resume" else "call_raises",
                f"{c['do']}() raised {type(c['exc']).__name__}: {c['exc']}",
                **F(**feats),
            )
    if res.failures:
        return res
    if obs.auto_abort or not obs.plog.returned:
        res.classes.append("not_completed")
        return res
    names = {n for (_, n) in bundled_streams(ref_obs)}
    got, ne = final_data(obs)
    ref, ne_ref = final_data(ref_obs)
    for key in sorted(set(got) | set(ref), key=repr):
        if key[1] not in names:
            continue
        g, r = got.get(key, {}), ref.get(key, {})
        if g != r:
            res.fail(
                "data_differs",
                f"run#{key[0]} stream {key[1]}: interrupted execution recorded {g}, uninterrupted {r}",
                **F(**feats),
            )
    for ri in sorted(set(ne) | set(ne_ref)):
        a = {k: v for k, v in ne.get(ri, {}).items() if k in names}
        b = {k: v for k, v in ne_ref.get(ri, {}).items() if k in names}
        if a != b:
            res.fail("num_events_differs", f"run#{ri}: num_events {a} vs uninterrupted {b}", **F(**feats))
    _, info = replay_model(obs)
    res.nontrivial = any(it["cache_len"] > 0 for it in info["interruptions"]) and e1common.interrupted_with_open_run(obs)
    return res
