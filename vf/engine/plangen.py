"""Hypothesis strategies for E1 cases: constructive well-formed plan ASTs + schedules + faults.

The plan builder tracks the legal state while it draws (open runs per key, bundling, staged,
monitored, kicked-off flyers, pending groups, resumable) so that generated plans run deep instead
of dying on the first IllegalMessageSequence.  Profiles bias the mix:

  general       everything, 0-2 injections, optional fault                  (C01, C02, C06, C07, C08)
  replay        no faults, cache-affecting commands, pause/suspend only     (C03, C04, C05, C13)
  nonresumable  clear_checkpoint + cleanup wrappers, pause/suspend          (C10)
  errors        device faults with handlers                                 (C12)
  keys          several keyed runs                                           (C14)
"""

from __future__ import annotations

import copy

from .planlang import DS, M, SEQ

DEVICES = {
    "dets": {"d1": {"trigger_delay": 0.05}, "d2": {"keys": ["d2a", "d2b"], "salt": 7.0}, "d3": {"salt": 3.0, "cfg": {"gain": 1}}, "d4": {"salt": 4.0, "stage_status": 0.05}},
    "motors": {"m1": {"delay": 0.1}, "m2": {"pos": 1.0, "async_stop": True}},
    "sigs": {"s1": {"value": 1.0}, "s2": {"value": 5.0}},
    "flyers": {"f1": {"n_events": 2}, "f2": {"n_events": 1, "pages": True}},
}
DETS = ["d1", "d2", "d3"]
MOTORS = ["m1", "m2"]
SIGS = ["s1", "s2"]
FLYERS = ["f1", "f2"]


class _B:
    """Plan builder state."""

    def __init__(self, draw, st, profile):
        self.draw = draw
        self.st = st
        self.profile = profile
        self.gid = 0
        self.tok = 0
        self.runs = {}  # key -> {"monitored": set, "kicked": set}
        self.staged = []
        self.resumable = True
        self.n_msgs = 0
        self.n_pause = 0
        self.allow_pause = False  # in-plan Msg('pause'); switched on by cases() for the profiles that expect it

    def group(self):
        self.gid += 1
        return f"g{self.gid}"

    def choice(self, xs):
        return self.draw(self.st.sampled_from(list(xs)))

    def chance(self, p):
        return self.draw(self.st.integers(0, 99)) < int(round(p * 100))

    def int(self, a, b):
        return self.draw(self.st.integers(a, b))

    # ---- fragments
    def point(self, key):
        dets = self.draw(self.st.lists(self.st.sampled_from(DETS), min_size=1, max_size=2, unique=True))
        nodes = []
        idem = self.profile in ("replay", "replay_data", "keys")  # replay-idempotent points: own checkpoint, every motor set
        if self.resumable and (idem or self.chance(0.8)):
            nodes.append(M("checkpoint"))
        if idem:
            g = self.group()
            for mm in MOTORS:
                nodes.append(M("set", mm, float(self.int(-3, 3)) / 2, group=g))
            nodes.append(M("wait", None, group=g))
            m = self.choice(MOTORS) if self.chance(0.5) else None
        elif self.chance(0.6):
            m = self.choice(MOTORS)
            g = self.group()
            if self.chance(0.25):
                # move and trigger concurrently; wait for the detectors while watching the motor's group
                g2 = self.group()
                nodes.append(M("set", m, float(self.int(-3, 3)) / 2, group=g))
                for d in dets:
                    nodes.append(M("trigger", d, group=g2))
                nodes += [M("wait", None, group=g2, watch=[g]), M("wait", None, group=g, watch=[g2])]
                dets_triggered = True
            else:
                nodes += [M("set", m, float(self.int(-3, 3)) / 2, group=g), M("wait", None, group=g)]
        else:
            m = None
        if not any(n[1] == "trigger" for n in nodes):
            g = self.group()
            for d in dets:
                nodes.append(M("trigger", d, group=g))
            nodes.append(M("wait", None, group=g))
        stream = self.choice(["primary", "primary", "aux"])
        # a stream keeps one object set: encode the object set in the stream name
        objs = list(dets) + ([m] if m else [])
        stream = stream + "_" + "_".join(sorted(objs))
        nodes.append(M("create", None, name=stream, run=key))
        for o in objs:
            nodes.append(M("read", o, run=key))
        nodes.append(M("save" if self.chance(0.9) else "drop", None, run=key))
        return nodes

    def misc(self, key):
        r = self.runs[key]
        opts = ["null", "sleep", "checkpoint"]
        if self.allow_pause and self.n_pause < 2:
            opts += ["pause"]
        if self.profile == "replay_data":
            opts += ["monitor", "flyer", "subscribe", "configure", "stage_pair"]
        if self.profile == "nonresumable":
            opts += ["rewindable", "rewindable", "stage_pair", "monitor", "subscribe"]
        if self.profile in ("general", "replay", "keys", "lifecycle", "defer", "suspend"):
            opts += ["monitor", "flyer", "subscribe", "rewindable", "configure", "stage_pair"]
        if self.profile == "replay":
            opts += ["monitor", "rewindable", "stage_pair", "subscribe"]
        o = self.choice(opts)
        if o == "pause":
            self.n_pause += 1
            return [M("pause", None, defer=True)] if self.chance(0.3) else [M("pause")]
        if o == "null":
            return [M("null", None, self.int(0, 9))]
        if o == "sleep":
            return [M("sleep", None, self.choice([0.0, 0.1, 0.6]))]
        if o == "checkpoint":
            return [M("checkpoint")] if self.resumable else [M("null")]
        if o == "monitor":
            free = [s for s in SIGS if not any(s in rr["monitored"] for rr in self.runs.values())]
            if free and self.chance(0.6):
                s = self.choice(free)
                r["monitored"].add(s)
                return [M("monitor", s, name=f"{s}_mon", run=key)]
            if r["monitored"]:
                s = self.choice(sorted(r["monitored"]))
                r["monitored"].discard(s)
                return [M("unmonitor", s, run=key)]
            return [M("null")]
        if o == "flyer":
            free = [f for f in FLYERS if not any(f in rr["kicked"] for rr in self.runs.values())]
            if free and self.chance(0.6):
                f = self.choice(free)
                r["kicked"].add(f)
                g = self.group()
                return [M("kickoff", f, group=g, run=key), M("wait", None, group=g)]
            if r["kicked"]:
                f = self.choice(sorted(r["kicked"]))
                r["kicked"].discard(f)
                g = self.group()
                return [M("complete", f, group=g, run=key), M("wait", None, group=g), M("collect", f, run=key)]
            return [M("null")]
        if o == "subscribe":
            self.tok += 1
            lab = f"t{self.tok}"
            out = [M("subscribe", None, {"$obj": "cb"}, "all", save=lab)]
            if self.chance(0.5):
                out.append(M("unsubscribe", None, {"$tok": lab}))
            return out
        if o == "rewindable":
            body = [M("null", None, "nr")] + (self.point(key) if self.chance(0.5) else [])
            if self.chance(0.4):
                body.append(M("sleep", None, 0.1))
            tail = [M("null", None, "after-nr")] + ([M("sleep", None, 0.1)] if self.chance(0.4) else [])
            return [M("rewindable", None, False)] + body + [M("rewindable", None, True)] + tail
        if o == "configure":
            return [M("configure", "d3", {"gain": self.int(1, 5)}, run=key)]
        if o == "stage_pair":
            d = self.choice(DETS + ["d4", "d4"])
            if d in self.staged:
                return [M("null")]
            if d == "d4":
                # stage()/unstage() return Status objects: the plan waits for them
                g1, g2 = self.group(), self.group()
                return [
                    M("stage", d, group=g1),
                    M("wait", None, group=g1),
                    M("null", None, "staged"),
                    M("unstage", d, group=g2),
                    M("null", None, "unstaged"),
                    M("wait", None, group=g2),
                    M("sleep", None, 0.1),
                ]
            return [M("stage", d), M("null", None, "staged"), M("unstage", d), M("null", None, "unstaged"), M("sleep", None, 0.1)]
        return [M("null")]

    def run_body(self, key, n):
        nodes = []
        for _ in range(n):
            if self.chance(0.65):
                nodes += self.point(key)
            else:
                nodes += self.misc(key)
        return nodes

    def close_obligations(self, key):
        r = self.runs[key]
        nodes = []
        for s in sorted(r["monitored"]):
            nodes.append(M("unmonitor", s, run=key))
        for f in sorted(r["kicked"]):
            g = self.group()
            nodes += [M("complete", f, group=g, run=key), M("wait", None, group=g), M("collect", f, run=key)]
        r["monitored"].clear()
        r["kicked"].clear()
        return nodes

    def one_run(self, key, size, last=True):
        self.runs[key] = {"monitored": set(), "kicked": set()}
        use_wrapper = key is None and self.chance(0.3) and self.profile != "keys"
        body = []
        if self.chance(0.8):
            body.append(M("checkpoint"))
        body += self.run_body(key, size)
        if self.profile == "nonresumable" or (self.profile == "general" and self.chance(0.1)):
            pos = self.int(0, len(body))
            body.insert(pos, M("clear_checkpoint"))
            self.resumable = False
            body += self.run_body(key, self.int(1, 3))
            if self.chance(0.4):
                body.append(M("checkpoint"))
                self.resumable = True
                body += self.run_body(key, self.int(0, 2))
        body += self.close_obligations(key)
        leave_open = last and self.profile == "general" and self.chance(0.1) and not use_wrapper
        del self.runs[key]
        if use_wrapper:
            return [["wrap", "run", {"md": {"w": 1}}, SEQ(*body)]]
        nodes = [M("open_run", None, run=key, tag=str(key))] + body
        if not leave_open:
            kw = {}
            if self.chance(0.15):
                kw = {"exit_status": self.choice(["success", "abort", "fail"]), "reason": "plan-said-so"}
            nodes.append(M("close_run", None, run=key, **kw))
            if self.chance(0.5):
                nodes.append(M("checkpoint"))
        return nodes

    def keyed_runs(self, size):
        """Two or three interleaved keyed runs."""
        pool = ["A", "B", None, 0, ""] if self.profile == "keys" else ["A", "B", None]  # falsy keys are keys too
        keys = self.draw(self.st.lists(self.st.sampled_from(pool), min_size=2, max_size=3, unique=True))
        nodes = []
        for k in keys:
            self.runs[k] = {"monitored": set(), "kicked": set()}
            nodes.append(M("open_run", None, run=k, tag=str(k)))
            if self.chance(0.7):
                nodes.append(M("checkpoint"))
        for _ in range(size):
            k = self.choice(keys)
            if self.profile == "keys" and self.chance(0.15):
                # duplicate open on an open key, guarded so that the plan continues
                nodes.append(["try", M("open_run", None, run=k, tag="dup"), [["IllegalMessageSequence", "swallow", None]], None])
            elif self.chance(0.7):
                nodes += self.point(k)
            else:
                nodes += self.misc(k)
        order = self.draw(self.st.permutations(keys))
        for k in order:
            nodes += self.close_obligations(k)
            nodes.append(M("close_run", None, run=k))
            if self.chance(0.5):
                nodes.append(M("checkpoint"))
            del self.runs[k]
        if self.profile == "keys" and self.chance(0.4):
            # a default run key around everything: only messages without a key of their own may be re-addressed
            return [["wrap", "set_run_key", {"run": "W"}, SEQ(*nodes)]]
        return nodes

    def plan(self):
        size = self.int(1, 5)
        nodes = []
        stage_devs = []
        if self.chance(0.5):
            stage_devs = self.draw(self.st.lists(self.st.sampled_from(DETS + MOTORS), min_size=1, max_size=2, unique=True))
            self.staged = list(stage_devs)
        if self.profile == "keys" or (self.profile in ("general", "replay", "replay_data", "lifecycle") and self.chance(0.25)):
            body = self.keyed_runs(size + 1)
        else:
            body = []
            nruns = self.int(1, 2)
            for i in range(nruns):
                body += self.one_run(None, size, last=(i == nruns - 1))
        if self.profile in ("general", "errors") and self.chance(0.15):
            pos = self.int(0, len(body))
            exc = self.choice(["PlanError", "PlanError", "KeyError", "ValueError", "RuntimeError"])
            arg = self.choice(["generated failure", "generated failure", 2, ""])
            body.insert(pos, ["raise", exc, arg])
        body = SEQ(*body)
        # cleanup structure
        style = self.choice(["none", "try_finally", "finalize", "contingency"]) if self.profile not in ("replay", "replay_data") else self.choice(["none", "try_finally"])
        if style == "try_finally":
            handlers = []
            if self.chance(0.4):
                handlers.append([self.choice(["Exception", "PlanError", "DeviceError", "FailedStatus"]), self.choice(["reraise", "swallow", "transform"]), M("null", None, "handler")])
            body = ["try", body, handlers, SEQ(M("null", None, "cleanup"))]
        elif style == "finalize":
            body = ["wrap", "finalize", {"final_plan": SEQ(M("null", None, "final-cleanup"))}, body]
        elif style == "contingency":
            body = [
                "wrap",
                "contingency",
                {
                    "except_plan": SEQ(M("null", None, "exc-cleanup")) if self.chance(0.7) else None,
                    "else_plan": SEQ(M("null", None, "else-cleanup")) if self.chance(0.5) else None,
                    "final_plan": SEQ(M("null", None, "fin-cleanup")) if self.chance(0.7) else None,
                },
                body,
            ]
        if stage_devs:
            if self.chance(0.5):
                body = ["wrap", "stage", {"devices": DS(*stage_devs)}, body]
            else:
                body = SEQ(
                    *[M("stage", d) for d in stage_devs],
                    ["try", body, [], SEQ(*[M("unstage", d) for d in reversed(stage_devs)])],
                )
        if self.chance(0.2):
            body = SEQ(body, ["return", self.int(0, 99)])
        return body


def _count_cmd(node, cmd):
    if not isinstance(node, list) or not node:
        return 0
    if node[0] == "msg":
        return 1 if node[1] == cmd else 0
    return sum(_count_cmd(x, cmd) for x in node if isinstance(x, list))


def _injection(draw, st, kinds):
    kind = draw(st.sampled_from(kinds))
    inj = {"at_msg": draw(st.integers(0, 45)), "plus": draw(st.integers(0, 5)), "do": kind}
    if kind == "suspend":
        if draw(st.booleans()):
            inj["release_after"] = draw(st.sampled_from([0.05, 0.3, 1.0]))
        else:
            inj["release_after"] = 0.4
        if draw(st.booleans()):
            inj["pre"] = SEQ(M("null", None, "pre"))
            inj["post"] = SEQ(M("null", None, "post"))
            inj["just"] = "because"
    return inj


def cases(profile="general"):
    from hypothesis import strategies as st

    crr = profile.endswith("_crr")
    if crr:
        profile = profile[: -len("_crr")]
    pausefault = profile.endswith("_pausefault")
    if pausefault:
        profile = profile[: -len("_pausefault")]
    runprobe = profile.endswith("_runprobe")
    if runprobe:
        profile = profile[: -len("_runprobe")]

    @st.composite
    def gen(draw):
        b = _B(draw, st, profile)
        b.allow_pause = profile in ("general", "lifecycle", "nonresumable", "replay", "suspend")
        plan = b.plan()
        case = {"name": "gen:" + profile, "plan": plan, "devices": copy.deepcopy(DEVICES), "probe": True}
        if profile in ("replay", "replay_data"):
            kinds = ["pause", "suspend", "pause", "defer"]
        elif profile == "lifecycle":
            kinds = ["pause", "defer", "suspend", "abort", "stop", "halt"]
        elif profile == "defer":
            kinds = ["defer"]
        elif profile == "nonresumable":
            kinds = ["pause", "suspend"]
        elif profile == "errors":
            kinds = []
        elif profile == "keys":
            kinds = ["pause", "suspend", "abort", "stop"]
        elif profile == "suspend":
            kinds = ["suspend", "suspend", "suspend", "pause"]
        else:
            kinds = ["pause", "defer", "suspend", "abort", "stop", "halt"]
        ninj = (1 if profile == "defer" else draw(st.integers(0 if profile in ("errors",) else 1, 2))) if kinds else 0
        injs = [_injection(draw, st, kinds) for _ in range(ninj)]
        if profile == "nonresumable" and injs and draw(st.integers(0, 3)) > 0:
            # aim the first request at the non-resumable section: some messages after the clear_checkpoint
            injs[0].pop("at_msg", None)
            injs[0]["at_cmd"] = "clear_checkpoint"
            injs[0]["plus_msgs"] = draw(st.integers(0, 10))
        n_rw = _count_cmd(plan, "rewindable")
        if n_rw and injs and "at_msg" in injs[0] and profile != "nonresumable" and draw(st.integers(0, 2)) > 0:
            # aim the first request at the messages around a rewindability toggle
            injs[0].pop("at_msg")
            injs[0].update(at_cmd="rewindable", nth=draw(st.integers(1, n_rw)), plus_msgs=draw(st.integers(0, 5)))
        stages = [{"do": "call", "inj": injs}]
        if profile in ("replay", "replay_data"):
            for _ in range(3):
                st2 = {"do": "resume"}
                if draw(st.integers(0, 3)) == 0:
                    st2["inj"] = [_injection(draw, st, ["pause", "suspend"])]
                stages.append(st2)
        elif profile in ("defer", "suspend"):
            stages += [{"do": "resume"}, {"do": "resume"}]
        else:
            for _ in range(draw(st.integers(1, 3))):
                stages.append({"do": draw(st.sampled_from(["resume", "resume", "abort", "stop", "halt"]))})
        case["stages"] = stages
        if profile in ("general", "errors") and draw(st.integers(0, 1 if profile == "general" else 0)) == 0:
            if b.staged and draw(st.booleans()):
                # faults inside staging / cleanup of a device the plan really stages
                dev = draw(st.sampled_from(sorted(b.staged)))
                op = draw(st.sampled_from(["unstage", "unstage", "stage"]))
            elif profile == "general" and draw(st.integers(0, 5)) == 0:
                # a monitored signal whose subscription management fails once
                dev = draw(st.sampled_from(SIGS))
                op = draw(st.sampled_from(["clear_sub", "clear_sub", "subscribe"]))
            else:
                dev = draw(st.sampled_from(DETS + MOTORS))
                if dev in MOTORS:
                    op = draw(st.sampled_from(["set", "read", "stop", "unstage", "stage"]))
                elif dev in DETS:
                    op = draw(st.sampled_from(["trigger", "read", "unstage", "stage"]))
            kind = "raise"
            if op in ("set", "trigger") and draw(st.integers(0, 2)) > 0:
                kind = "status_fail"
            f = {"dev": dev, "op": op, "n": draw(st.integers(1, 3)), "kind": kind}
            if kind == "status_fail":
                f["dt"] = draw(st.sampled_from([0.0, 0.02, 0.3]))
            case["faults"] = [f]
        if draw(st.integers(0, 3)) == 0:
            case["re"] = {"record_interruptions": True}
        if pausefault:
            # Pausable detectors whose pause() / resume() hook can fail: reaches the engine's error exits from 'pausing'
            for d in ("d1", "d3"):
                case["devices"]["dets"][d]["pausable"] = True
            if draw(st.integers(0, 3)) > 0:
                case["faults"] = [
                    {"dev": draw(st.sampled_from(["d1", "d3"])), "op": draw(st.sampled_from(["pause", "pause", "resume"])), "n": draw(st.integers(1, 2)), "kind": "raise"}
                ]
        if runprobe:
            case["probe"] = "run"
        if crr and draw(st.booleans()):
            case.setdefault("re", {})["call_returns_result"] = True
        return case

    return gen()
