"""Run one E1 case: (plan AST, devices, RunEngine options, faults, stages with injections).

``run_case(case) -> Obs`` builds a fresh SchedLoop + RunEngine, executes the stages and returns
the observation record that all E1 oracles are pure functions of.

Case (JSON):
  {"plan": AST,
   "devices": {"dets": {...}, "motors": {...}, "sigs": {...}, "flyers": {...}}   (optional spec),
   "re": {"record_interruptions": bool, "call_returns_result": bool, "md": {...}, "call_md": {...}},
   "faults": [{"dev","op","n","kind": "raise"|"status_fail"|"hang", "dt": float}],
   "stages": [{"do": "call"|"resume"|"abort"|"stop"|"halt", "inj": [INJ, ...]}, ...],
             (also {"do": "put", "sig": name, "value": v}: Sig.put on the main thread between blocking calls,
              executed in any state, recorded in obs.injected with k=-1 and inj["main_thread"]=True)
   "probe": bool}
  INJ = {"at": k, "do": "pause"|"defer"|"abort"|"stop"|"halt"|"suspend"|"put"|"release",
         alternatively {"at_msg": j, "plus": d} (d callbacks after the j-th message of the stage was hooked) or
         {"at_cmd": cmd, "nth": n, "plus_msgs": m, "plus": d} (relative to the n-th message with that command),
         "after": tau (optional virtual seconds after handle k),
         "release_after": tau | "release_at": k2   (suspend),
         "pre": AST|None, "post": AST|None, "just": str|None (suspend),
         "sig": name, "value": v (put)}
"""

from __future__ import annotations

import contextlib
import io
import logging
import signal
import threading

from ..core import HarnessError, use_repo

use_repo()

from . import devices as dv  # noqa: E402
from .planlang import PlanLog, build_plan  # noqa: E402
from .schedloop import SchedLoop  # noqa: E402

logging.getLogger("bluesky").addHandler(logging.NullHandler())
logging.getLogger("bluesky").propagate = False
logging.getLogger("asyncio").addHandler(logging.NullHandler())
logging.getLogger("asyncio").propagate = False


class Stuck(BaseException):
    """The engine can make no further progress while a blocking call is pending."""


class CaseTimeout(BaseException):
    pass


DEFAULT_DEVICES = {
    "dets": {"d1": {}, "d2": {"keys": ["d2a", "d2b"], "salt": 7.0}},
    "motors": {"m1": {}, "m2": {"pos": 1.0}},
    "sigs": {},
    "flyers": {},
}


def build_world(loop, case):
    world = dv.World(loop, case.get("faults"))
    spec = case.get("devices") or DEFAULT_DEVICES
    for name, kw in spec.get("motors", {}).items():
        kw = dict(kw)
        parent = kw.pop("parent", None)
        m = dv.Motor(world, name, **kw)
        if parent:
            m.parent = world.devices.get(parent)
    for name, kw in spec.get("dets", {}).items():
        kw = dict(kw)
        cls = dv.PausableDet if kw.pop("pausable", False) else dv.Det
        cls(world, name, **kw)
    for name, kw in spec.get("sigs", {}).items():
        dv.Sig(world, name, **kw)
    for name, kw in spec.get("flyers", {}).items():
        dv.Flyer(world, name, **kw)
    for name, kw in spec.get("streamdets", {}).items():
        dv.StreamDet(world, name, **kw)
    for name, kw in spec.get("cfgsigs", {}).items():
        dv.CfgSig(world, name, **kw)
    return world


class Obs:
    """Observation record of one case."""

    def __init__(self):
        self.docs = []  # (name, doc, hook_index)
        self.hook = []  # {"msg", "deferred", "ledger", "state", "seg"}
        self.states = []  # (new, old, hook_index)
        self.state_meta = []  # parallel to states: {"handle", "seg", "total"}
        self.calls = []  # per stage: {"do", "outcome": "return"|"raise"|"skipped", "value"/"exc", "state_after", "handles"}
        self.foreign = []  # records from inject_foreign
        self.injected = []  # {"inj", "k", "hook_index", "state", "open_runs"}
        self.plog = None
        self.world = None
        self.stuck = False
        self.harness_error = None
        self.probe = None
        self.final_state = None
        self.auto_abort = False
        self.suspend_events = []
        self.RE = None

    @property
    def ledger(self):
        return self.world.ledger


class _VDuringTask:
    def __init__(self, loop):
        self.loop = loop

    def block(self, ev):
        loop = self.loop
        loop.open_gate()
        while True:
            if ev.wait(0.02):
                return
            if loop.is_stuck() and not ev.is_set():
                # ev.set() happens on the loop thread before it goes idle; seeing idle first and
                # ev still clear means nothing can ever set it.
                if loop.is_stuck() and not ev.is_set():
                    raise Stuck()


def _alarm(signum, frame):
    import sys
    import traceback

    dump = []
    for tid, fr in sys._current_frames().items():
        dump.append(f"--- thread {tid}\n" + "".join(traceback.format_stack(fr)[-8:]))
    raise CaseTimeout("\n".join(dump))


def run_case(case, keep_re=False, real_timeout=300):
    use_alarm = threading.current_thread() is threading.main_thread()
    if use_alarm:
        old = signal.signal(signal.SIGALRM, _alarm)
        signal.setitimer(signal.ITIMER_REAL, real_timeout)
    obs = Obs()
    import sys

    old_hook = sys.unraisablehook
    sys.unraisablehook = lambda *a, **k: None  # a wedged engine's _run coroutine is destroyed at teardown
    try:
        with contextlib.redirect_stdout(io.StringIO()):
            _run(case, obs, keep_re)
    except CaseTimeout as e:
        loop = getattr(obs, "_loop", None)
        if loop is not None and loop.is_stuck():
            obs.stuck = True
            obs.stuck_dump = str(e)
        else:
            obs.harness_error = "real-time watchdog expired (inconclusive)\n" + str(e)[-6000:]
    finally:
        if use_alarm:
            signal.setitimer(signal.ITIMER_REAL, 0)
            signal.signal(signal.SIGALRM, old)
        _teardown(obs)
        import gc

        if obs.final_state not in ("idle", None) or obs.stuck:
            gc.collect()
        sys.unraisablehook = old_hook
    if obs.harness_error:
        try:
            import json, os, time as _t
            d = os.path.join(os.path.dirname(os.path.dirname(os.path.dirname(__file__))), "failures", "_harness")
            os.makedirs(d, exist_ok=True)
            json.dump({"case": case, "error": str(obs.harness_error)}, open(os.path.join(d, f"{int(_t.time()*1000)}.json"), "w"), default=repr)
        except Exception:  # noqa: BLE001
            pass
        raise HarnessError(f"case={case!r}"[:2500] + "\n" + str(obs.harness_error)[:8000])
    return obs


def _teardown(obs):
    loop = getattr(obs, "_loop", None)
    th = getattr(obs, "_th", None)
    if loop is None:
        return
    try:
        if loop.is_running():
            loop.call_soon_threadsafe(loop.stop)
        if th is not None:
            th.join(5)
        if not loop.is_running():
            # cancel whatever is left so that no "Task was destroyed" noise is produced
            loop.close()
    except Exception:  # noqa: BLE001
        pass


def _run(case, obs, keep_re):
    from bluesky.run_engine import RunEngine
    from bluesky.utils import Msg

    loop = SchedLoop()
    obs._loop = loop
    reopts = case.get("re") or {}
    RE = RunEngine(
        dict(reopts.get("md") or {}),
        loop=loop,
        context_managers=[],
        during_task=_VDuringTask(loop),
        call_returns_result=bool(reopts.get("call_returns_result", False)),
    )
    obs._th = RE._th
    obs.RE = RE if keep_re else None
    RE.record_interruptions = bool(reopts.get("record_interruptions", False))
    world = build_world(loop, case)
    obs.world = world
    plog = PlanLog()
    obs.plog = plog
    seg = {"i": -1}

    # "doc_puts": a document consumer that updates a signal from inside its callback (a slow or device-touching
    # consumer): [{"on": "stop", "nth": 1, "sig": "s1", "value": 7.0}] -- recorded like a loop-thread `put` injection
    doc_puts = [dict(d, seen=0) for d in (reopts.get("doc_puts") or [])]

    def spy(name, doc):
        obs.docs.append((name, doc, len(obs.hook)))
        nm = getattr(name, "name", str(name))
        for dp in doc_puts:
            if dp["on"] != nm:
                continue
            dp["seen"] += 1
            if dp["seen"] != int(dp.get("nth", 1)):
                continue
            inj = {"do": "put", "sig": dp["sig"], "value": dp["value"], "on_doc": nm}
            obs.injected.append(
                {
                    "inj": inj,
                    "k": -2,
                    "hook_index": len(obs.hook),
                    "state": str(RE.state),
                    "open_runs": sum(1 for b in RE._run_bundlers.values() if b.run_is_open),
                    "total": loop.total,
                    "seg": seg["i"],
                    "vtime": loop.time(),
                    "ledger": len(world.ledger),
                }
            )
            world.devices[dp["sig"]].put(dp["value"])

    RE.subscribe(spy)

    at_msg = {}  # message index within the segment -> [(plus, fn)]
    at_cmd = {}  # command -> [[nth_remaining, plus_msgs, plus, fn]]  (fires relative to the n-th message with that command)

    def msg_hook(msg):
        j = len(obs.hook) - seg.get("hook_base", 0)
        for ent in at_cmd.get(msg.command, []):
            ent[0] -= 1
            if ent[0] == 0:
                at_msg.setdefault(j + ent[1], []).append((ent[2], ent[3]))
        for plus, fn in at_msg.pop(j, []):
            loop.add_due(loop.count + plus, fn)
        obs.hook.append(
            {
                "msg": msg,
                "deferred": RE.deferred_pause_requested,
                "ledger": len(world.ledger),
                "state": str(RE.state),
                "seg": seg["i"],
                "handle": loop.count,
                "total": loop.total,
                "vtime": loop.time(),
            }
        )

    def state_hook(new, old):
        obs.states.append((str(new), str(old), len(obs.hook)))
        plog = getattr(obs, "plog", None)
        obs.state_meta.append(
            {
                "handle": loop.count,
                "seg": seg["i"],
                "total": loop.total,
                # had the top-level plan generator already finished (returned or raised) when the state changed?
                "plan_done": bool(plog is not None and (plog.returned or plog.raised is not None)),
            }
        )

    RE.msg_hook = msg_hook
    RE.state_hook = state_hook

    # "suspender": a real bluesky.suspenders class installed on the engine, watching a minimal ophyd-like signal
    susp = {}
    obs.sigputs = []
    sp = reopts.get("suspender")
    if sp:
        import bluesky.suspenders as bsus

        class _SuspSig:
            def __init__(self, name, value):
                self.name = name
                self._value = value
                self._subs = []

            def get(self):
                return self._value

            value = property(get)

            def subscribe(self, cb, event_type=None, run=True):
                self._subs.append(cb)
                if run:
                    cb(value=self._value, old_value=self._value, timestamp=0.0, obj=self, sub_type="value")
                return len(self._subs)

            def clear_sub(self, cb, event_type=None):
                self._subs = [c for c in self._subs if c is not cb]

            def put(self, v):
                old, self._value = self._value, v
                for cb in list(self._subs):
                    cb(value=v, old_value=old, timestamp=0.0, obj=self, sub_type="value")

        susp["sig"] = _SuspSig("beam", sp.get("initial", 0))
        susp["obj"] = getattr(bsus, sp["cls"])(susp["sig"], sleep=float(sp.get("sleep", 0.0)), **(sp.get("kwargs") or {}))
        RE.install_suspender(susp["obj"])

        # Signal updates are delivered on the loop thread at a chosen callback boundary (deterministic).  The
        # suspender hops to the loop thread to create its asyncio.Event and waits for that with a real-time
        # budget; when it already *is* on the loop thread the hop is made in place.
        class _Handle:
            def cancel(self):
                pass

        class _LoopProxy:
            def __getattr__(self, name):
                return getattr(loop, name)

            def call_soon_threadsafe(self, fn, *args):
                if getattr(fn, "__name__", "") == "really_make_the_event":
                    fn(*args)
                    return _Handle()
                return loop.call_soon_threadsafe(fn, *args)

        class _REProxy:
            _loop = _LoopProxy()

            def __getattr__(self, name):
                return getattr(RE, name)

        susp["obj"].RE = _REProxy()

    obs.cb_docs = []
    obs.cb2_docs = []
    extra = {
        "cb": lambda name, doc: obs.cb_docs.append((name, doc)),
        "cb2": lambda name, doc: obs.cb2_docs.append((name, doc)),
    }
    extra.update(case.get("_extra") or {})
    plan, _ = build_plan(case["plan"], world, plog, extra)

    def make_injection(inj):
        do = inj["do"]

        def perform():
            obs.injected.append(
                {
                    "inj": inj,
                    "k": loop.count - 1,
                    "hook_index": len(obs.hook),
                    "state": str(RE.state),
                    "open_runs": sum(1 for b in RE._run_bundlers.values() if b.run_is_open),
                    "total": loop.total,
                    "seg": seg["i"],
                    "vtime": loop.time(),
                    "ledger": len(world.ledger),
                }
            )
            if do == "pause":
                loop.inject_foreign(lambda: RE.request_pause(False), obs.foreign, "pause")["seg"] = seg["i"]
            elif do == "defer":
                loop.inject_foreign(lambda: RE.request_pause(True), obs.foreign, "defer")["seg"] = seg["i"]
            elif do == "abort":
                loop.inject_foreign(lambda: RE.abort(inj.get("reason", "vf-abort")), obs.foreign, "abort")["seg"] = seg["i"]
            elif do == "stop":
                loop.inject_foreign(RE.stop, obs.foreign, "stop")["seg"] = seg["i"]
            elif do == "halt":
                loop.inject_foreign(RE.halt, obs.foreign, "halt")["seg"] = seg["i"]
            elif do == "suspend":
                import asyncio

                ev = asyncio.Event()
                rec = {"inj": inj, "hook_index": len(obs.hook), "released_at_hook": None, "ev": ev, "vtime": loop.time()}
                obs.suspend_events.append(rec)

                def release():
                    if rec["released_at_hook"] is None:
                        rec["released_at_hook"] = len(obs.hook)
                        rec["released_vtime"] = loop.time()
                        rec["released_ledger"] = len(world.ledger)
                    ev.set()

                rec["release"] = release
                pre = inj.get("pre")
                post = inj.get("post")
                mk = lambda ast: (lambda: build_plan(ast, world, PlanLog(), extra)[0]) if ast is not None else None  # noqa: E731
                RE.request_suspend(ev.wait, pre_plan=mk(pre), post_plan=mk(post), justification=inj.get("just"))
                if "release_after" in inj:
                    loop.call_later(float(inj["release_after"]), release)
                elif "release_at" in inj:
                    loop.add_due(int(inj["release_at"]), release)
                # else: released explicitly by a later "release" injection (or never)
            elif do == "release":
                for rec in obs.suspend_events:
                    rec["release"]()
            elif do == "put":
                world.devices[inj["sig"]].put(inj["value"])
            elif do == "sigput":
                # an update of the signal watched by the installed (real) suspender (see _REProxy below)
                obs.sigputs.append({"value": inj["value"], "hook_index": len(obs.hook), "total": loop.total, "vtime": loop.time(), "state": str(RE.state)})
                susp["sig"].put(inj["value"])
            else:
                raise ValueError(do)

        if "after" in inj:
            return lambda: loop.call_later(float(inj["after"]), perform)
        return perform

    stages = case.get("stages") or [{"do": "call"}]
    for si, stage in enumerate(stages):
        do = stage["do"]
        state = str(RE.state)
        rec = {"do": do, "state_before": state}
        obs.calls.append(rec)
        if do == "put":
            # (C41) Sig.put made by the main thread between two blocking calls, i.e. while the engine is
            # paused or idle and the loop is quiescent (an EPICS update arriving during a pause).  Never
            # skipped; recorded in obs.injected like a loop-thread `put` injection (k = -1).
            if not loop.wait_idle():
                obs.harness_error = f"loop did not become idle before stage {si}"
                return
            seg["i"] = si
            rec["hook_start"] = rec["hook_end"] = len(obs.hook)
            obs.injected.append(
                {
                    "inj": {"do": "put", "sig": stage["sig"], "value": stage["value"], "main_thread": True},
                    "k": -1,
                    "hook_index": len(obs.hook),
                    "state": state,
                    "open_runs": sum(1 for b in RE._run_bundlers.values() if b.run_is_open),
                    "total": loop.total,
                    "seg": si,
                    "vtime": loop.time(),
                    "ledger": len(world.ledger),
                }
            )
            try:
                world.devices[stage["sig"]].put(stage["value"])
                rec["outcome"] = "return"
                rec["value"] = None
            except Exception as e:  # noqa: BLE001  (a subscriber raised)
                rec["outcome"] = "raise"
                rec["exc"] = e
            rec["state_after"] = str(RE.state)
            continue
        if do != "call" and state != "paused" and not stage.get("force"):
            rec["outcome"] = "skipped"
            continue
        if do == "call" and state != "idle" and not stage.get("force"):
            rec["outcome"] = "skipped"
            continue
        if not loop.wait_idle():
            obs.harness_error = f"loop did not become idle before stage {si}"
            return
        seg["i"] = si
        due = {}
        at_msg.clear()
        at_cmd.clear()
        seg["hook_base"] = len(obs.hook)
        for inj in stage.get("inj", []):
            if "at_cmd" in inj:
                at_cmd.setdefault(inj["at_cmd"], []).append(
                    [int(inj.get("nth", 1)), int(inj.get("plus_msgs", 0)), int(inj.get("plus", 0)), make_injection(inj)]
                )
            elif "at_msg" in inj:
                at_msg.setdefault(int(inj["at_msg"]), []).append((int(inj.get("plus", 0)), make_injection(inj)))
            else:
                due.setdefault(int(inj["at"]), []).append(make_injection(inj))
        loop.begin_segment(due, hold=(do == "call"))
        rec["hook_start"] = len(obs.hook)
        rec["doc_start"] = len(obs.docs)
        try:
            if do == "call":
                md = dict(reopts.get("call_md") or {})
                val = RE(plan, **md)
            elif do == "resume":
                val = RE.resume()
            elif do == "abort":
                val = RE.abort(stage.get("reason", "vf-abort"))
            elif do == "stop":
                val = RE.stop()
            elif do == "halt":
                val = RE.halt()
            else:
                raise ValueError(do)
            rec["outcome"] = "return"
            rec["value"] = val
        except Stuck:
            loop.open_gate()
            rec["outcome"] = "stuck"
            obs.stuck = True
            return
        except CaseTimeout:
            raise
        except BaseException as e:  # noqa: BLE001
            rec["outcome"] = "raise"
            rec["exc"] = e
        finally:
            loop.open_gate()
        rec["handles"] = loop.count
        rec["hook_end"] = len(obs.hook)
        rec["state_after"] = str(RE.state)
        rec["deferred_after"] = bool(RE.deferred_pause_requested)
        rec["total_after"] = loop.total
        # helper threads of this segment must have finished by the time the call returned and the
        # loop went idle again
        if not loop.wait_idle():
            obs.harness_error = f"loop did not become idle after stage {si}"
            return
        for th in loop.helpers:
            th.join(5)
        rec["state_idle"] = str(RE.state)
        if loop.harness_error:
            obs.harness_error = loop.harness_error
            return

    # leave the engine idle: abort if still paused
    if str(RE.state) == "paused":
        obs.auto_abort = True
        rec = {"do": "abort", "auto": True, "state_before": "paused", "hook_start": len(obs.hook)}
        obs.calls.append(rec)
        seg["i"] = len(stages)
        loop.begin_segment({})
        try:
            rec["value"] = RE.abort("vf-final")
            rec["outcome"] = "return"
        except Stuck:
            rec["outcome"] = "stuck"
            obs.stuck = True
            return
        except CaseTimeout:
            raise
        except BaseException as e:  # noqa: BLE001
            rec["outcome"] = "raise"
            rec["exc"] = e
        rec["state_after"] = str(RE.state)
        rec["hook_end"] = len(obs.hook)
        loop.wait_idle()
    obs.final_state = str(RE.state)
    obs.temp_tokens_left = set(RE._temp_callback_ids)

    if case.get("probe"):
        loop.wait_idle()
        prec = {"state_before": str(RE.state)}
        obs.probe = prec
        seg["i"] = len(stages) + 1
        seg["hook_base"] = len(obs.hook)
        at_msg.clear()
        loop.begin_segment({}, hold=True)
        prec["cb_docs_before"] = len(obs.cb_docs)
        prec["docs_before"] = len(obs.docs)
        try:
            if case.get("probe") == "run":
                prec["value"] = RE([Msg("open_run", probe=True), Msg("close_run")])
            elif case.get("probe") == "pause":
                # the next call must be pausable and resumable like a first one
                prec["value"] = RE([Msg("open_run", probe=True), Msg("checkpoint"), Msg("null", None, "p1"), Msg("pause"), Msg("null", None, "p2"), Msg("close_run")])
            else:
                prec["value"] = RE([Msg("null")])
            prec["outcome"] = "return"
        except Stuck:
            prec["outcome"] = "stuck"
        except CaseTimeout:
            raise
        except BaseException as e:  # noqa: BLE001
            prec["outcome"] = "raise"
            prec["exc"] = e
        finally:
            loop.open_gate()
        prec["state_after"] = str(RE.state)
        prec["cb_docs_after"] = len(obs.cb_docs)
        prec["hook_start"] = seg.get("hook_base", 0)
        loop.wait_idle()
        if case.get("probe") == "pause" and str(RE.state) == "paused":
            loop.begin_segment({}, hold=False)
            try:
                RE.resume()
                prec["resume_outcome"] = "return"
            except Stuck:
                prec["resume_outcome"] = "stuck"
            except CaseTimeout:
                raise
            except BaseException as e:  # noqa: BLE001
                prec["resume_outcome"] = "raise"
                prec["resume_exc"] = e
            finally:
                loop.open_gate()
            prec["state_after_resume"] = str(RE.state)
            loop.wait_idle()
    obs.total_handles = loop.total
