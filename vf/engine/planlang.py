"""JSON plan language interpreted into real bluesky plans (generators of Msg).

AST nodes (JSON lists):

  ["msg", cmd, obj, args, kwargs, opts]   obj: device name or None; args/kwargs may contain
                                          {"$dev": name}, {"$devs": [names]}, {"$tok": label};
                                          opts: {"run": key, "save": label}
  ["seq", [node, ...]]
  ["loop", n, node]
  ["sub", node]                            nested generator (yield from)
  ["try", body, handlers, final]           handlers: [[exc_name, action, node], ...] with action in
                                          {"swallow", "reraise", "transform"}; final: node or None
  ["raise", exc_name, text]
  ["return", value]
  ["mark", label]                          plan-side log entry, no message
  ["wrap", name, params, body]             a bluesky.preprocessors wrapper around body
  ["builtin", name, params]                a bluesky.plans / plan_stubs plan: params {"args", "kwargs"}

The top-level generator is passed through :func:`tap`, which records every message leaving the
plan (by identity) and every response / exception entering it.
"""

from __future__ import annotations


class PlanError(Exception):
    """Raised by generated plans (["raise", "PlanError", ...])."""


class Transformed(Exception):
    """What a "transform" handler raises instead of the exception it caught."""


def _exc_classes():
    from bluesky.utils import (
        FailedPause,
        FailedStatus,
        IllegalMessageSequence,
        RequestAbort,
        RequestStop,
        RunEngineControlException,
    )

    from .devices import DeviceError

    return {
        "Exception": Exception,
        "PlanError": PlanError,
        "Transformed": Transformed,
        "DeviceError": DeviceError,
        "FailedStatus": FailedStatus,
        "IllegalMessageSequence": IllegalMessageSequence,
        "ValueError": ValueError,
        "RuntimeError": RuntimeError,
        "KeyError": KeyError,
        "RequestStop": RequestStop,
        "RequestAbort": RequestAbort,
        "FailedPause": FailedPause,
        "RunEngineControlException": RunEngineControlException,
        "BaseException": BaseException,
    }


class PlanLog:
    def __init__(self):
        self.yields = []  # tap records: {"i", "msg", "resp"| "thrown", "ledger"}
        self.events = []  # plan-side semantic events
        self.saved = {}  # label -> response
        self.returned = False
        self.return_value = None
        self.msg_ids = {}  # id(msg) -> index of first yield
        self.raised = None  # exception that left the top-level plan
        self.inner = []  # every yield of a ["msg", ...] node as the plan's own code saw it (inside all wrappers):
        #                  {"msg", "resp" | "thrown", "deleted": the enclosing wrappers remove this message}

    def ev(self, t, **kw):
        kw["t"] = t
        kw["after_yield"] = len(self.yields)
        self.events.append(kw)


def tap(gen, plog: PlanLog, world=None):
    """Transparent pass-through generator that records traffic between plan and engine."""
    try:
        msg = gen.send(None)
    except StopIteration as s:
        plog.returned = True
        plog.return_value = s.value
        return s.value
    except BaseException as e:  # noqa: BLE001
        plog.raised = e
        raise
    while True:
        rec = {"i": len(plog.yields), "msg": msg, "ledger": len(world.ledger) if world is not None else None}
        plog.yields.append(rec)
        plog.msg_ids.setdefault(id(msg), rec["i"])
        try:
            resp = yield msg
        except GeneratorExit:
            rec["closed"] = True
            plog.ev("closed")
            gen.close()
            raise
        except BaseException as e:  # noqa: BLE001
            rec["thrown"] = e
            rec["ledger_after"] = len(world.ledger) if world is not None else None
            try:
                msg = gen.throw(e)
            except StopIteration as s:
                plog.returned = True
                plog.return_value = s.value
                return s.value
            except BaseException as e2:  # noqa: BLE001
                plog.raised = e2
                raise
        else:
            rec["resp"] = resp
            rec["ledger_after"] = len(world.ledger) if world is not None else None
            try:
                msg = gen.send(resp)
            except StopIteration as s:
                plog.returned = True
                plog.return_value = s.value
                return s.value
            except BaseException as e2:  # noqa: BLE001
                plog.raised = e2
                raise


class Interp:
    def __init__(self, world, plog: PlanLog, extra=None):
        self.world = world
        self.plog = plog
        self.exc = _exc_classes()
        self.extra = extra or {}  # named python objects (callbacks, suspenders) usable as {"$obj": name}
        self.ctx = []  # names of the message-deleting wrappers enclosing the node being interpreted

    # ---- value resolution
    def res(self, v):
        if isinstance(v, dict):
            if "$dev" in v:
                return self.world.devices[v["$dev"]]
            if "$devs" in v:
                return [self.world.devices[n] for n in v["$devs"]]
            if "$tok" in v:
                return self.plog.saved.get(v["$tok"])
            if "$obj" in v:
                return self.extra[v["$obj"]]
            if "$tuple" in v:
                return tuple(self.res(x) for x in v["$tuple"])
            return {k: self.res(x) for k, x in v.items()}
        if isinstance(v, list):
            return [self.res(x) for x in v]
        return v

    def gen(self, node):
        from bluesky.utils import Msg

        kind = node[0]
        if kind == "msg":
            _, cmd, obj, args, kwargs, *rest = node
            opts = rest[0] if rest else {}
            o = self.world.devices[obj] if isinstance(obj, str) else self.res(obj)
            a = [self.res(x) for x in (args or [])]
            kw = {k: self.res(x) for k, x in (kwargs or {}).items()}
            msg = Msg(cmd, o, *a, run=opts.get("run"), **kw)
            rec = {
                "msg": msg,
                "deleted": ("stub" in self.ctx and cmd in ("open_run", "close_run", "stage", "unstage"))
                or ("drop_null" in self.ctx and cmd == "null" and a[:1] == ["dropme"]),
            }
            self.plog.inner.append(rec)
            try:
                resp = yield msg
            except BaseException as e:  # noqa: BLE001
                rec["thrown"] = e
                raise
            rec["resp"] = resp
            if "save" in opts:
                self.plog.saved[opts["save"]] = resp
            return resp
        if kind == "seq":
            r = None
            for n in node[1]:
                r = yield from self.gen(n)
            return r
        if kind == "loop":
            r = None
            for _ in range(node[1]):
                r = yield from self.gen(node[2])
            return r
        if kind == "sub":
            return (yield from self._sub(node[1]))
        if kind == "mark":
            self.plog.ev("mark", label=node[1])
            return None
        if kind == "raise":
            raise self.exc[node[1]](node[2])
        if kind == "return":
            self.plog.ev("return_stmt", value=node[1])
            raise _Return(node[1])
        if kind == "try":
            return (yield from self._try(node))
        if kind == "wrap":
            return (yield from self._wrap(node))
        if kind == "builtin":
            return (yield from self._builtin(node))
        raise ValueError(f"unknown node {kind}")

    def _sub(self, node):
        return (yield from self.gen(node))

    def _try(self, node):
        _, body, handlers, final = node
        nid = id(node)
        self.plog.ev("try_enter", node=nid, has_final=final is not None)
        closing = False
        try:
            try:
                return (yield from self.gen(body))
            except _Return:
                raise
            except GeneratorExit:
                # like finalize_wrapper: no cleanup messages when the generator is being closed / halted
                closing = True
                self.plog.ev("generator_exit", node=nid)
                raise
            except BaseException as e:  # noqa: BLE001
                for exc_name, action, hnode in handlers or []:
                    if isinstance(e, self.exc[exc_name]):
                        self.plog.ev("except", node=nid, exc=e, handler=exc_name, action=action)
                        if hnode is not None:
                            yield from self.gen(hnode)
                        if action == "swallow":
                            return None
                        if action == "transform":
                            raise Transformed(f"from {type(e).__name__}") from e
                        raise
                raise
        finally:
            if final is not None and not closing:
                self.plog.ev("finally", node=nid)
                yield from self.gen(final)
                self.plog.ev("finally_done", node=nid)

    def top(self, node):
        """The whole plan as one generator; ["return", v] anywhere ends the plan with value v."""
        try:
            r = yield from self.gen(node)
        except _Return as ret:
            self.plog.ev("plan_return", value=ret.value)
            return ret.value
        self.plog.ev("plan_return", value=None)
        return r

    def _plain(self, node):
        """A self-contained generator for sub-plans handed to bluesky wrappers."""
        try:
            return (yield from self.gen(node))
        except _Return as ret:
            return ret.value

    def _wrap(self, node):
        import bluesky.preprocessors as bpp

        _, name, params, body = node
        params = params or {}
        b = self._plain(body)
        p = {k: self.res(v) for k, v in params.items() if not k.endswith("_plan")}
        if name == "run":
            g = bpp.run_wrapper(b, md=p.get("md"))
        elif name == "stage":
            g = bpp.stage_wrapper(b, p["devices"])
        elif name == "lazily_stage":
            g = bpp.lazily_stage_wrapper(b)
        elif name == "finalize":
            fp = params["final_plan"]
            self.plog.ev("wrap_enter", label="finalize")
            g = bpp.finalize_wrapper(b, lambda: self._cleanup(fp, "finalize"), pause_for_debug=False)
        elif name == "contingency":
            kw = {}
            if params.get("except_plan") is not None:
                ep = params["except_plan"]
                kw["except_plan"] = lambda e: self._cleanup(ep, "contingency_except", exc=e)
            if params.get("else_plan") is not None:
                lp = params["else_plan"]
                kw["else_plan"] = lambda: self._cleanup(lp, "contingency_else")
            if params.get("final_plan") is not None:
                fp = params["final_plan"]
                self.plog.ev("wrap_enter", label="contingency_final")
                kw["final_plan"] = lambda: self._cleanup(fp, "contingency_final")
            g = bpp.contingency_wrapper(b, auto_raise=p.get("auto_raise", True), **kw)
        elif name == "subs":
            g = bpp.subs_wrapper(b, p["subs"])
        elif name == "monitor_during":
            g = bpp.monitor_during_wrapper(b, p["signals"])
        elif name == "fly_during":
            g = bpp.fly_during_wrapper(b, p["flyers"])
        elif name == "baseline":
            g = bpp.baseline_wrapper(b, p["devices"])
        elif name == "relative_set":
            g = bpp.relative_set_wrapper(b, p.get("devices"))
        elif name == "reset_positions":
            g = bpp.reset_positions_wrapper(b, p.get("devices"))
        elif name == "rewindable":
            g = bpp.rewindable_wrapper(b, p["rewindable"])
        elif name == "set_run_key":
            g = bpp.set_run_key_wrapper(b, p["run"])
        elif name in ("stub", "drop_null"):
            # message-deleting preprocessors: the deleted yields must be resumed with None
            inner = self.ctx
            self.ctx = inner + [name]
            body_gen = b  # created above; its code runs lazily, so the context is switched around every step

            def ctxgen(gen=body_gen, mine=self.ctx, interp=self):
                resp, exc = None, None
                while True:
                    saved = interp.ctx
                    interp.ctx = mine
                    try:
                        msg = gen.throw(exc) if exc is not None else gen.send(resp)
                    except StopIteration as s_:
                        return s_.value
                    finally:
                        interp.ctx = saved
                    exc = None
                    try:
                        resp = yield msg
                    except GeneratorExit:
                        gen.close()
                        raise
                    except BaseException as e:  # noqa: BLE001
                        exc, resp = e, None

            self.ctx = inner
            if name == "stub":
                g = bpp.stub_wrapper(ctxgen())
            else:
                g = bpp.msg_mutator(ctxgen(), lambda m: None if (m.command == "null" and m.args[:1] == ("dropme",)) else m)
        elif name == "suspend":
            g = bpp.suspend_wrapper(b, p["suspenders"])
        elif name == "supplemental":
            sd = bpp.SupplementalData(
                baseline=p.get("baseline", []), monitors=p.get("monitors", []), flyers=p.get("flyers", [])
            )
            g = sd(b)
        else:
            raise ValueError(f"unknown wrapper {name}")
        return (yield from g)

    def _cleanup(self, node, label, exc=None):
        self.plog.ev("cleanup_start", label=label, exc=exc)
        r = yield from self._plain(node)
        self.plog.ev("cleanup_done", label=label)
        return r

    def _builtin(self, node):
        import bluesky.plan_stubs as bps
        import bluesky.plans as bp

        _, name, params = node
        args = [self.res(x) for x in params.get("args", [])]
        kwargs = {k: self.res(v) for k, v in params.get("kwargs", {}).items()}
        fn = getattr(bp, name, None) or getattr(bps, name)
        return (yield from fn(*args, **kwargs))


class _Return(Exception):
    def __init__(self, value):
        self.value = value


def build_plan(ast, world, plog=None, extra=None):
    plog = plog or PlanLog()
    it = Interp(world, plog, extra)
    return tap(it.top(ast), plog, world), plog


# ---- small helpers to write ASTs by hand -------------------------------------------------------


def M(cmd, obj=None, *args, run=None, save=None, **kwargs):
    opts = {}
    if run is not None:
        opts["run"] = run
    if save is not None:
        opts["save"] = save
    return ["msg", cmd, obj, list(args), kwargs, opts]


def SEQ(*nodes):
    return ["seq", list(nodes)]


def D(name):
    return {"$dev": name}


def DS(*names):
    return {"$devs": list(names)}
