"""Plan corpus and schedule enumeration shared by the E1 properties."""

from __future__ import annotations

import copy

from .planlang import DS, D, M, SEQ

DEV_A = {
    "dets": {"d1": {"trigger_delay": 0.05}, "d2": {"keys": ["d2a", "d2b"], "salt": 7.0}},
    "motors": {"m1": {"delay": 0.1}, "m2": {"pos": 1.0}},
    "sigs": {"s1": {"value": 1.0}},
    "flyers": {"f1": {"n_events": 2}},
}
DEV_SYNC = {
    "dets": {"d1": {}, "d2": {"keys": ["d2a", "d2b"], "salt": 7.0}},
    "motors": {"m1": {}, "m2": {"pos": 1.0}},
    "sigs": {"s1": {"value": 1.0}},
    "flyers": {"f1": {"n_events": 2, "pages": True}},
}


DEV_B = {
    "dets": {"d1": {"trigger_delay": 0.05}, "d4": {"stage_status": 0.05, "salt": 4.0}},
    "motors": {"m1": {"delay": 0.1}},
    "sigs": {},
    "flyers": {},
}


# DEV_A with an ophyd-async style motor: stop() is a coroutine that really suspends (the engine's clean-up awaits it)
DEV_N = copy.deepcopy(DEV_A)
DEV_N["motors"]["m1"]["async_stop"] = True


def point(dets=("d1",), motor=None, value=None, stream="primary", run=None, group="g"):
    """checkpoint; [set motor; wait]; trigger dets; wait; create; read...; save"""
    nodes = [M("checkpoint")]
    if motor is not None:
        nodes += [M("set", motor, value, group=group + "m"), M("wait", None, group=group + "m")]
    for d in dets:
        nodes.append(M("trigger", d, group=group))
    nodes.append(M("wait", None, group=group))
    nodes.append(M("create", None, name=stream, run=run))
    for d in dets:
        nodes.append(M("read", d, run=run))
    if motor is not None:
        nodes.append(M("read", motor, run=run))
    nodes.append(M("save", None, run=run))
    return SEQ(*nodes)


def _custom_ck():
    body = SEQ(point(("d1",), "m1", 0.5), point(("d1",), "m1", 1.5))
    return ["wrap", "stage", {"devices": DS("d1", "m1")}, ["wrap", "run", {"md": {"purpose": "vf"}}, body]]


def _nested_keys():
    return SEQ(
        M("open_run", None, run="A", tag="A"),
        M("checkpoint"),
        M("open_run", None, run="B", tag="B"),
        M("checkpoint"),
        point(("d1",), "m1", 0.5, run="A"),
        point(("d2",), None, None, run="B"),
        point(("d1",), "m1", 1.0, run="A"),
        M("close_run", None, run="B"),
        M("checkpoint"),
        point(("d1",), "m1", 1.5, run="A"),
        M("close_run", None, run="A"),
    )


def _try_finally():
    body = SEQ(
        M("open_run"),
        M("checkpoint"),
        point(("d1",), "m1", 0.25),
        point(("d1",), "m1", 0.75),
        M("close_run"),
    )
    return SEQ(
        M("stage", "d1"),
        ["try", body, [["Exception", "reraise", M("null", None, "handler")]], SEQ(M("null", None, "cleanup"), M("unstage", "d1"))],
    )


def _monitor_plan():
    return SEQ(
        M("open_run"),
        M("monitor", "s1", name="s1_monitor"),
        point(("d1",), "m1", 0.5),
        point(("d1",), "m1", 1.0),
        M("unmonitor", "s1"),
        M("checkpoint"),
        M("close_run"),
    )


def _fly_plan():
    inner = ["wrap", "run", {"md": {}}, SEQ(point(("d1",), None, None), point(("d1",), None, None))]
    return ["wrap", "fly_during", {"flyers": DS("f1")}, inner]


def _nonresumable():
    body = SEQ(
        M("open_run"),
        M("checkpoint"),
        point(("d1",), "m1", 0.5),
        M("clear_checkpoint"),
        M("set", "m1", 2.0, group="z"),
        M("wait", None, group="z"),
        M("trigger", "d1", group="t"),
        M("wait", None, group="t"),
        M("create", None, name="secondary"),
        M("read", "d1"),
        M("save"),
        M("close_run"),
    )
    return ["wrap", "finalize", {"final_plan": SEQ(M("null", None, "final-cleanup"))}, body]


def _nonresumable_rejected_checkpoint():
    """A checkpoint between create and save is rejected (IllegalMessageSequence) and the plan swallows that: the
    section stays non-resumable (round-3 seed of C10)."""
    body = SEQ(
        M("open_run"),
        M("checkpoint"),
        point(("d1",), "m1", 0.5),
        M("clear_checkpoint"),
        M("create", None, name="secondary"),
        M("read", "d1"),
        ["try", M("checkpoint"), [["IllegalMessageSequence", "swallow", None]], None],
        M("save"),
        M("set", "m1", 2.0, group="z"),
        M("wait", None, group="z"),
        M("null", None, "unsafe-after-rejected-checkpoint"),
        M("sleep", None, 0.1),
        M("close_run"),
    )
    return ["wrap", "finalize", {"final_plan": SEQ(M("null", None, "final-cleanup"))}, body]


def _nonresumable_toggles():
    body = SEQ(
        M("open_run"),
        M("checkpoint"),
        point(("d1",), "m1", 0.5),
        M("clear_checkpoint"),
        M("null", None, "unsafe-1"),
        M("rewindable", None, False),
        M("set", "m1", 2.0, group="z"),
        M("wait", None, group="z"),
        M("rewindable", None, True),
        M("null", None, "unsafe-2"),
        M("stage", "d2"),
        M("sleep", None, 0.1),
        M("unstage", "d2"),
        M("null", None, "unsafe-3"),
        M("sleep", None, 0.1),
        M("close_run"),
    )
    return ["wrap", "finalize", {"final_plan": SEQ(M("null", None, "final-cleanup"))}, body]


def _nonrewindable_region():
    """Cached work, then a non-rewindable region that emits an event, then cached work without a checkpoint."""
    return SEQ(
        M("open_run"),
        M("checkpoint"),
        M("null", None, "a"),
        M("set", "m1", 0.5, group="z"),
        M("wait", None, group="z"),
        M("rewindable", None, False),
        M("null", None, "nr-1"),
        M("sleep", None, 0.1),
        M("create", None, name="primary"),
        M("read", "d2"),
        M("save"),
        M("null", None, "nr-2"),
        M("rewindable", None, True),
        M("null", None, "b"),
        M("sleep", None, 0.1),
        M("create", None, name="primary"),
        M("read", "d2"),
        M("save"),
        M("null", None, "c"),
        point(("d2",)),
        M("close_run"),
    )


def _engine_closes():
    # the plan opens a run and ends without closing it
    return SEQ(M("stage", "d1"), M("open_run"), M("checkpoint"), point(("d1",), "m1", 0.5), point(("d1",), "m1", 1.0))


def _sleepy():
    return SEQ(
        M("open_run"),
        M("checkpoint"),
        M("set", "m1", 1.0, group="a"),
        M("sleep", None, 0.3),
        M("wait", None, group="a"),
        M("checkpoint"),
        M("trigger", "d1", group="t"),
        M("wait", None, group="t"),
        M("create", None, name="primary"),
        M("read", "d1"),
        M("save"),
        M("close_run"),
    )


def _async_stage():
    # a device whose stage()/unstage() return Status objects (ophyd-async style), work before and after
    return SEQ(
        M("open_run"),
        M("checkpoint"),
        M("null", None, "before-stage"),
        M("stage", "d4", group="s"),
        M("wait", None, group="s"),
        M("null", None, "after-stage"),
        M("sleep", None, 0.1),
        point(("d4",), "m1", 0.5),
        M("null", None, "before-unstage"),
        M("unstage", "d4", group="u"),
        M("null", None, "after-unstage"),
        M("wait", None, group="u"),
        M("sleep", None, 0.1),
        M("checkpoint"),
        M("close_run"),
    )


def _watch_wait():
    # wait on one group while watching another (what collect_while_completing does)
    return SEQ(
        M("open_run"),
        M("checkpoint"),
        M("set", "m1", 1.0, group="mv"),
        M("trigger", "d1", group="t"),
        M("wait", None, group="t", watch=["mv"]),
        M("wait", None, group="mv", watch=["nonexistent"]),
        M("create", None, name="primary"),
        M("read", "d1"),
        M("read", "m1"),
        M("save"),
        M("checkpoint"),
        M("set", "m1", 2.0, group="mv2"),
        M("wait", None, group="mv2", watch=["mv2"]),
        M("close_run"),
    )


def _inplan_pause(kind):
    """In-plan pause messages: hard/deferred, in a resumable section and after clear_checkpoint
    (bare plan: the engine itself has to close the run)."""
    pause = M("pause", None, defer=True) if kind.startswith("defer") else M("pause")
    nodes = [M("open_run"), M("checkpoint"), point(("d1",), "m1", 0.5)]
    if kind.endswith("nonresumable"):
        nodes += [M("clear_checkpoint"), M("null", None, "unsafe")]
    nodes += [M("null", None, "before-pause"), pause, M("null", None, "after-pause")]
    if kind.startswith("defer"):
        nodes += [M("sleep", None, 0.1), M("checkpoint"), M("null", None, "after-checkpoint")]
    nodes += [point(("d1",), "m1", 1.0)] if not kind.endswith("nonresumable") else [M("set", "m1", 1.0, group="q"), M("wait", None, group="q")]
    nodes += [M("close_run")]
    return SEQ(*nodes)


def B(name, *args, **kwargs):
    return ["builtin", name, {"args": list(args), "kwargs": kwargs}]


CORPUS = {
    # name: (plan, devices, tier)  tier 0 = always swept completely, 1 = thorough only
    "count2": (B("count", DS("d1"), num=2), DEV_SYNC, 0),
    "scan3": (B("scan", DS("d1", "d2"), D("m1"), 0.0, 2.0, 3), DEV_A, 0),
    "custom_ck": (_custom_ck(), DEV_A, 0),
    "nested_keys": (_nested_keys(), DEV_A, 0),
    "try_finally": (_try_finally(), DEV_SYNC, 0),
    "nonresumable": (_nonresumable(), DEV_N, 0),
    "nonresumable_toggles": (_nonresumable_toggles(), DEV_N, 0),
    # tier 2 = only swept by the checks that name it (C10)
    "nonresumable_rejected_checkpoint": (_nonresumable_rejected_checkpoint(), DEV_N, 2),
    "nonrewindable_region": (_nonrewindable_region(), DEV_A, 0),
    "engine_closes": (_engine_closes(), DEV_A, 0),
    "monitor": (_monitor_plan(), DEV_SYNC, 0),
    "fly": (_fly_plan(), DEV_A, 0),
    "sleepy": (_sleepy(), DEV_A, 0),
    "async_stage": (_async_stage(), DEV_B, 0),
    "watch_wait": (_watch_wait(), DEV_A, 0),
    "pause_msg": (_inplan_pause("hard"), DEV_A, 0),
    "pause_msg_nonresumable": (_inplan_pause("hard_nonresumable"), DEV_N, 0),
    "defer_msg": (_inplan_pause("defer"), DEV_A, 0),
    "defer_msg_nonresumable": (_inplan_pause("defer_nonresumable"), DEV_N, 0),
    "grid22": (B("grid_scan", DS("d1"), D("m1"), 0.0, 1.0, 2, D("m2"), 0.0, 1.0, 2, True), DEV_A, 1),
    "rel_scan": (B("rel_scan", DS("d1"), D("m1"), -1.0, 1.0, 3), DEV_A, 1),
    "list_scan": (B("list_scan", DS("d2"), D("m1"), [0.0, 0.5, 2.0], D("m2"), [1.0, 1.5, 0.0]), DEV_A, 1),
    "count_delay": (B("count", DS("d1", "d2"), num=3, delay=0.2), DEV_A, 1),
}


def base_case(name):
    plan, devs, _ = CORPUS[name]
    return {"name": name, "plan": copy.deepcopy(plan), "devices": copy.deepcopy(devs), "stages": [{"do": "call"}]}


def corpus_names(tier):
    return [n for n, (_, _, t) in CORPUS.items() if t == 0 or (t == 1 and tier == "thorough")]


_HANDLES = {}


def n_handles(name):
    """Number of loop callbacks of the uninterrupted call (measured once per process)."""
    from .harness import run_case

    if name not in _HANDLES:
        obs = run_case(base_case(name))
        _HANDLES[name] = obs.calls[0]["handles"]
    return _HANDLES[name]


SUSPEND_VARIANTS = [
    {"do": "suspend", "release_after": 0.7, "pre": None, "post": None},
    {
        "do": "suspend",
        "release_after": 0.2,
        "pre": ["seq", [["msg", "null", None, ["pre"], {}, {}]]],
        "post": ["seq", [["msg", "null", None, ["post"], {}, {}]]],
        "just": "beam dump",
    },
]


def single_request_cases(names, kinds, decisions=("resume", "abort", "stop", "halt"), extra_k=3, step=1, probe=True, re=None):
    """Every handle k of every named plan x request kind (x decision after a pause)."""
    for name in names:
        n = n_handles(name)
        for k in range(0, n + extra_k, step):
            for kind in kinds:
                if kind in ("pause", "defer"):
                    for dec in decisions:
                        c = base_case(name)
                        c["stages"] = [{"do": "call", "inj": [{"at": k, "do": kind}]}, {"do": dec}]
                        if dec == "resume":
                            c["stages"].append({"do": "resume"})
                        yield _fin(c, probe, re)
                elif kind == "suspend":
                    for v in SUSPEND_VARIANTS:
                        c = base_case(name)
                        inj = dict(v)
                        inj["at"] = k
                        c["stages"] = [{"do": "call", "inj": [inj]}, {"do": "resume"}]
                        yield _fin(c, probe, re)
                else:
                    c = base_case(name)
                    c["stages"] = [{"do": "call", "inj": [{"at": k, "do": kind}]}, {"do": "resume"}]
                    yield _fin(c, probe, re)


_CALLS = {}


def single_fault_cases(names, kinds=("raise",), dts=(0.0, 0.3), probe=True):
    """One device fault per case: every (device, op, n-th call) observed in the fault-free run of each
    named plan x fault kind ('raise', and 'status_fail' for set/trigger/kickoff/complete/stage/unstage)."""
    from .harness import run_case

    for name in names:
        if name not in _CALLS:
            obs = run_case(base_case(name))
            cnt = {}
            for _, dev, op, _ in obs.world.ledger:
                if op in ("set", "trigger", "read", "stage", "unstage", "stop", "kickoff", "complete", "collect", "configure", "subscribe", "clear_sub"):
                    cnt[(dev, op)] = cnt.get((dev, op), 0) + 1
            _CALLS[name] = cnt
        for (dev, op), n_calls in sorted(_CALLS[name].items()):
            for n in range(1, n_calls + 1):
                for kind in kinds:
                    if kind == "status_fail":
                        if op not in ("set", "trigger", "kickoff", "complete"):
                            continue
                        for dt in dts:
                            c = base_case(name)
                            c["faults"] = [{"dev": dev, "op": op, "n": n, "kind": kind, "dt": dt}]
                            yield _fin(c, probe, None)
                    else:
                        c = base_case(name)
                        c["faults"] = [{"dev": dev, "op": op, "n": n, "kind": kind}]
                        yield _fin(c, probe, None)


def _fin(c, probe, re):
    if probe:
        c["probe"] = True
    if re:
        c["re"] = dict(re)
    return c
