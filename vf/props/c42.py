"""C42 Each run's trace span ends once with that run's outcome."""

from __future__ import annotations

import copy
import json

from ..core import HarnessError, Result, use_repo

use_repo()

from ..engine import e1common  # noqa: E402
from ..engine.harness import run_case  # noqa: E402
from ..engine.planlang import M, SEQ  # noqa: E402

ID = "C42"
ENGINE = "E1"
DESIGN_REF = "DESIGN.md §8 C42"
TECHNIQUE = (
    "bounded-exhaustive enumeration of multi-run plans (open/close interleavings x exit statuses x ending mode) plus "
    "Hypothesis-generated plans, faults and abort/stop/halt/pause schedules, executed by the real RunEngine with a "
    "recording OpenTelemetry TracerProvider; spans are compared with the emitted start/stop documents"
)
LEVEL_TEXT = (
    "A recording TracerProvider (written against the OpenTelemetry API ABCs) is installed as the global provider, so the "
    "spans the engine creates in _open_run are real recorded objects. Every open_run carries a unique tag that appears "
    "both in the span's msg.kwargs attribute and in the RunStart document. For every emitted RunStart there must be "
    "exactly one 'Bluesky RunEngine run' span with its tag, that span must have been ended exactly once by the time the "
    "engine is idle again, and its exit_status attribute must equal the exit_status of that run's RunStop."
)
LEVEL_NOTE = (
    "'aborted' (written by the abort/halt path) is accepted as the same outcome as RunStop's 'abort'. Spans of "
    "open_run messages that were rejected (no RunStart) are not judged themselves. Runs without a RunStop (engine "
    "wedged by a lifecycle defect, C07) are not judged. The recorder stands in for the SDK's in-memory exporter."
)
RULE = (
    "case = (plan AST over run keys {None,A,B,C} with uniquely tagged open_run messages, device faults, stages with "
    "injections). Sweep: every open order/close order of 2 (quick) or up to 3 (thorough) keyed runs x explicit exit "
    "statuses x ending mode (all closed by the plan, a suffix left to the engine, PlanError raised, duplicate open_run "
    "swallowed or fatal, abort/stop/halt while paused or running). Hypothesis: random interleavings with data points, "
    "run_wrapper runs, cleanup blocks closing runs, faults, 0-2 injections. Non-trivial: at least two runs were open at "
    "once, or a run was closed by the engine, or the call ended with an exception or an accepted abort/stop/halt, or a "
    "close_run carried an explicit exit_status, or an open_run was rejected (always: at least one run with RunStart and "
    "RunStop was judged). Distinct = canonical JSON."
)
ASSUMPTIONS = [
    "the global TracerProvider can be replaced by a recording one implemented against the opentelemetry-api ABCs (no SDK installed)",
    "a run's span is identified by the tag kwarg of its open_run message (msg.kwargs attribute) and its RunStart by the same tag",
    "'aborted' and 'abort' denote the same exit status",
    "requests arrive at boundaries between event-loop callbacks",
]

SPAN_NAME = "Bluesky RunEngine run"

# ------------------------------------------------------------------------------------------------
# recording tracer provider (opentelemetry-sdk is not installed; only the API is)

_REC = {"installed": False, "spans": []}


def _install_recorder():
    if _REC["installed"]:
        return
    from opentelemetry import trace
    from opentelemetry.trace import INVALID_SPAN_CONTEXT, Span, Tracer, TracerProvider

    class RecSpan(Span):
        def __init__(self, name, attributes=None):
            self.name = name
            self.attributes = dict(attributes or {})
            self.ended = 0
            self.sets_after_end = []
            self.attrs_at_end = None
            self.seq = len(_REC["spans"])
            _REC["spans"].append(self)

        def end(self, end_time=None):
            self.ended += 1
            if self.attrs_at_end is None:
                self.attrs_at_end = dict(self.attributes)

        def get_span_context(self):
            return INVALID_SPAN_CONTEXT

        def set_attributes(self, attributes):
            for k, v in attributes.items():
                self.set_attribute(k, v)

        def set_attribute(self, key, value):
            if self.ended:
                self.sets_after_end.append((key, value))  # the SDK ignores these (span no longer recording)
                return
            self.attributes[key] = value

        def add_event(self, name, attributes=None, timestamp=None):
            pass

        def update_name(self, name):
            self.name = name

        def is_recording(self):
            return not self.ended

        def set_status(self, status, description=None):
            pass

        def record_exception(self, exception, attributes=None, timestamp=None, escaped=False):
            pass

    class RecTracer(Tracer):
        def start_span(self, name, context=None, kind=None, attributes=None, links=None, start_time=None, record_exception=True, set_status_on_exception=True):
            return RecSpan(name, attributes)

        def start_as_current_span(self, name, *a, end_on_exit=True, **kw):
            return trace.use_span(RecSpan(name, kw.get("attributes")), end_on_exit=end_on_exit)

    class RecProvider(TracerProvider):
        def get_tracer(self, *a, **kw):
            return RecTracer()

    import bluesky.run_engine  # noqa: F401  -- the module-level ProxyTracer resolves lazily

    trace.set_tracer_provider(RecProvider())
    if not isinstance(trace.get_tracer_provider(), RecProvider):
        raise HarnessError("could not install the recording TracerProvider (another provider is already set)")
    _REC["installed"] = True


# ------------------------------------------------------------------------------------------------
# oracle


def _norm(status):
    return "abort" if status == "aborted" else status


def _span_tag(span):
    try:
        return json.loads(span.attributes.get("msg.kwargs", "{}")).get("tag")
    except Exception:  # noqa: BLE001
        return None


def _model(obs):
    """Outcome-independent facts from the executed message trace and the plan-side log."""
    from bluesky.utils import FailedPause, RunEngineControlException

    # Did the message itself fail?  An exception thrown into the plan at that yield which is a
    # control exception (abort/stop/halt/failed pause) says nothing about the message.
    failed = {}
    for y in obs.plog.yields:
        e = y.get("thrown")
        failed[id(y["msg"])] = e is not None and not isinstance(e, (RunEngineControlException, FailedPause, GeneratorExit))
    start_at = {}  # hook index during which a RunStart was emitted
    for n, d, hi in obs.docs:
        if getattr(n, "name", n) == "start":
            start_at[hi - 1] = d["uid"]
    first_term = min([hi for (new, old, hi) in obs.states if new in ("aborting", "halting")], default=None)
    open_stack = []  # run keys in opening order, still open (message-trace model)
    max_open = 0
    non_lifo = False
    explicit = False
    none_status = False
    closed_after = False
    n_open_hooks = 0
    n_close_ok = 0
    for i, h in enumerate(obs.hook):
        m = h["msg"]
        if m.command == "open_run":
            n_open_hooks += 1
            if m.run not in open_stack and i in start_at:
                open_stack.append(m.run)
                max_open = max(max_open, len(open_stack))
        elif m.command == "close_run":
            if m.kwargs.get("exit_status") is not None:
                explicit = True
            elif "exit_status" in m.kwargs:
                none_status = True
            if m.run in open_stack and not failed.get(id(m), False):
                if open_stack[-1] != m.run:
                    non_lifo = True
                open_stack.remove(m.run)
                n_close_ok += 1
                if first_term is not None and i >= first_term:
                    closed_after = True
    return {
        # a run was closed by a close_run message after an abort/halt had taken effect
        "closed_by_message_after_abort": closed_after,
        "n_open_hooks": n_open_hooks,
        "n_close_ok": n_close_ok,
        "max_open": max_open,
        "non_lifo_close": non_lifo,
        "explicit_status": explicit,
        "close_run_status_none": none_status,
    }


def _terminators(obs):
    acc = set()
    for r in obs.foreign:
        if r["label"] in ("abort", "halt", "stop") and r.get("state") == "returned":
            acc.add(r["label"])
    for c in obs.calls:
        if c["do"] in ("abort", "halt", "stop") and c.get("outcome") == "return":
            acc.add(c["do"])
    # a main-thread abort()/stop()/halt() that took effect (state change inside its stage) but then raised because
    # the plan's cleanup failed was accepted all the same
    name = {"abort": "aborting", "halt": "halting", "stop": "stopping"}
    for si, c in enumerate(obs.calls):
        if c["do"] in name and c.get("outcome") == "raise":
            if any(new == name[c["do"]] and meta["seg"] == si for (new, _o, _h), meta in zip(obs.states, obs.state_meta)):
                acc.add(c["do"])
    return acc


def check_case(case):
    _install_recorder()
    del _REC["spans"][:]
    obs = run_case(case)
    spans = [s for s in _REC["spans"] if s.name == SPAN_NAME]
    other = [s for s in _REC["spans"] if s.name != SPAN_NAME]
    res = Result()
    res.klass = case.get("name", "gen")
    if obs.stuck:
        res.classes.append("stuck(C07)")
        return res
    mdl = _model(obs)
    starts = [(d.get("tag"), d["uid"]) for n, d, _ in obs.docs if getattr(n, "name", n) == "start"]
    stops = {d["run_start"]: d for n, d, _ in obs.docs if getattr(n, "name", n) == "stop"}
    feats = _features(case, obs, mdl, starts, stops)
    by_tag = {}
    for s in spans:
        by_tag.setdefault(_span_tag(s), []).append(s)
    tags = [t for t, _ in starts]
    if len(set(tags)) != len(tags) or any(t is None for t in tags):
        raise HarnessError(f"generator bug: run tags not unique / missing: {tags}")
    judged = 0
    for tag, uid in starts:
        ss = by_tag.get(tag, [])
        if len(ss) != 1:
            res.fail("span_count_for_run", f"run tag={tag}: {len(ss)} spans carry its tag (expected exactly 1)", **feats)
            continue
        s = ss[0]
        stop = stops.get(uid)
        if stop is None:
            res.classes.append("run_without_stop(C07)")
            continue
        judged += 1
        if s.ended == 0:
            res.fail(
                "span_not_ended",
                f"run tag={tag} (RunStop exit_status={stop['exit_status']!r}) is closed but its span was never ended; "
                f"span attributes {_short(s.attributes)}",
                **feats,
            )
            continue
        if s.ended > 1:
            res.fail("span_ended_twice", f"run tag={tag}: span.end() called {s.ended} times", **feats)
        got = s.attrs_at_end.get("exit_status", "<unset>")
        if got == "aborted":
            res.classes.append("spelled_aborted")
        if _norm(got) != stop["exit_status"]:
            res.fail(
                "span_status_mismatch",
                f"run tag={tag}: RunStop exit_status={stop['exit_status']!r} reason={stop.get('reason')!r} but its span ended with "
                f"exit_status={got!r} reason={s.attrs_at_end.get('reason')!r}",
                **feats,
            )
        elif s.sets_after_end:
            res.classes.append("attribute_set_after_end")
    # spans without a run: rejected open_run messages (not judged, only labelled)
    orphan = [s for s in spans if _span_tag(s) not in set(tags)]
    if orphan:
        res.classes.append("orphan_span_of_rejected_open_run")
        if any(s.ended == 0 for s in orphan):
            res.classes.append("orphan_span_never_ended")
    if other:
        res.classes.append("other_spans_recorded")
    engine_closed = feats["engine_closed_run"]
    # an abort/stop/halt was accepted or a call ended with an exception, and some run's RunStop came after that
    interrupted = bool(_terminators(obs)) or any(c.get("outcome") == "raise" for c in obs.calls)
    res.nontrivial = bool(
        judged and (mdl["max_open"] >= 2 or engine_closed or mdl["explicit_status"] or feats["rejected_open_run"] or interrupted)
    )
    res.classes.append(f"runs={min(len(starts), 3)}{'+' if len(starts) > 3 else ''}")
    res.classes.append(f"max_open={mdl['max_open']}")
    for k in ("non_lifo_close", "engine_closed_run", "rejected_open_run", "explicit_status", "close_run_status_none"):
        if feats.get(k) or mdl.get(k):
            res.classes.append(k)
    for t in sorted(_terminators(obs)):
        res.classes.append("accepted:" + t)
    for _, d in stops.items():
        res.classes.append("stop:" + str(d["exit_status"]))
    res.obs = {"spans": [{"tag": _span_tag(s), "ended": s.ended, "exit_status": (s.attrs_at_end or {}).get("exit_status")} for s in spans]}
    return res


def _short(attrs):
    return {k: v for k, v in attrs.items() if k in ("msg.kwargs", "exit_status", "reason")}


def _rejected_terminator(obs):
    for r in obs.foreign:
        if r["label"] in ("abort", "halt") and r.get("state") == "raised":
            e = r.get("exception")
            if type(e).__name__ == "TransitionError" and "already idle" not in str(e):
                return True
    return False


def _failed_call(obs):
    from bluesky.utils import RunEngineInterrupted

    return any(c.get("outcome") == "raise" and not isinstance(c.get("exc"), RunEngineInterrupted) for c in obs.calls)


def _features(case, obs, mdl, starts, stops):
    f = e1common.features(case, obs)
    term = _terminators(obs)
    f.update(
        # a close_run message was executed for a run that was not the most recently opened open run
        non_lifo_close=mdl["non_lifo_close"],
        # some run got its RunStop from the engine's cleanup rather than from a close_run message
        engine_closed_run=len(stops) > mdl["n_close_ok"],
        # some open_run message did not open a run (duplicate key, ...)
        rejected_open_run=mdl["n_open_hooks"] > len(starts),
        # an abort or halt was accepted (these end all open spans at request time)
        abort_or_halt_accepted=bool(term & {"abort", "halt"}),
        # ... and afterwards a run got its RunStop in a way that need not say 'abort': the plan's cleanup closed it
        # with a close_run message, the plan ran to its normal return although the request was accepted, or the
        # plan's cleanup failed with an ordinary exception (RE(...) raised something else than RunEngineInterrupted)
        abort_span_class=(
            # abort()/halt() raised TransitionError (e.g. while stopping) -- after _abort_coro/_halt_coro had already
            # ended the spans
            "abort_rejected_after_ending_spans"
            if not (term & {"abort", "halt"}) and _rejected_terminator(obs)
            else "none"
            if not (term & {"abort", "halt"})
            else "closed_by_message_after_abort"
            if mdl["closed_by_message_after_abort"]
            else "plan_returned_despite_abort"
            if obs.plog.returned
            else "plan_failed_after_abort"  # the cleanup raised: the engine closes the runs as 'fail'
            if _failed_call(obs)
            else "engine_closed_as_abort"
        ),
        # a close_run message carried exit_status=None explicitly (what bluesky.plan_stubs.close_run() yields)
        close_run_status_none=mdl["close_run_status_none"],
    )
    return f


# ------------------------------------------------------------------------------------------------
# bounded-exhaustive corpus

DEVICES = {"dets": {"d1": {}}, "motors": {}, "sigs": {}, "flyers": {}}


def _point(key):
    return [
        M("trigger", "d1", group="g"),
        M("wait", None, group="g"),
        M("create", None, name="primary", run=key),
        M("read", "d1", run=key),
        M("save", None, run=key),
    ]


def _open(key, tag):
    return M("open_run", None, run=key, tag=tag)


def _close(key, status=None):
    kw = {}
    if status is not None:
        kw = {"exit_status": status, "reason": f"plan closes {key} as {status}"}
    return M("close_run", None, run=key, **kw)


def _mk(name, nodes, stages=None, **kw):
    c = {"name": name, "plan": SEQ(*nodes), "devices": copy.deepcopy(DEVICES), "probe": True, "stages": stages or [{"do": "call"}]}
    c.update(kw)
    return c


def sweep_cases(nkeys_max, statuses):
    import itertools

    keys_all = ["A", "B", "C"]
    for n in range(1, nkeys_max + 1):
        keys = keys_all[:n]
        for close_order in itertools.permutations(keys):
            for sts in itertools.product(statuses, repeat=n):
                st = dict(zip(keys, sts))
                opens = [x for k in keys for x in (_open(k, f"t{k}"), M("checkpoint"))]
                body = [x for k in keys for x in _point(k)]
                # ending modes
                for left in range(0, n + 1):  # the last `left` closes are left to the engine
                    closes = [_close(k, st[k]) for k in close_order[: n - left]]
                    if left and any(st[k] is not None for k in close_order[n - left :]):
                        continue  # statuses of runs the plan never closes are irrelevant: keep one representative
                    nm = f"sweep:n{n}:left{left}"
                    yield _mk(nm, opens + body + closes)
                    if left == 0:
                        continue
                    # ... because the plan fails
                    yield _mk(nm + ":raise", opens + body + closes + [["raise", "PlanError", "boom"]])
                # interruption while everything is open: pause then decision / direct foreign request
                for dec in ("abort", "stop", "halt", "resume"):
                    nodes = opens + body + [M("pause"), M("null", None, "after-pause")] + [_close(k, st[k]) for k in close_order]
                    yield _mk(f"sweep:n{n}:pause>{dec}", nodes, stages=[{"do": "call"}, {"do": dec}])
                for kind in ("abort", "stop", "halt"):
                    nodes = opens + body + [_close(k, st[k]) for k in close_order]
                    for at in (len(opens), len(opens) + len(body) - 1):  # lands inside the body / among the closes
                        inj = {"at_msg": at, "plus": 0, "do": kind}
                        yield _mk(f"sweep:n{n}:foreign-{kind}", nodes, stages=[{"do": "call", "inj": [inj]}])
            # duplicate open_run of the first key while all are open, swallowed or fatal
            for swallow in (True, False):
                dup = _open(keys[0], "tdup")
                node = ["try", dup, [["IllegalMessageSequence", "swallow", None]], None] if swallow else dup
                opens = [x for k in keys for x in (_open(k, f"t{k}"), M("checkpoint"))]
                yield _mk(f"sweep:n{n}:dup:{'swallow' if swallow else 'fatal'}", opens + [node] + [_close(k) for k in close_order])
    # run_wrapper runs (the library's own way to close on failure), nested under different keys
    for fail in (False, True):
        inner = ["wrap", "set_run_key", {"run": "B"}, ["wrap", "run", {"md": {"tag": "tB"}}, SEQ(*_point("B"), *([["raise", "PlanError", "inner"]] if fail else []))]]
        outer = ["wrap", "set_run_key", {"run": "A"}, ["wrap", "run", {"md": {"tag": "tA"}}, SEQ(*_point("A"), inner)]]
        yield _mk(f"sweep:run_wrapper_nested:{'fail' if fail else 'ok'}", [outer])


# ------------------------------------------------------------------------------------------------
# generated cases


def gen_cases():
    from hypothesis import strategies as st

    KEYS = [None, "A", "B", "C"]
    GDEV = {"dets": {"d1": {"trigger_delay": 0.05}, "d2": {"salt": 3.0}}, "motors": {"m1": {"delay": 0.1}}, "sigs": {}, "flyers": {}}

    @st.composite
    def gen(draw):
        chance = lambda p: draw(st.integers(0, 99)) < int(p * 100)  # noqa: E731
        nodes = []
        open_keys = []
        tagn = [0]
        gid = [0]

        def new_tag():
            tagn[0] += 1
            return f"r{tagn[0]}"

        def point(key):
            gid[0] += 1
            g = f"g{gid[0]}"
            d = draw(st.sampled_from(["d1", "d2"]))
            out = []
            if chance(0.5):
                out.append(M("checkpoint"))
            if chance(0.3):
                out += [M("set", "m1", float(draw(st.integers(-2, 2))), group=g), M("wait", None, group=g)]
            out += [M("trigger", d, group=g), M("wait", None, group=g), M("create", None, name=f"s_{d}", run=key), M("read", d, run=key), M("save", None, run=key)]
            return out

        def status():
            return draw(st.sampled_from([None, None, "success", "fail", "abort"]))

        nops = draw(st.integers(2, 12))
        for i in range(nops):
            o = draw(st.sampled_from(["open", "open", "close", "close", "point", "null", "dup", "wrapped", "raise", "sleep"]))
            if i == 0 and o not in ("open", "wrapped"):
                o = "open"
            if o == "open":
                free = [k for k in KEYS if k not in open_keys]
                if free:
                    k = draw(st.sampled_from(free))
                    open_keys.append(k)
                    nodes.append(_open(k, new_tag()))
                    if chance(0.7):
                        nodes.append(M("checkpoint"))
            elif o == "close" and open_keys:
                k = draw(st.sampled_from(open_keys))
                open_keys.remove(k)
                nodes.append(_close(k, status()))
                if chance(0.5):
                    nodes.append(M("checkpoint"))
            elif o == "point" and open_keys:
                nodes += point(draw(st.sampled_from(open_keys)))
            elif o == "null":
                nodes.append(M("null", None, draw(st.integers(0, 9))))
            elif o == "sleep":
                nodes.append(M("sleep", None, draw(st.sampled_from([0.0, 0.2, 1.0]))))
            elif o == "dup" and open_keys and chance(0.4):
                dup = _open(draw(st.sampled_from(open_keys)), new_tag())
                nodes.append(["try", dup, [["IllegalMessageSequence", "swallow", None]], None] if chance(0.7) else dup)
            elif o == "wrapped" and (i == 0 or chance(0.5)):
                free = [k for k in KEYS if k not in open_keys]
                if free:
                    k = draw(st.sampled_from(free))
                    body = point(k) + ([["raise", "PlanError", "in wrapped run"]] if chance(0.2) else [])
                    w = ["wrap", "run", {"md": {"tag": new_tag()}}, SEQ(*body)]
                    if k is not None:
                        w = ["wrap", "set_run_key", {"run": k}, w]
                    if chance(0.3):
                        w = ["try", w, [["PlanError", "swallow", None]], None]
                    nodes.append(w)
            elif o == "raise" and chance(0.3):
                nodes.append(["raise", "PlanError", "generated failure"])
        # ending: close everything (any order), or leave some to the engine
        rest = list(draw(st.permutations(open_keys)))
        if chance(0.3) and rest:
            rest = rest[: draw(st.integers(0, len(rest) - 1))]
        closes = [_close(k, status()) for k in rest]
        style = draw(st.sampled_from(["inline", "inline", "finally", "finalize", "except_swallow"]))
        if style == "inline":
            plan = SEQ(*(nodes + closes))
        elif style == "finally":
            plan = ["try", SEQ(*nodes), [], SEQ(*closes, M("null", None, "cleanup"))]
        elif style == "finalize":
            plan = ["wrap", "finalize", {"final_plan": SEQ(*closes, M("null", None, "cleanup"))}, SEQ(*nodes)]
        else:
            plan = SEQ(["try", SEQ(*nodes), [["Exception", "swallow", M("null", None, "handler")]], None], *closes)
        case = {"name": "gen", "plan": plan, "devices": copy.deepcopy(GDEV), "probe": True}
        kinds = ["abort", "stop", "halt", "pause", "defer", "suspend"]
        injs = []
        for _ in range(draw(st.sampled_from([0, 0, 1, 1, 1, 2]))):
            kind = draw(st.sampled_from(kinds))
            inj = {"at_msg": draw(st.integers(0, 40)), "plus": draw(st.integers(0, 5)), "do": kind}
            if kind == "suspend":
                inj["release_after"] = draw(st.sampled_from([0.05, 0.4]))
            injs.append(inj)
        stages = [{"do": "call", "inj": injs}]
        for _ in range(draw(st.integers(1, 2))):
            stages.append({"do": draw(st.sampled_from(["resume", "resume", "abort", "stop", "halt"]))})
        case["stages"] = stages
        if chance(0.25):
            dev = draw(st.sampled_from(["d1", "d2", "m1"]))
            op = draw(st.sampled_from(["set", "read"] if dev == "m1" else ["trigger", "read"]))
            kind = "status_fail" if op in ("set", "trigger") and chance(0.5) else "raise"
            f = {"dev": dev, "op": op, "n": draw(st.integers(1, 3)), "kind": kind}
            if kind == "status_fail":
                f["dt"] = draw(st.sampled_from([0.0, 0.02]))
            case["faults"] = [f]
        return case

    return gen()


def run(ctx):
    cases = list(sweep_cases(ctx.pick(2, 3), ctx.pick((None, "fail"), (None, "success", "fail", "abort"))))
    ctx.sweep(cases, check_case)
    ctx.extra["sweep_cases"] = len(cases)
    ctx.exhaustive = True
    ctx.bound = (
        f"all open/close orders of up to {ctx.pick(2, 3)} keyed runs x per-run explicit exit status in "
        f"{ctx.pick('{none, fail}', '{none, success, fail, abort}')} x ending modes (plan closes all / engine closes a suffix / PlanError / "
        "pause then abort|stop|halt|resume / foreign abort|stop|halt / duplicate open_run swallowed|fatal); the generated part is a sample"
    )
    ctx.hyp(gen_cases, check_case, max_examples=ctx.pick(1500, 20000), tag="gen")


def replay(case):
    return check_case(case)
