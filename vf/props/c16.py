"""C16 Descriptors carry device configuration current when they were made."""

from __future__ import annotations

import itertools

from ..core import HarnessError, Result, use_repo

use_repo()

from ..engine.harness import run_case  # noqa: E402
from ..engine.planlang import M  # noqa: E402

ID = "C16"
ENGINE = "E1"
DESIGN_REF = "DESIGN.md §8 C16"
TECHNIQUE = (
    "exhaustive enumeration of short bundle/configure/update sequences + Hypothesis-generated plans interleaving configure "
    "with bundled, pre-declared and monitored streams (one run or two keyed runs sharing devices) on the real RunEngine; "
    "descriptor and event documents compared with a reference timeline of each device's configuration"
)
LEVEL_TEXT = (
    "The true configuration of every fake device over time is reconstructed from the case (initial values) and the "
    "device-side ledger of configure() calls. Every descriptor must list a configuration entry for exactly the objects "
    "of its stream whose data equal the device's configuration at the descriptor's emission; every event (bundled or "
    "from a monitor) must reference the newest descriptor of its stream, and that descriptor's configuration must equal "
    "the devices' configuration at the event's emission (so a configure in between must have produced a new descriptor); "
    "a re-issued descriptor must have unchanged data_keys/object_keys and may only appear in a configure step of one of "
    "its objects (streams without the object keep theirs). Complete for all sequences of up to 3 (thorough: 5) "
    "operations over three stream kinds."
)
LEVEL_NOTE = (
    "Exploration beyond the enumerated bound. Configuration changes only through 'configure' messages (design domain); "
    "configure only changes values of existing configuration keys. With two keyed runs a configure message carries the "
    "key of one open run (what set_run_key_wrapper produces). Configuration timestamps are only checked structurally. "
    "Whether a new descriptor is emitted for a stream that gets no further events is not asserted."
)
RULE = (
    "case = (devices with generated configuration dicts, guarded legal plan). Sweep: every sequence of length <= 3 "
    "(quick) / 5 (thorough) over {bundle primary[a,b], bundle s2[b,c], bundle decl[a,c] (pre-declared), configure a, "
    "configure b, configure s1, set s1 (monitored)} after open_run/declare_stream/monitor. Hypothesis: 1-2 epochs, each "
    "opening one run or two keyed runs that share all devices, with per-run stream templates and 3-12 actions (bundle, "
    "configure, set, monitor/unmonitor, declare_stream, checkpoint, sleep), optional configure between epochs. "
    "Non-trivial: an accepted configure of an object lies between two events of one stream containing it. "
    "Distinct = canonical JSON."
    ' Bundles may end with drop (configuration cached without a descriptor).'
)
ASSUMPTIONS = [
    "device configuration changes only through 'configure' messages; the set of configuration keys of a device is fixed",
    "no device faults, pauses or suspensions (single RE(plan) call); every generated step is legal, a rejection is reported",
    "with keyed runs, a configure message is addressed to one of the currently open runs",
]


def G(node):
    return ["try", node, [["Exception", "swallow", None]], None]


def make_case(name, devices, steps):
    """steps: list of (node, guarded?)"""
    plan = ["seq", [G(n) if g else n for n, g in steps]]
    return {"name": name, "plan": plan, "devices": devices, "stages": [{"do": "call"}]}


# ------------------------------------------------------------------------------------------
# oracle


def _initial_cfg(case):
    spec = case.get("devices") or {}
    cfg = {}
    for grp in ("dets", "cfgsigs"):
        for n, kw in spec.get(grp, {}).items():
            cfg[n] = dict(kw.get("cfg") or {})
    for grp in ("motors", "sigs"):
        for n in spec.get(grp, {}):
            cfg[n] = {}
    return cfg


def _cfg_doc(obj, cfg):
    return {f"{obj}_{k}": v for k, v in cfg.items()}


def oracle(case, obs, res):
    truth = _initial_cfg(case)
    Y = obs.plog.yields
    if len(obs.hook) != len(Y) or any(h["msg"] is not y["msg"] for h, y in zip(obs.hook, Y)):
        raise HarnessError("C16: executed messages are not 1:1 with the plan's yields (no interruptions expected)")
    by_step = {}
    for pos, (name, doc, hi) in enumerate(obs.docs):
        by_step.setdefault(hi - 1, []).append((name, doc, pos))

    call = obs.calls[0]
    info = {"nontrivial": False, "labels": set(), "n_cfg": 0, "n_events": 0}
    labels = info["labels"]
    if obs.stuck or call.get("outcome") != "return" or not obs.plog.returned:
        res.fail(
            "engine_call_raised",
            f"every step is guarded, so RE(plan) must return; outcome={call.get('outcome')} exc={call.get('exc')!r} stuck={obs.stuck}",
            step="call",
        )
        return info

    cur = {}  # run key -> uid of the currently open run
    key_of = {}  # run uid -> key
    open_keys = set()
    last_cfg = {}  # obj -> (run key of the configure message, keys of the runs open then)
    kind = {}  # (run uid, stream name) -> bundled | declared | monitored
    descs = {}  # descriptor uid -> (doc, step)
    latest = {}  # (run uid, stream name) -> descriptor doc
    ev_log = {}  # (run uid, stream name) -> [(step, object names)]
    cfg_log = []  # (step, obj)

    def via_other_run(obj, run_uid):
        lc = last_cfg.get(obj)
        k = key_of.get(run_uid)
        return bool(lc and lc[0] != k and k in lc[1])

    seen_soft = set()

    def soft_fail(kind, detail, stream, obj):
        """Failure kinds of the listed findings: report once per (kind, stream) and keep checking."""
        if (kind, stream) not in seen_soft:
            seen_soft.add((kind, stream))
            res.fail(kind, detail, **feats(stream, obj))

    def feats(stream, obj, **kw):
        f = {
            "stream_kind": kind.get(stream, "unknown"),
            "configured_via_other_run": via_other_run(obj, stream[0]) if obj is not None else False,
            "runs_open": len(open_keys),
        }
        f.update(kw)
        return f

    for i, y in enumerate(Y):
        msg = y["msg"]
        cmd = msg.command
        rk = msg.run
        dev = getattr(msg.obj, "name", None)
        rejected = "thrown" in y
        if rejected:
            res.fail("legal_step_rejected", f"step {i} {cmd}({dev}, run={rk!r}) raised {y['thrown']!r}", step=cmd, runs_open=len(open_keys))
            return info
        if cmd == "open_run":
            cur[rk] = y["resp"]
            key_of[y["resp"]] = rk
            open_keys.add(rk)
        elif cmd == "monitor":
            kind[(cur.get(rk), msg.kwargs.get("name"))] = "monitored"
        elif cmd == "declare_stream":
            kind[(cur.get(rk), msg.kwargs.get("name"))] = "declared"
        elif cmd == "create":
            kind.setdefault((cur.get(rk), msg.kwargs.get("name")), "bundled")
        elif cmd == "configure":
            last_cfg[dev] = (rk, frozenset(open_keys))
            cfg_log.append((i, dev))
            info["n_cfg"] += 1
        # the device-side truth: configure() calls performed during this step
        n_dev_cfg = 0
        for _, d, op, inf in obs.world.ledger[y["ledger"] : y["ledger_after"]]:
            if op == "configure":
                truth[d].update(inf)
                n_dev_cfg += 1
        if n_dev_cfg != (1 if cmd == "configure" else 0):
            raise HarnessError(f"C16: step {i} {cmd}: {n_dev_cfg} device configure() calls")

        for n, doc, _pos in by_step.get(i, []):
            if n == "descriptor":
                stream = (doc["run_start"], doc["name"])
                objs = list(doc.get("object_keys", {}))
                conf = doc.get("configuration", {})
                if set(conf) != set(objs):
                    res.fail(
                        "configuration_objects_mismatch",
                        f"step {i}: descriptor {doc['name']!r} has objects {sorted(objs)} but configuration entries for {sorted(conf)}",
                        **feats(stream, None),
                    )
                    return info
                for o in objs:
                    want = _cfg_doc(o, truth[o])
                    got = conf[o]
                    if got.get("data") != want:
                        soft_fail(
                            "descriptor_config_stale",
                            f"step {i} ({cmd}): descriptor of stream {doc['name']!r} (run key {key_of.get(doc['run_start'])!r}) created with "
                            f"configuration[{o!r}]['data'] = {got.get('data')} while the device reports {want}",
                            stream,
                            o,
                        )
                        continue
                    if set(got.get("timestamps", {})) != set(want) or set(got.get("data_keys", {})) != set(want):
                        res.fail(
                            "configuration_block_inconsistent",
                            f"step {i}: configuration[{o!r}] data keys {sorted(want)} timestamps {sorted(got.get('timestamps', {}))} data_keys {sorted(got.get('data_keys', {}))}",
                            **feats(stream, o),
                        )
                        return info
                prev = latest.get(stream)
                if prev is not None:
                    labels.add("descriptor_reissued:" + kind.get(stream, "unknown"))
                    explicit = cmd in ("monitor", "declare_stream") and msg.kwargs.get("name") == doc["name"]  # asked for by the plan
                    if not (explicit or (cmd == "configure" and dev in prev.get("object_keys", {}))):
                        res.fail(
                            "descriptor_reissued_without_configure",
                            f"step {i} {cmd}({dev}): a new descriptor for stream {doc['name']!r} (objects {sorted(prev.get('object_keys', {}))}) although none of its objects was configured",
                            **feats(stream, None),
                        )
                        return info
                    if doc["data_keys"] != prev["data_keys"] or doc.get("object_keys") != prev.get("object_keys"):
                        res.fail(
                            "data_keys_changed",
                            f"step {i}: re-issued descriptor of {doc['name']!r} has data_keys {doc['data_keys']} / object_keys {doc.get('object_keys')}, before: {prev['data_keys']} / {prev.get('object_keys')}",
                            **feats(stream, None),
                        )
                        return info
                descs[doc["uid"]] = (doc, i)
                latest[stream] = doc
            elif n == "event":
                info["n_events"] += 1
                d = descs.get(doc["descriptor"])
                if d is None:
                    res.fail("event_without_preceding_descriptor", f"step {i}: event references unknown descriptor {doc['descriptor']}", stream_kind="unknown", configured_via_other_run=False, runs_open=len(open_keys))
                    return info
                ddoc = d[0]
                stream = (ddoc["run_start"], ddoc["name"])
                objs = list(ddoc.get("object_keys", {}))
                stale = [o for o in objs if ddoc["configuration"][o]["data"] != _cfg_doc(o, truth[o])]
                if latest.get(stream) is not ddoc:
                    soft_fail(
                        "event_references_old_descriptor",
                        f"step {i} ({cmd} {dev}): event seq_num {doc.get('seq_num')} of stream {ddoc['name']!r} references the descriptor emitted at step {d[1]}, "
                        f"a newer descriptor of that stream exists; objects with outdated configuration in the referenced one: {stale}",
                        stream,
                        stale[0] if stale else None,
                    )
                elif stale:
                    o = stale[0]
                    soft_fail(
                        "event_descriptor_not_current",
                        f"step {i} ({cmd} {dev}): event seq_num {doc.get('seq_num')} of stream {ddoc['name']!r} (run key {key_of.get(ddoc['run_start'])!r}) references the stream's newest "
                        f"descriptor (step {d[1]}) whose configuration[{o!r}]['data'] = {ddoc['configuration'][o]['data']} but the device was configured to {_cfg_doc(o, truth[o])} before the event",
                        stream,
                        o,
                    )
                ev_log.setdefault(stream, []).append((i, set(objs)))
                labels.add("event:" + kind.get(stream, "unknown"))
        if cmd == "close_run":
            open_keys.discard(rk)
            cur.pop(rk, None)

    # non-trivial: an accepted configure of obj between two events of one stream containing obj
    for stream, evs in ev_log.items():
        for j, o in cfg_log:
            if any(s < j and o in objs for s, objs in evs) and any(s > j and o in objs for s, objs in evs):
                info["nontrivial"] = True
                labels.add("cfg_between_events:" + kind.get(stream, "unknown"))
    if len(key_of) > 1:
        labels.add("runs>1")
    if any(len(lc[1]) > 1 for lc in last_cfg.values()):
        labels.add("configure_with_two_runs_open")
    return info


def check_case(case):
    obs = run_case(case)
    res = Result()
    info = oracle(case, obs, res)
    res.classes.extend(sorted(info["labels"]))
    res.nontrivial = bool(info["nontrivial"])
    res.klass = f"{case.get('name', 'gen')}|cfg={min(info['n_cfg'], 3)}|events={min(info['n_events'], 4)}|nt={int(res.nontrivial)}"
    return res


# ------------------------------------------------------------------------------------------
# generators

SWEEP_DEVICES = {
    "dets": {"a": {"keys": ["a1", "a2"], "cfg": {"x": 1, "y": 2}}, "b": {"salt": 20.0, "cfg": {"x": 3}}, "c": {"salt": 40.0}},
    "motors": {},
    "sigs": {},
    "flyers": {},
    "cfgsigs": {"s1": {"value": 1.0, "cfg": {"x": 4}}},
}
SWEEP_OPS = ["Bp", "Bs", "Bd", "Ca", "Cb", "Cs", "P"]


def _bundle(stream, devs, run=None, drop=False):
    # drop=True: the objects are read (which caches their configuration) but no event / descriptor is made
    return [M("create", None, name=stream, run=run)] + [M("read", d, run=run) for d in devs] + [M("drop" if drop else "save", run=run)]


def sweep_cases(maxlen, minlen=0):
    for n in range(minlen, maxlen + 1):
        for seq in itertools.product(SWEEP_OPS, repeat=n):
            steps = [
                M("open_run"),
                M("declare_stream", None, {"$dev": "a"}, {"$dev": "c"}, name="decl"),
                M("monitor", "s1", name="mon"),
            ]
            v = 10
            for o in seq:
                v += 1
                if o == "Bp":
                    steps += _bundle("primary", ["a", "b"])
                elif o == "Bs":
                    steps += _bundle("s2", ["b", "c"])
                elif o == "Bd":
                    steps += _bundle("decl", ["a", "c"])
                elif o == "Ca":
                    steps.append(M("configure", "a", {"x": v}))
                elif o == "Cb":
                    steps.append(M("configure", "b", {"x": v}))
                elif o == "Cs":
                    steps.append(M("configure", "s1", {"x": v}))
                elif o == "P":
                    steps += [M("set", "s1", float(v), group="p"), M("wait", None, group="p")]
            steps.append(M("close_run"))
            yield make_case("sweep", SWEEP_DEVICES, [(s, s[1] != "open_run") for s in steps])


def strategy():
    from hypothesis import strategies as st

    @st.composite
    def _case(draw):
        dets = {
            "a": {"keys": ["a1", "a2"], "cfg": {"x": draw(st.integers(0, 9)), "y": draw(st.integers(0, 9))}},
            "b": {"salt": 20.0, "cfg": {"x": draw(st.integers(0, 9))}},
            "c": {"salt": 40.0},
        }
        if draw(st.integers(0, 3)) == 0:
            dets["b"]["async_read"] = True
        cfgsigs = {"s1": {"value": 1.0, "cfg": {"x": draw(st.integers(0, 9))}}, "s2": {"value": 2.0, "cfg": {"g": 1, "h": 2}}}
        devices = {"dets": dets, "motors": {"m": {}}, "sigs": {}, "flyers": {}, "cfgsigs": cfgsigs}
        cfgkeys = {"a": ["x", "y"], "b": ["x"], "s1": ["x"], "s2": ["g", "h"]}
        readables = ["a", "b", "c", "m", "s1", "s2"]
        sigs = ["s1", "s2"]
        gid = [0]
        steps = []

        def add(node, guarded=True):
            steps.append((node, guarded))

        def configure(run, prefer=()):
            pool = [d for d in prefer if d in cfgkeys] * 3 + ["a", "b", "s1", "s2"]
            dev = draw(st.sampled_from(pool))
            ks = draw(st.lists(st.sampled_from(cfgkeys[dev]), min_size=1, max_size=2, unique=True))
            add(M("configure", dev, {k: draw(st.integers(0, 9)) for k in ks}, run=run))

        multi_case = draw(st.integers(0, 2)) == 0
        nepochs = draw(st.sampled_from([1, 1, 2]))
        for ep in range(nepochs):
            keys = ["A", "B"] if multi_case else [None]
            if multi_case and draw(st.integers(0, 4)) == 0:
                keys = ["A"]
            runs = {}
            for k in keys:
                add(M("open_run", run=k), guarded=False)
                runs[k] = r = {
                    "tmpl": {
                        "primary": draw(st.lists(st.sampled_from(readables), min_size=1, max_size=3, unique=True)),
                        "s2": draw(st.lists(st.sampled_from(readables), min_size=1, max_size=2, unique=True)),
                        "decl": draw(st.lists(st.sampled_from(readables), min_size=1, max_size=2, unique=True)),
                    },
                    "declared": False,
                    "monitored": set(),
                }
                if draw(st.integers(0, 9)) < 4:
                    r["declared"] = True
                    add(M("declare_stream", None, *[{"$dev": d} for d in r["tmpl"]["decl"]], name="decl", run=k))
                if draw(st.integers(0, 9)) < 5:
                    sg = draw(st.sampled_from(sigs))
                    r["monitored"].add(sg)
                    add(M("monitor", sg, name=f"mon_{sg}", run=k))
            for _ in range(draw(st.integers(3, 12))):
                k = draw(st.sampled_from(keys))
                r = runs[k]
                a = draw(st.integers(0, 15))
                if a < 6:
                    names = ["primary", "primary", "s2"] + (["decl", "decl"] if r["declared"] else [])
                    s = draw(st.sampled_from(names))
                    for n in _bundle(s, r["tmpl"][s], run=k, drop=draw(st.integers(0, 4)) == 0):
                        add(n)
                elif a < 10:
                    used = [d for rr in runs.values() for t in rr["tmpl"].values() for d in t] + [sg for rr in runs.values() for sg in rr["monitored"]]
                    configure(k, prefer=sorted(set(used)))
                elif a < 13:
                    gid[0] += 1
                    g = f"g{gid[0]}"
                    mon = sorted({sg for rr in runs.values() for sg in rr["monitored"]})
                    add(M("set", draw(st.sampled_from(mon * 3 + sigs)), float(draw(st.integers(-5, 5))), group=g, run=k))
                    add(M("wait", None, group=g, run=k))
                elif a == 13:
                    sg = draw(st.sampled_from(sigs))
                    if sg in r["monitored"]:
                        if draw(st.integers(0, 2)) == 0:
                            r["monitored"].discard(sg)
                            add(M("unmonitor", sg, run=k))
                    else:
                        r["monitored"].add(sg)
                        add(M("monitor", sg, name=f"mon_{sg}", run=k))
                elif a == 14:
                    if not r["declared"]:
                        r["declared"] = True
                        add(M("declare_stream", None, *[{"$dev": d} for d in r["tmpl"]["decl"]], name="decl", run=k))
                elif draw(st.booleans()):
                    add(M("checkpoint", run=k))
                else:
                    add(M("sleep", None, 0.1, run=k))
            for k in keys if draw(st.booleans()) else keys[::-1]:
                add(M("close_run", run=k))
            if ep + 1 < nepochs and draw(st.booleans()):
                configure(None)
        return make_case("gen", devices, steps)

    return _case()


def run(ctx):
    maxlen = ctx.pick(3, 5)
    cases = list(sweep_cases(maxlen))
    ctx.sweep(cases, check_case, timeout=4 * 3600)
    ctx.extra["sweep_cases"] = len(cases)
    ctx.exhaustive = True
    ctx.bound = (
        f"all sequences of <= {maxlen} operations over {{bundle primary[a,b], bundle s2[b,c], bundle decl[a,c], configure a, "
        "configure b, configure s1, set s1}} after open_run, declare_stream(decl), monitor(s1)"
    )
    ctx.hyp(strategy, check_case, max_examples=ctx.pick(3000, 40000), timeout=4 * 3600, tag="c16")


def replay(case):
    return check_case(case)
