"""C29 Adaptive and tuning scans terminate and stay within their range."""

from __future__ import annotations

import hashlib
import math
import struct

from ..core import Result, jsonable, unjson, use_repo

use_repo()

# imported here (in the parent) so that the forked worker processes inherit the loaded modules
import bluesky.plan_stubs  # noqa: E402,F401
import bluesky.plans  # noqa: E402,F401
import bluesky.simulators  # noqa: E402,F401
import hypothesis.strategies  # noqa: E402,F401

ID = "C29"
DESIGN_REF = "DESIGN.md §8 C29"
TECHNIQUE = (
    "Hypothesis-generated scan parameters x detector response functions (analytic families, hash noise, arbitrary "
    "per-read sequences, NaN/inf), plans driven by a responder under a parameter-derived runaway cap"
)
LEVEL_TEXT = (
    "adaptive_scan and tune_centroid are run message-by-message against generated detector responses; the run must "
    "finish within a message cap derived from the parameters (exceeding it is the non-termination verdict) and every "
    "commanded motor position must lie in [min(start,stop), max(start,stop)] (adaptive_scan: additionally never past "
    "stop; tune_centroid: including the final parking move, for finite non-negative signals)."
)
LEVEL_NOTE = (
    "Driven by vf/responder.py (the motor reads back its setpoint, moves finish instantly); termination is decided "
    "by a cap, i.e. 'terminates within the bound implied by min_step/threshold/step_factor', not a proof; the range "
    "tolerance is 1e-9 x |stop-start| + 64 ulp of the larger endpoint; signal magnitudes are 0 or >= 1e-6."
)
RULE = (
    "case = (plan, start != stop in either direction, 0 < min_step < max_step, range/min(min_step, initial step) <= "
    "2000, target_delta > 0, threshold in [0.1, 0.95], backstep; tune: num 2..12, step_factor in [1.05, 10], snake) x "
    "response spec (gauss/step/const/linear/noisy/seq/special). Non-trivial: adaptive - >= 3 points and a "
    "non-constant observed signal; tune - >= 2 passes (a centroid was computed and used). Distinct = canonical JSON."
)
ASSUMPTIONS = [
    "detectors is a list (adaptive_scan concatenates it with [motor])",
    "threshold >= 1 and num = 1 are outside the domain (the former can legitimately never advance)",
    "signals with NaN/inf or negative values carry no range claim for tune_centroid (statement: non-negative signals)",
]
ENGINE = "E2"

RANGE_TOL = 1e-9


# ------------------------------------------------------------------------------------------
# response functions (pure, JSON-specified)


def _hash01(seed, k):
    h = hashlib.sha256(f"{seed}:{k}".encode()).digest()
    return struct.unpack(">Q", h[:8])[0] / 2**64


def make_response(spec):
    """Returns fn(x, k) -> value for motor position x at the k-th read of the detector."""
    spec = unjson(spec)
    fam = spec["family"]
    if fam == "gauss":
        c, s, a, b = spec["center"], spec["sigma"], spec["amp"], spec.get("base", 0.0)

        def f(x, k):
            # tails are cut at 7 sigma so that no denormal-sized signal (exp(-700)) is ever produced
            z = (x - c) / s
            return b + a * math.exp(-0.5 * z * z) if abs(z) < 7 else b

    elif fam == "step":
        x0, lo, hi = spec["x0"], spec["low"], spec["high"]

        def f(x, k):
            return hi if x >= x0 else lo

    elif fam == "const":
        v = spec["value"]

        def f(x, k):
            return v

    elif fam == "linear":
        m, q = spec["slope"], spec["intercept"]

        def f(x, k):
            return m * x + q

    elif fam == "noisy":
        base = make_response(spec["base"])
        amp, seed = spec["amp"], spec["seed"]

        def f(x, k):
            return base(x, k) + amp * _hash01(seed, k)

    elif fam in ("seq", "special"):
        vals = spec["values"]

        def f(x, k):
            return vals[k % len(vals)]

    else:
        raise ValueError(fam)
    return f


def _signal_class(spec):
    """'nonneg' | 'signed' | 'nonfinite', decided from the spec alone (outcome independent)."""
    spec = unjson(spec)
    fam = spec["family"]
    if fam == "special":
        return "nonfinite"
    if fam == "seq":
        vals = spec["values"]
        if any(isinstance(v, float) and not math.isfinite(v) for v in vals):
            return "nonfinite"
        return "nonneg" if all(v >= 0 for v in vals) else "signed"
    if fam == "gauss":
        return "nonneg" if spec["amp"] >= 0 and spec.get("base", 0.0) >= 0 else "signed"
    if fam == "step":
        return "nonneg" if spec["low"] >= 0 and spec["high"] >= 0 else "signed"
    if fam == "const":
        return "nonneg" if spec["value"] >= 0 else "signed"
    if fam == "linear":
        return "signed"  # sign depends on x; no non-negativity promise
    if fam == "noisy":
        return _signal_class(spec["base"]) if spec["amp"] >= 0 else "signed"
    raise ValueError(fam)


# ------------------------------------------------------------------------------------------


def _adaptive_cap(p):
    rng = abs(p["stop"] - p["start"])
    step0 = (p["max_step"] - p["min_step"]) / 2
    adv = min(step0, p["min_step"])
    k = math.ceil(math.log(p["max_step"] / p["min_step"]) / math.log(1 / p["threshold"])) + 2
    points = (rng / adv + 2) * k
    return int(points) + 2


def _tune_cap(p):
    rng = abs(p["stop"] - p["start"])
    num = p["num"]
    step0 = rng / (num - 1)
    if step0 < p["min_step"]:
        passes = 0
    else:
        passes = math.ceil(math.log(step0 / p["min_step"]) / math.log(p["step_factor"])) + 2
    return passes, passes * (num + 1) + 2


def check_case(case) -> Result:
    import bluesky.plans as bp

    from .. import responder as R

    res = Result()
    plan_name = case["plan"]
    p = unjson(case["params"])
    spec = case["response"]
    sigclass = _signal_class(spec)
    start, stop = p["start"], p["stop"]
    lo, hi = min(start, stop), max(start, stop)
    rng = hi - lo
    direction = 1 if stop >= start else -1
    fn = make_response(spec)
    fam = unjson(spec)["family"]
    feats = {
        "plan": plan_name,
        "family": fam,
        "signal_class": sigclass,
        "descending": direction < 0,
        "backstep": bool(p.get("backstep", False)),
        "snake": bool(p.get("snake", False)),
    }

    motor = R.FakeMotor("mot", position=case.get("motor_init", 0.0))
    reads = [0]
    observed = []

    def det_value(det):
        k = reads[0]
        reads[0] += 1
        v = fn(R.motor_position(motor), k)
        observed.append(v)
        return v

    det = R.FakeDetector("sig", fn=det_value)
    dets = [det] + [R.FakeDetector(f"aux{i}") for i in range(case.get("n_aux", 0))]
    if case.get("det_last"):
        dets = dets[1:] + dets[:1]

    msgs_per_point = 12 + 3 * len(dets)
    if plan_name == "adaptive_scan":
        points_cap = _adaptive_cap(p)
        plan = bp.adaptive_scan(
            dets,
            "sig",
            motor,
            start,
            stop,
            p["min_step"],
            p["max_step"],
            p["target_delta"],
            p["backstep"],
            p["threshold"],
        )
        res.klass = f"adaptive/{fam}/{'desc' if direction < 0 else 'asc'}/backstep={int(bool(p['backstep']))}"
    elif plan_name == "tune_centroid":
        passes_cap, points_cap = _tune_cap(p)
        plan = bp.tune_centroid(
            dets, "sig", motor, start, stop, p["min_step"], p["num"], p["step_factor"], p["snake"]
        )
        res.klass = f"tune/{fam}/{'desc' if direction < 0 else 'asc'}/snake={int(bool(p['snake']))}"
    else:
        raise ValueError(plan_name)
    res.classes.append(f"signal={sigclass}")
    cap = 40 + points_cap * msgs_per_point

    resp = R.Responder()
    try:
        status, value = R.drive(plan, resp, cap=cap)
    except R.Runaway:
        n_sets = sum(1 for m in resp.trace if m.command == "set")
        return res.fail(
            "does_not_terminate",
            f"{plan_name} still running after {cap} messages ({n_sets} moves; bound from parameters: {points_cap} "
            f"points); last moves {[m.args[0] for m in resp.trace if m.command == 'set'][-4:]!r}",
            **feats,
        )
    if status == "raised":
        # the statement is about termination and range; an exception is a termination, but on
        # documented-valid parameters it is unexpected for finite signals
        if sigclass == "nonfinite":
            res.classes.append("raised_on_nonfinite")
            return res
        return res.fail("plan_raised", f"{type(value).__name__}: {value}", **feats)

    sets = [m for m in resp.trace if m.command == "set"]
    if any(m.obj is not motor for m in sets):
        return res.fail("foreign_set", "set on an object other than the motor", **feats)
    positions = [m.args[0] for m in sets]
    n_points = sum(1 for m in resp.trace if m.command == "save")
    res.obs = {"points": n_points, "moves": len(positions)}

    # 1e-9 of the range plus the rounding error of a <= 13-term weighted mean of positions
    tol = RANGE_TOL * rng + 64 * 2.3e-16 * max(abs(lo), abs(hi))
    range_claim = plan_name == "adaptive_scan" and sigclass != "nonfinite" or (
        plan_name == "tune_centroid" and sigclass == "nonneg"
    )
    if range_claim:
        for i, x in enumerate(positions):
            xf = float(x)
            is_final_park = plan_name == "tune_centroid" and i == len(positions) - 1 and i >= n_points
            if not (lo - tol <= xf <= hi + tol):  # also catches NaN
                return res.fail(
                    "out_of_range",
                    f"move #{i} to {xf!r} is outside [{lo}, {hi}]" + (" (final parking move)" if is_final_park else ""),
                    final_park=is_final_park,
                    **feats,
                )
            if plan_name == "adaptive_scan" and (xf - stop) * direction > 0:
                return res.fail("beyond_stop", f"move #{i} to {xf!r} is beyond stop={stop}", **feats)
    else:
        res.classes.append("termination_only")

    if plan_name == "adaptive_scan":
        varied = len({repr(v) for v in observed}) > 1
        res.nontrivial = n_points >= 3 and varied
    else:
        parked = len(positions) > n_points
        res.nontrivial = parked and n_points > p["num"]
        if parked:
            res.classes.append("tune_parked")
    return res


# ------------------------------------------------------------------------------------------


def _strategy():
    from hypothesis import strategies as st

    fin = st.floats(-1e3, 1e3, allow_nan=False, allow_infinity=False)

    @st.composite
    def response(draw, lo, hi, tune):
        rng = hi - lo
        fams = ["gauss", "gauss", "step", "const", "linear", "noisy", "seq", "seq", "special"]
        fam = draw(st.sampled_from(fams))
        # magnitudes are either exactly 0 or >= 1e-6: denormal-sized signals make x*I underflow,
        # which is a property of IEEE arithmetic, not of the plans
        def _san(v):
            return 0.0 if abs(v) < 1e-6 else v

        pos_amp = st.floats(0, 1e6, allow_nan=False).map(_san)
        any_amp = st.floats(-1e6, 1e6, allow_nan=False).map(_san)
        amp = pos_amp if (tune and draw(st.integers(0, 3)) > 0) else any_amp
        if fam == "gauss":
            return {
                "family": "gauss",
                "center": draw(st.floats(lo - 0.2 * rng, hi + 0.2 * rng, allow_nan=False)),
                "sigma": draw(st.floats(rng / 500, rng, allow_nan=False).filter(lambda s: s > 0)),
                "amp": draw(amp),
                "base": draw(st.sampled_from([0.0, 0.0, 1.0, 100.0])),
            }
        if fam == "step":
            return {
                "family": "step",
                "x0": draw(st.floats(lo, hi, allow_nan=False)),
                "low": draw(amp),
                "high": draw(amp),
            }
        if fam == "const":
            return {"family": "const", "value": draw(st.one_of(st.sampled_from([0, 0.0, 1, 5.5, -2.0]), amp))}
        if fam == "linear":
            return {"family": "linear", "slope": draw(fin), "intercept": draw(fin)}
        if fam == "noisy":
            base = draw(st.sampled_from(["gauss", "const", "step"]))
            if base == "gauss":
                b = {
                    "family": "gauss",
                    "center": draw(st.floats(lo, hi, allow_nan=False)),
                    "sigma": draw(st.floats(rng / 100, rng, allow_nan=False).filter(lambda s: s > 0)),
                    "amp": draw(pos_amp),
                    "base": 0.0,
                }
            elif base == "const":
                b = {"family": "const", "value": draw(pos_amp)}
            else:
                b = {"family": "step", "x0": draw(st.floats(lo, hi, allow_nan=False)), "low": 0.0, "high": draw(pos_amp)}
            return {"family": "noisy", "base": b, "amp": draw(pos_amp), "seed": draw(st.integers(0, 2**32))}
        if fam == "seq":
            elem = st.one_of(
                st.integers(0, 1000),
                st.floats(0, 1e9, allow_nan=False).map(_san),
                st.sampled_from([0, 0.0, 1, 1e-6, 1e12]),
            )
            if not tune or draw(st.integers(0, 3)) == 0:
                elem = st.one_of(elem, st.floats(-1e9, 1e9, allow_nan=False).map(_san), st.integers(-1000, 1000))
            return {"family": "seq", "values": draw(st.lists(elem, min_size=1, max_size=24))}
        elem = st.one_of(
            st.sampled_from([float("nan"), float("inf"), float("-inf")]),
            st.floats(-1e9, 1e9, allow_nan=False),
            st.just(0.0),
        )
        vals = draw(st.lists(elem, min_size=1, max_size=12))
        if not any(isinstance(v, float) and not math.isfinite(v) for v in vals):
            vals.append(draw(st.sampled_from([float("nan"), float("inf"), float("-inf")])))
        return {"family": "special", "values": vals}

    @st.composite
    def cases(draw):
        plan = draw(st.sampled_from(["adaptive_scan", "tune_centroid"]))
        a = draw(st.one_of(st.integers(-100, 100), st.floats(-1e3, 1e3, allow_nan=False)))
        rng = draw(st.one_of(st.integers(1, 50), st.floats(1e-3, 1e3, allow_nan=False)))
        sign = draw(st.sampled_from([1, 1, -1]))
        start, stop = a, a + sign * rng
        if start == stop:
            stop = start + 1.0
        lo, hi = min(start, stop), max(start, stop)
        rng = hi - lo
        case = {"plan": plan}
        if plan == "adaptive_scan":
            # min_step: range / (3..300); max_step = ratio * min_step with ratio in (1, 100]
            min_step = rng / draw(st.floats(3, 300, allow_nan=False))
            ratio = draw(st.one_of(st.floats(1.3, 100, allow_nan=False), st.floats(1.01, 3, allow_nan=False)))
            max_step = min_step * ratio
            if not (0 < min_step < max_step):
                max_step = min_step * 2
            step0 = (max_step - min_step) / 2
            # keep the worst-case walk bounded
            if rng / min(step0, min_step) > 2000:
                max_step = min_step * 1.5
            params = {
                "start": start,
                "stop": stop,
                "min_step": min_step,
                "max_step": max_step,
                "target_delta": draw(st.one_of(st.floats(1e-3, 1e3, allow_nan=False), st.sampled_from([0.05, 1, 10]))),
                "backstep": draw(st.booleans()),
                "threshold": draw(st.floats(0.1, 0.95, allow_nan=False)),
            }
        else:
            num = draw(st.integers(2, 12))
            min_step = rng / draw(st.floats(2, 300, allow_nan=False))
            params = {
                "start": start,
                "stop": stop,
                "min_step": min_step,
                "num": num,
                "step_factor": draw(st.one_of(st.floats(1.05, 10, allow_nan=False), st.sampled_from([1.5, 2, 3.0]))),
                "snake": draw(st.booleans()),
            }
        case["params"] = jsonable(params)
        case["response"] = jsonable(draw(response(lo, hi, plan == "tune_centroid")))
        case["n_aux"] = draw(st.integers(0, 1))
        case["det_last"] = draw(st.booleans())
        case["motor_init"] = draw(st.sampled_from([0.0, 1e6, -3.5]))
        return case

    return cases()


def run(ctx):
    ctx.hyp(_strategy, check_case, max_examples=ctx.pick(4000, 200000))


def replay(case):
    return check_case(case)
