"""C26 Snaked grids are a continuous back-and-forth ordering of the full grid."""

from __future__ import annotations

import itertools

from ..core import Result, use_repo

use_repo()

ID = "C26"
DESIGN_REF = "DESIGN.md §8 C26"
TECHNIQUE = "exhaustive enumeration of small grids + Hypothesis-generated larger grids against a nested-loop reference"
LEVEL_TEXT = (
    "Differential check of snake_cyclers / outer_product / outer_list_product against an independent nested-loop "
    "reference plus permutation and continuity predicates; complete for 1-4 axes with lengths 1-4 and every snake "
    "vector, random beyond that."
)
LEVEL_NOTE = "Trusts cycler's iteration; axis values are small integers / linspace floats; exploration, not proof."
RULE = (
    "case = (entry point, axis lengths, snake flags, keys per axis). Enumerated exhaustively for <=4 axes x lengths "
    "1..4 (all 2^n snake vectors, three entry points), then Hypothesis for up to 6 axes / length 7. Non-trivial: at "
    "least one snaked axis that is not the slowest, has length >= 2 and has a slower axis of length >= 2 (so a "
    "reversal actually happens). Distinct = distinct canonical JSON of the case."
)
ASSUMPTIONS = [
    "axis values are distinct per axis so a point identifies its grid index",
    "the first snake flag is ignored by the code and by the reference (documented)",
]


def _reference(lengths, snakes):
    """Independent nested-loop reference: one direction flag per snaked axis, flipped whenever a
    slower axis advances.  Returns the list of index tuples."""
    n = len(lengths)
    out = []
    idx = [0] * n
    direction = [1] * n

    def rec(axis):
        if axis == n:
            out.append(tuple(idx))
            return
        L = lengths[axis]
        rng = range(L) if direction[axis] == 1 else range(L - 1, -1, -1)
        for i in rng:
            idx[axis] = i
            rec(axis + 1)
        # this axis completed a pass: it is about to be re-entered after a slower axis advances
        if axis > 0 and snakes[axis]:
            direction[axis] = -direction[axis]

    rec(0)
    return out


class _M:
    """Hashable stand-in for a motor (cycler keys must be hashable; outer_product wants movables)."""

    def __init__(self, name):
        self.name = name
        self.parent = None
        self.position = 0

    def set(self, v):  # makes is_movable() true
        raise NotImplementedError

    def read(self):
        raise NotImplementedError

    def describe(self):
        raise NotImplementedError

    def stop(self, success=True):
        pass

    def __repr__(self):
        return self.name


def check_case(case) -> Result:
    from cycler import cycler

    from bluesky import plan_patterns
    from bluesky.utils import snake_cyclers

    entry = case["entry"]
    lengths = list(case["lengths"])
    snakes = [bool(s) for s in case["snakes"]]
    nkeys = list(case.get("nkeys", [1] * len(lengths)))
    n = len(lengths)
    res = Result()
    eff = [False] + snakes[1:]
    res.nontrivial = any(eff[i] and lengths[i] >= 2 and any(L >= 2 for L in lengths[:i]) for i in range(1, n))
    res.klass = f"{entry}/axes={n}/snaked={sum(eff)}"

    # axis values: axis a, index i -> 100*a + i  (distinct within an axis)
    def val(a, i, k=0):
        return 100 * a + i + 1000 * k

    motors = [[_M(f"m{a}_{k}") for k in range(nkeys[a])] for a in range(n)]
    try:
        if entry == "snake_cyclers":
            cyclers = []
            for a in range(n):
                c = None
                for k, m in enumerate(motors[a]):
                    ck = cycler(m, [val(a, i, k) for i in range(lengths[a])])
                    c = ck if c is None else c + ck
                cyclers.append(c)
            cyc = snake_cyclers(cyclers, snakes)
        elif entry == "outer_list_product":
            args = []
            for a in range(n):
                args += [motors[a][0], [val(a, i) for i in range(lengths[a])]]
            mode = case.get("snake_mode", "list")
            if mode == "list":
                snake_axes = [motors[a][0] for a in range(n) if snakes[a]]
            else:
                snake_axes = bool(mode == "true")
                eff = [False] + [snake_axes] * (n - 1)
            cyc = plan_patterns.outer_list_product(args, snake_axes)
            if mode == "list":
                # in list form the slowest axis may be named too; the code passes it through
                eff = [False] + snakes[1:]
        elif entry == "outer_product":
            args = []
            for a in range(n):
                # linspace(start, stop, num): use start=100a, stop=100a+L-1 so values are integers
                L = lengths[a]
                args += [motors[a][0], float(val(a, 0)), float(val(a, L - 1)), L]
                if a > 0:
                    args.append(bool(snakes[a]))
            cyc = plan_patterns.outer_product(args)
        else:
            raise ValueError(entry)
    except Exception as e:  # construction must not fail on valid arguments
        return res.fail("construction_raised", f"{type(e).__name__}: {e}")

    ref = _reference(lengths, eff)
    pts = list(cyc)
    # decode each point to an index tuple
    got = []
    for p in pts:
        tup = []
        for a in range(n):
            vals = []
            for k, m in enumerate(motors[a]):
                if m not in p:
                    return res.fail("missing_key", f"point {p} lacks key {m}")
                v = float(p[m])
                i = v - val(a, 0, k)
                vals.append(i)
            if any(abs(v - round(vals[0])) > 1e-9 for v in vals):
                return res.fail("inconsistent_keys", f"keys of axis {a} disagree or off-grid in point {p}")
            tup.append(int(round(vals[0])))
        got.append(tuple(tup))

    if len(got) != len(ref):
        return res.fail("wrong_length", f"expected {len(ref)} points, got {len(got)}")
    full = set(itertools.product(*[range(L) for L in lengths]))
    if set(got) != full or len(set(got)) != len(got):
        return res.fail("not_a_permutation", f"lengths={lengths} snakes={eff}: points are not a permutation of the grid")
    if got != ref:
        first = next(i for i, (g, r) in enumerate(zip(got, ref)) if g != r)
        return res.fail(
            "differs_from_reference",
            f"lengths={lengths} snakes={eff}: first difference at point {first}: got {got[first]}, reference {ref[first]}",
        )
    # continuity predicate, stated independently of the reference
    for a, b in zip(got, got[1:]):
        changed = [i for i in range(n) if a[i] != b[i]]
        j = changed[0]
        if b[j] - a[j] not in (1, -1):
            return res.fail("jump", f"axis {j} jumps from {a} to {b}")
        for k in range(j + 1, n):
            if eff[k] and a[k] != b[k]:
                return res.fail("snaked_axis_moved", f"snaked axis {k} moved when slower axis {j} advanced: {a}->{b}")
            if not eff[k] and lengths[k] > 1 and b[k] != 0:
                return res.fail("unsnaked_axis_not_reset", f"unsnaked axis {k} not restarted: {a}->{b}")
    return res


def _exhaustive_cases(max_axes, max_len):
    for n in range(1, max_axes + 1):
        for lengths in itertools.product(range(1, max_len + 1), repeat=n):
            for snakes in itertools.product([False, True], repeat=n):
                yield {"entry": "snake_cyclers", "lengths": list(lengths), "snakes": list(snakes)}
                if snakes[0] is False or n == 1:
                    yield {"entry": "outer_product", "lengths": list(lengths), "snakes": list(snakes)}
                yield {"entry": "outer_list_product", "lengths": list(lengths), "snakes": list(snakes), "snake_mode": "list"}


def _strategy():
    from hypothesis import strategies as st

    @st.composite
    def cases(draw):
        n = draw(st.integers(1, 6))
        lengths = draw(st.lists(st.integers(1, 7), min_size=n, max_size=n))
        # keep total size bounded
        total = 1
        for i, L in enumerate(lengths):
            if total * L > 4000:
                lengths[i] = 1
            total *= lengths[i]
        snakes = draw(st.lists(st.booleans(), min_size=n, max_size=n))
        entry = draw(st.sampled_from(["snake_cyclers", "outer_product", "outer_list_product"]))
        case = {"entry": entry, "lengths": lengths, "snakes": snakes}
        if entry == "snake_cyclers":
            case["nkeys"] = draw(st.lists(st.integers(1, 2), min_size=n, max_size=n))
        if entry == "outer_list_product":
            case["snake_mode"] = draw(st.sampled_from(["list", "true", "false"]))
        if entry == "outer_product":
            case["snakes"][0] = False
        return case

    return cases()


def run(ctx):
    if ctx.quick:
        cases = list(_exhaustive_cases(4, 3)) + list(_exhaustive_cases(3, 4))
        ctx.bound = "all grids with <=4 axes of length 1..3 and <=3 axes of length 1..4, every snake vector, 3 entry points"
    else:
        cases = list(_exhaustive_cases(4, 4)) + list(_exhaustive_cases(3, 6)) + list(_exhaustive_cases(5, 3))
        ctx.bound = "all grids with <=4 axes of length 1..4, <=3 axes of length 1..6, <=5 axes of length 1..3, every snake vector, 3 entry points"
    # de-duplicate
    seen = {}
    for c in cases:
        seen.setdefault(repr(c), c)
    ctx.sweep(list(seen.values()), check_case)
    ctx.exhaustive = True
    ctx.hyp(_strategy, check_case, max_examples=ctx.pick(1500, 20000))
    ctx.extra["exhaustive_part"] = len(seen)


def replay(case):
    return check_case(case)
