"""C13 Each yield receives the response to its own message."""

from __future__ import annotations

import copy

from ..core import use_repo

use_repo()

from ..engine import corpus, e1common, e1oracles  # noqa: E402

ID = "C13"
ENGINE = "E1"
DESIGN_REF = "DESIGN.md §8 C13"
TECHNIQUE = "schedule enumeration + Hypothesis-generated plans (wrappers, SupplementalData-style preprocessors, suspender helper plans, pause/resume) with a plan-side tap; each delivered value is matched by identity/equality against the results of that message's own executions in the device ledger and document stream"
LEVEL_TEXT = (
    "Every value sent into the plan is recorded by a transparent tap around the plan and compared with what the "
    "executions of that very message produced: the reading/status/location object returned by the device call made "
    "while that message executed (identity), the start uid emitted by that open_run, the run_start of that close_run's "
    "stop, True for wait, None for response-less commands, under rewinds, suspender helper plans and wrappers. RE(...) "
    "must return the start uids in open order and, with call_returns_result, the plan's return value."
)
LEVEL_NOTE = "Device calls are attributed to the message hooked immediately before them (ledger positions sampled in msg_hook)."
RULE = (
    "case = (plan, stages, injections, call_returns_result). Sweep: pause+resume / suspend at every callback boundary of "
    "the corpus; Hypothesis profile 'replay' with both call_returns_result values. Non-trivial: a rewind or helper plan "
    "executed between a yield and its resumption (the message was replayed or was in flight at an interruption). "
    "Distinct = canonical JSON."
    " Also every yield as the plan's own code sees it inside its preprocessors (identical to what came back for that message outside; None for messages deleted by stub_wrapper / a dropping msg_mutator)."
)
ASSUMPTIONS = ["requests arrive at boundaries between event-loop callbacks"]

check_case = e1common.make_check(e1oracles.oracle_c13)


def run(ctx):
    names = corpus.corpus_names(ctx.tier)
    cases = []
    for i, c in enumerate(corpus.single_request_cases(names, ("pause", "suspend", "defer"), decisions=("resume",))):
        if i % 2:
            c["re"] = {"call_returns_result": True}
        cases.append(c)
    if ctx.quick:
        cases = [c for i, c in enumerate(cases) if i % 2 == ctx.seed % 2]
    ctx.sweep(cases, check_case)
    ctx.extra["sweep_cases"] = len(cases)
    e1common.generated(ctx, check_case, n=ctx.pick(600, 30000), profile="replay_crr")


def deleting_wrapper_cases():
    """Plans under message-deleting preprocessors (stub_wrapper, a msg_mutator that drops marked nulls): the deleted
    yields come right after yields with rich responses (Status, True, readings)."""
    from hypothesis import strategies as st

    from ..engine import plangen
    from ..engine.planlang import M, SEQ

    @st.composite
    def gen(draw):
        gid = [0]

        def frag():
            k = draw(st.integers(0, 7))
            gid[0] += 1
            g = f"h{gid[0]}"
            if k == 0:
                return [M("set", draw(st.sampled_from(["m1", "m2"])), float(draw(st.integers(-2, 2))), group=g)]
            if k == 1:
                return [M("set", "m1", 0.5, group=g), M("wait", None, group=g)]
            if k == 2:
                return [M("trigger", "d1", group=g), M("wait", None, group=g)]
            if k == 3:
                return [M("read", draw(st.sampled_from(["d1", "d2", "m1"])))]
            if k == 4:
                return [M("null", None, "dropme")]
            if k == 5:
                d = draw(st.sampled_from(["d1", "d2"]))
                return [M("stage", d), M("null", None, "x"), M("unstage", d)]
            if k == 6:
                return [M("open_run", None, tag="inner"), M("null", None, "y"), M("close_run")]
            return [M("null", None, draw(st.integers(0, 9))), M("sleep", None, 0.0)]

        def block(depth):
            nodes = []
            for _ in range(draw(st.integers(2, 6))):
                if depth < 2 and draw(st.integers(0, 4)) == 0:
                    nodes.append(block(depth + 1))
                else:
                    nodes += frag()
            return ["wrap", draw(st.sampled_from(["stub", "drop_null", "drop_null"])), {}, SEQ(*nodes)]

        body = [block(0)]
        if draw(st.booleans()):
            body = [M("open_run", None, tag="outer"), M("checkpoint")] + body + [M("close_run")]
        case = {"name": "gen:deleting_wrappers", "plan": SEQ(*body), "devices": copy.deepcopy(plangen.DEVICES), "probe": True, "stages": [{"do": "call"}]}
        if draw(st.booleans()):
            case["re"] = {"call_returns_result": True}
        return case

    return gen()


_run0 = run


def run(ctx):  # noqa: F811
    _run0(ctx)
    ctx.hyp(deleting_wrapper_cases, check_case, max_examples=ctx.pick(400, 10000), tag="del")


def replay(case):
    return check_case(case)
