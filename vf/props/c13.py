"""C13 Each yield receives the response to its own message."""

from __future__ import annotations

from ..core import use_repo

use_repo()

from ..engine import corpus, e1common, e1oracles  # noqa: E402

ID = "C13"
ENGINE = "E1"
DESIGN_REF = "DESIGN.md §8 C13"
TECHNIQUE = "schedule enumeration + Hypothesis-generated plans (wrappers, SupplementalData-style preprocessors, suspender helper plans, pause/resume) with a plan-side tap; each delivered value is matched by identity/equality against the results of that message's own executions in the device ledger and document stream"
LEVEL_TEXT = (
    "Every value sent into the plan is recorded by a transparent tap around the plan and compared with what the "
    "executions of that very message produced: the reading/status/location object returned by the device call made "
    "while that message executed (identity), the start uid emitted by that open_run, the run_start of that close_run's "
    "stop, True for wait, None for response-less commands, under rewinds, suspender helper plans and wrappers. RE(...) "
    "must return the start uids in open order and, with call_returns_result, the plan's return value."
)
LEVEL_NOTE = "Device calls are attributed to the message hooked immediately before them (ledger positions sampled in msg_hook)."
RULE = (
    "case = (plan, stages, injections, call_returns_result). Sweep: pause+resume / suspend at every callback boundary of "
    "the corpus; Hypothesis profile 'replay' with both call_returns_result values. Non-trivial: a rewind or helper plan "
    "executed between a yield and its resumption (the message was replayed or was in flight at an interruption). "
    "Distinct = canonical JSON."
)
ASSUMPTIONS = ["requests arrive at boundaries between event-loop callbacks"]

check_case = e1common.make_check(e1oracles.oracle_c13)


def run(ctx):
    names = corpus.corpus_names(ctx.tier)
    cases = []
    for i, c in enumerate(corpus.single_request_cases(names, ("pause", "suspend", "defer"), decisions=("resume",))):
        if i % 2:
            c["re"] = {"call_returns_result": True}
        cases.append(c)
    if ctx.quick:
        cases = [c for i, c in enumerate(cases) if i % 2 == ctx.seed % 2]
    ctx.sweep(cases, check_case)
    ctx.extra["sweep_cases"] = len(cases)
    e1common.generated(ctx, check_case, n=ctx.pick(600, 30000), profile="replay_crr")


def replay(case):
    return check_case(case)
