"""C07 RunEngine lifecycle never takes an illegal transition or gets stuck."""

from __future__ import annotations

from ..core import use_repo

use_repo()

from ..engine import corpus, e1common, e1oracles  # noqa: E402

ID = "C07"
ENGINE = "E1"
DESIGN_REF = "DESIGN.md §8 C07"
TECHNIQUE = "exhaustive enumeration of request schedules (every loop-callback boundary x request kind x decision, request pairs in the thorough tier) against the real RunEngine on a harness-owned loop, plus Hypothesis-generated plans and schedules; invariant over the observed state history"
LEVEL_TEXT = (
    "Every single request (pause, deferred pause, suspend, abort, stop, halt) at every loop-callback boundary of each "
    "corpus plan, every post-pause decision sequence, ordered request pairs (thorough) and generated plans/schedules are "
    "executed on the real engine. The observed state_hook history must follow the declared transition table; after every "
    "blocking call the state must be idle or paused, never panicked; a quiescent loop with a pending call is reported as "
    "stuck (exact, no timeout); a probe call must succeed afterwards."
)
LEVEL_NOTE = (
    "Replaces the abstract-model clause of the property by exhaustive schedule enumeration against the implementation "
    "for a bounded corpus (exploration). Requests are totally ordered by arrival handle; intra-callback arrivals and "
    "true multi-core races are not explored."
)
RULE = (
    "case = (plan, stages, injections at loop-callback index k or message index+offset). Sweep: every k in [0, handles+3) "
    "x {pause,defer}x{resume,abort,stop,halt} + 2 suspend variants + abort/stop/halt for each corpus plan (complete for the "
    "tier's corpus); thorough adds ordered request pairs on three plans; plus Hypothesis-generated cases. Non-trivial: a "
    "request arrived in a non-running state or within 3 loop callbacks of a state change. Distinct = canonical JSON."
    ' Also Pausable detectors whose pause()/resume() hooks fail and motors whose stop() is a coroutine that really suspends.'
)
ASSUMPTIONS = [
    "requests arrive at boundaries between event-loop callbacks",
    "stuck = loop quiescent (no ready callbacks, no timers, no helper threads) while a blocking call is pending",
    "the transition table is the one the code declares (RunEngineStateMachine.Meta.transitions)",
]
KINDS = ("pause", "defer", "suspend", "abort", "stop", "halt")

check_case = e1common.make_check(e1oracles.oracle_c07)


def pair_cases(names, kinds, step):
    for name in names:
        n = corpus.n_handles(name)
        for k1 in range(0, n + 2, step):
            for d in (0, 1, 2, 3, 5, 8):
                for a in kinds:
                    for b in kinds:
                        c = corpus.base_case(name)
                        c["stages"] = [
                            {"do": "call", "inj": [_inj(a, k1), _inj(b, k1 + d)]},
                            {"do": "resume"},
                            {"do": "resume"},
                        ]
                        c["probe"] = True
                        yield c


def _inj(kind, k):
    i = {"at": k, "do": kind}
    if kind == "suspend":
        i["release_after"] = 0.3
    return i


def run(ctx):
    names = corpus.corpus_names(ctx.tier)
    cases = list(corpus.single_request_cases(names, KINDS))
    if ctx.quick:
        # complete for two small plans, every third schedule (rotating with the seed) for the rest
        small = {"count2", "try_finally"}
        cases = [c for i, c in enumerate(cases) if c["name"] in small or i % 4 == ctx.seed % 4]
        ctx.bound = "every single request at every callback boundary of count2 and try_finally (complete); 1/4 of the other corpus plans"
    else:
        ctx.bound = "every single request at every callback boundary of the whole corpus; request pairs on count2, try_finally, nonresumable"
        cases += list(pair_cases(["count2", "try_finally", "nonresumable"], KINDS, step=1))
    ctx.exhaustive = True
    ctx.sweep(cases, check_case)
    ctx.extra["sweep_cases"] = len(cases)
    if ctx.quick:
        # a slice of request pairs
        pairs = list(pair_cases(["count2"], ("pause", "suspend", "abort", "halt"), step=3))
        ctx.sweep(pairs, check_case)
        ctx.extra["pair_cases"] = len(pairs)
    e1common.generated(ctx, check_case, n=ctx.pick(500, 20000), profile="lifecycle")
    # Pausable devices whose pause()/resume() hooks may raise: the error exits out of 'pausing' and out of resume()
    e1common.generated(ctx, check_case, n=ctx.pick(300, 8000), profile="lifecycle_pausefault")


def replay(case):
    return check_case(case)
