"""C34 JSON writers produce files that parse back to the documents."""

from __future__ import annotations

import json
import os
import shutil
import tempfile

from ..core import Result, use_repo

use_repo()

ID = "C34"
DESIGN_REF = "DESIGN.md §8 C34"
TECHNIQUE = "Hypothesis-generated document sequences and pre-existing files, round-trip oracle on the written bytes"
LEVEL_TEXT = (
    "Round-trip check of JSONWriter / JSONLinesWriter on generated runs: the file is read back as bytes, parsed with "
    "the json module and compared record by record (and line by line, byte-prefix for earlier content) with the "
    "documents that were fed in."
)
LEVEL_NOTE = (
    "Trusts json.loads as the parser; documents are JSON-native values (str keys, finite floats); exploration, not proof."
)
RULE = (
    "case = (writer, explicit or uid-derived file name, pre-existing file bytes, 1..3 runs of [name, doc] pairs). Runs "
    "are either event-model runs from vf.docgen or start/arbitrary-JSON/stop sequences (nested values, control and "
    "non-ASCII characters, huge ints). JSONWriter gets one run (optionally over a stale file of the same name); "
    "JSONLinesWriter gets 1..3 runs through one or several writer objects onto newline-terminated prior content. "
    "Non-trivial: at least one document between start and stop and, for JSON Lines, prior content or >= 2 runs; or a "
    "document containing a newline / quote / non-ASCII character. Distinct = distinct canonical JSON of the case."
    ' For JSONLinesWriter the file must hold one more appended line after every single document.'
)
ASSUMPTIONS = [
    "documents are JSON-compatible: str keys, finite floats (NaN/inf excluded), lists not tuples",
    "one run per JSONWriter (its docstring); a JSONLinesWriter whose name is derived sees a start document first",
    "pre-existing JSON Lines content ends with a newline (or is empty)",
]
ENGINE = "E3"

_SPECIAL = set('\n\r"\\')


def _has_special(x):
    if isinstance(x, str):
        return any(c in _SPECIAL or ord(c) > 127 or ord(c) < 32 for c in x)
    if isinstance(x, dict):
        return any(_has_special(k) or _has_special(v) for k, v in x.items())
    if isinstance(x, list):
        return any(_has_special(v) for v in x)
    return False


def _strict_loads(s):
    def bad_constant(c):
        raise ValueError(f"non-JSON constant {c}")

    return json.loads(s, parse_constant=bad_constant)


def check_case(case) -> Result:
    from bluesky.callbacks.json_writer import JSONLinesWriter, JSONWriter

    res = Result()
    writer = case["writer"]
    runs = case["runs"]
    filename = case.get("filename")
    pre = case.get("preexisting")  # str (utf-8 encoded to bytes) or None
    shared_writer = case.get("shared_writer", True)
    ndocs = sum(len(r) for r in runs)
    inner = any(len(r) > 2 for r in runs)
    special = _has_special(runs)
    if writer == "json":
        res.nontrivial = inner or special
    else:
        res.nontrivial = (inner and (bool(pre) or len(runs) >= 2)) or special
    res.klass = f"{writer}/{'named' if filename else 'derived'}/pre={'y' if pre else 'n'}/runs={len(runs)}"
    if special:
        res.classes.append("special_chars")
    feats = {"writer": writer, "preexisting": bool(pre), "n_runs": len(runs)}

    d = tempfile.mkdtemp(prefix="vf_c34_")
    try:
        first_uid = runs[0][0][1]["uid"]
        ext = ".json" if writer == "json" else ".jsonl"
        expected_name = filename or (first_uid.split("-")[0] + ext)
        path = os.path.join(d, expected_name)
        pre_bytes = b""
        if pre is not None:
            pre_bytes = pre.encode("utf-8")
            with open(path, "wb") as f:
                f.write(pre_bytes)
        cls = JSONWriter if writer == "json" else JSONLinesWriter
        w = cls(d, filename)
        fed = []
        for ri, run in enumerate(runs):
            if ri and not shared_writer:
                # a fresh writer object pointed at the same file
                w = cls(d, expected_name)
            for name, doc in run:
                try:
                    w(name, doc)
                except Exception as e:
                    return res.fail("writer_raised", f"{type(e).__name__}: {e} on {name}", **feats)
                fed.append({"name": name, "doc": doc})
                if writer == "jsonl":
                    # nothing lost at any point: earlier content is a prefix after every call
                    with open(path, "rb") as f:
                        now = f.read()
                    if not now.startswith(pre_bytes):
                        return res.fail(
                            "earlier_content_lost", f"after document #{len(fed)} the prior bytes are no longer a prefix", **feats
                        )
                    # one line per document, appended when the document is written (the file is what survives a
                    # run that never sees its stop document)
                    n_lines = now[len(pre_bytes) :].count(b"\n")
                    if n_lines != len(fed):
                        return res.fail(
                            "line_not_appended_with_its_document",
                            f"after document #{len(fed)} ({name}) the file holds {n_lines} appended line(s)",
                            **feats,
                        )
        files = sorted(os.listdir(d))
        if files != [expected_name]:
            return res.fail("unexpected_files", f"expected exactly [{expected_name!r}], directory has {files!r}", **feats)
        with open(path, "rb") as f:
            raw = f.read()
        try:
            text = raw.decode("utf-8")
        except UnicodeDecodeError as e:
            return res.fail("not_utf8", str(e), **feats)
        if writer == "json":
            try:
                got = _strict_loads(text)
            except ValueError as e:
                return res.fail("file_not_json", f"{e}; file starts {text[:120]!r}", **feats)
            if not isinstance(got, list):
                return res.fail("not_an_array", f"top level is {type(got).__name__}", **feats)
            if got != fed:
                n = next((i for i, (a, b) in enumerate(zip(got, fed)) if a != b), min(len(got), len(fed)))
                return res.fail(
                    "records_differ",
                    f"{len(got)} records read, {len(fed)} written; first difference at #{n}: "
                    f"read {got[n] if n < len(got) else None!r} wrote {fed[n] if n < len(fed) else None!r}",
                    **feats,
                )
        else:
            if not raw.startswith(pre_bytes):
                return res.fail("earlier_content_lost", "the prior bytes are not a prefix of the final file", **feats)
            tail = raw[len(pre_bytes) :].decode("utf-8")
            if ndocs and not tail.endswith("\n"):
                return res.fail("last_line_unterminated", f"appended part ends with {tail[-20:]!r}", **feats)
            lines = tail.split("\n")[:-1] if tail else []
            if len(lines) != len(fed):
                return res.fail("line_count", f"{len(fed)} documents written, {len(lines)} lines appended", **feats)
            for i, (line, rec) in enumerate(zip(lines, fed)):
                try:
                    got = _strict_loads(line)
                except ValueError as e:
                    return res.fail("line_not_json", f"line {i}: {e}: {line[:120]!r}", **feats)
                if got != rec:
                    return res.fail("records_differ", f"line {i}: read {got!r}, wrote {rec!r}", **feats)
        return res
    finally:
        shutil.rmtree(d, ignore_errors=True)


def _strategy():
    from hypothesis import strategies as st

    from .. import docgen

    @st.composite
    def generic_run(draw, idx):
        h = draw(st.integers(0, 16**8 - 1))
        uid = f"{h:08x}-{idx:04d}-4000-8000-000000000000"
        start = dict(draw(docgen.json_objects(max_leaves=6, max_size=3)))
        start["uid"] = uid
        names = st.sampled_from(["descriptor", "event", "event_page", "datum", "resource", "stream_datum", "bulk_events"])
        mid = draw(st.lists(st.tuples(names, docgen.json_objects(max_leaves=8, max_size=4)), max_size=5))
        stop = dict(draw(docgen.json_objects(max_leaves=4, max_size=2)))
        stop["run_start"] = uid
        return [["start", start]] + [[n, d] for n, d in mid] + [["stop", stop]]

    @st.composite
    def cases(draw):
        writer = draw(st.sampled_from(["json", "jsonl"]))
        n_runs = 1 if writer == "json" else draw(st.sampled_from([1, 1, 2, 3]))
        runs = []
        for i in range(n_runs):
            if draw(st.integers(0, 2)) == 0:
                runs.append(draw(docgen.runs(external=draw(st.sampled_from(["none", "mixed"])), max_streams=2, max_events=3)))
            else:
                runs.append(draw(generic_run(i)))
        filename = draw(st.sampled_from([None, None, "out.dat", "run file.json", "x.jsonl"]))
        case = {"writer": writer, "filename": filename, "runs": runs}
        if writer == "jsonl":
            case["shared_writer"] = draw(st.booleans())
            kind = draw(st.sampled_from(["none", "none", "empty", "jsonl", "text"]))
            if kind == "empty":
                case["preexisting"] = ""
            elif kind == "jsonl":
                recs = draw(st.lists(docgen.json_objects(max_leaves=4, max_size=2), min_size=1, max_size=3))
                case["preexisting"] = "".join(json.dumps(r, ensure_ascii=draw(st.booleans())) + "\n" for r in recs)
            elif kind == "text":
                body = draw(st.text(max_size=30).filter(lambda s: "\r" not in s))
                case["preexisting"] = body + "\n"
        else:
            kind = draw(st.sampled_from(["none", "none", "stale"]))
            if kind == "stale":
                # a stale file of the same name must be replaced by the new array
                case["preexisting"] = draw(st.sampled_from(['[\n{"name": "start", "doc": {}},\n', "junk", "[]\n" * 50]))
        return case

    return cases()


def run(ctx):
    # import the code under test (and the generators) once in the parent: forked workers inherit the modules
    import event_model  # noqa: F401
    import hypothesis.strategies  # noqa: F401

    import bluesky.callbacks.json_writer  # noqa: F401

    from .. import docgen  # noqa: F401

    ctx.hyp(_strategy, check_case, max_examples=ctx.pick(1500, 60000))


def replay(case):
    return check_case(case)
