"""C12 Device errors reach the plan at the message that caused them."""

from __future__ import annotations

import copy

from ..core import use_repo

use_repo()

from ..engine import corpus, e1common, plangen  # noqa: E402
from ..engine.planlang import M, SEQ  # noqa: E402

ID = "C12"
ENGINE = "E1"
DESIGN_REF = "DESIGN.md §8 C12"
TECHNIQUE = (
    "fault injection at every device call of the corpus plans plus Hypothesis-generated plans whose every message "
    "sits in its own try node (swallow / reraise / transform / finally-only / none), run on the real RunEngine in "
    "virtual time; the plan-side tap log (what was thrown at which yield, by object identity) is compared with the "
    "device ledger (which call raised / which status failed when)"
)
LEVEL_TEXT = (
    "Each case fails one or two device calls: the n-th call raises synchronously, or its status finishes "
    "unsuccessfully dt virtual seconds later. A synchronous DeviceError must be thrown into the plan at the yield of "
    "the message during which the device raised, as the identical object, exactly once. A failed status must arrive "
    "exactly once as bluesky.utils.FailedStatus whose __cause__ is the device's exception object, at a yield j with "
    "i <= j <= first wait(group) after the causing message i and with no checkpoint in (i, j]. No device exception "
    "may be thrown anywhere else. If the plan ran to completion the call must return; otherwise the call must raise "
    "the exception that escaped the plan (the last thrown exception the plan's handlers did not swallow, or a "
    "Transformed chained to it by identity)."
)
LEVEL_NOTE = (
    "Exploration with fake devices on a harness-owned loop: statuses finish on loop timers, not on foreign threads, so "
    "a synchronous raise can never coincide with a status failure in the same message. What the plan does with an "
    "exception is read from the plan-side log (Python semantics of the interpreter are trusted). A status that fails "
    "only after its group's wait was ended early by another failure is outside the statement's window and only labelled."
)
RULE = (
    "case = (plan AST, devices, 1-2 faults {dev, op, n, kind raise|status_fail(dt)}). Sweep: every corpus plan x every "
    "(device, op, n) call observed in its fault-free run x {raise, status_fail dt in 0/0.02/0.3} x wrapping variants "
    "(per-message try nodes with rotating policies for AST plans, whole-plan policies for builtin plans). Hypothesis: "
    "constructive well-formed plans (groups waited before the next checkpoint, waits delayed/interleaved with sleeps so "
    "that failures land between the causing message and the wait), every message in its own try node with a drawn "
    "policy, faults aimed at a message of the plan. Non-trivial: a fault fired while the plan was at a yield (it had "
    "to be delivered). Distinct = canonical JSON."
    ' Also plans that wait for a status group only after the close_run of the run it was created in; a wait that returns while a status of its group is still pending is a violation.'
)
ASSUMPTIONS = [
    "every status group is waited before the next checkpoint (well-formed plans)",
    "a device call observed between message i leaving the plan and its response entering the plan was caused by message i",
    "no pause/suspend/abort requests in this property's domain (C03/C04/C07/C08 cover interruptions)",
]

STATUS_OPS = ("set", "trigger", "kickoff", "complete")
FAULT_OPS = ("set", "trigger", "read", "stage", "unstage", "kickoff", "complete", "collect", "configure")
POLICIES = ("none", "none", "swallow", "swallow", "swallow", "reraise", "transform", "finally", "swallow_fs", "swallow_dev")
DTS = (0.0, 0.02, 0.05, 0.1, 0.3, 0.7)


# ------------------------------------------------------------------------------------------ AST tools


def wrap_one(node, policy, hbody=False):
    h = M("null", None, "h") if hbody else None
    if policy == "none":
        return ["try", node, [], None]
    if policy == "swallow":
        return ["try", node, [["Exception", "swallow", h]], None]
    if policy == "swallow_fs":
        return ["try", node, [["FailedStatus", "swallow", h]], None]
    if policy == "swallow_dev":
        return ["try", node, [["DeviceError", "swallow", h]], None]
    if policy == "reraise":
        return ["try", node, [["Exception", "reraise", h]], None]
    if policy == "transform":
        return ["try", node, [["Exception", "transform", h]], None]
    if policy == "finally":
        return ["try", node, [], SEQ(M("null", None, "fin"))]
    raise ValueError(policy)


def wrap_msgs(node, pol):
    """Copy of the AST with every message node inside its own try node; ``pol()`` gives (policy, hbody)."""
    if node is None:
        return None
    k = node[0]
    if k == "msg":
        p, hb = pol()
        return wrap_one(list(node), p, hb)
    if k == "seq":
        return ["seq", [wrap_msgs(n, pol) for n in node[1]]]
    if k == "loop":
        return ["loop", node[1], wrap_msgs(node[2], pol)]
    if k == "sub":
        return ["sub", wrap_msgs(node[1], pol)]
    if k == "try":
        return ["try", wrap_msgs(node[1], pol), [[a, b, wrap_msgs(c, pol)] for a, b, c in (node[2] or [])], wrap_msgs(node[3], pol)]
    if k == "wrap":
        params = {kk: (wrap_msgs(v, pol) if kk.endswith("_plan") else v) for kk, v in (node[2] or {}).items()}
        return ["wrap", node[1], params, wrap_msgs(node[3], pol)]
    return copy.deepcopy(node)


def fault_sites(node, out=None):
    """(dev, op) of the device-calling messages in program order (handlers / cleanup bodies included)."""
    out = [] if out is None else out
    if node is None:
        return out
    k = node[0]
    if k == "msg":
        if node[1] in FAULT_OPS and isinstance(node[2], str):
            out.append((node[2], node[1]))
    elif k == "seq":
        for n in node[1]:
            fault_sites(n, out)
    elif k in ("loop",):
        fault_sites(node[2], out)
    elif k == "sub":
        fault_sites(node[1], out)
    elif k == "try":
        fault_sites(node[1], out)
        for _, _, h in node[2] or []:
            fault_sites(h, out)
        fault_sites(node[3], out)
    elif k == "wrap":
        devs = []
        if node[1] == "stage":
            devs = list((node[2].get("devices") or {}).get("$devs", []))
            out.extend((d, "stage") for d in devs)
        fault_sites(node[3], out)
        for kk, v in (node[2] or {}).items():
            if kk.endswith("_plan"):
                fault_sites(v, out)
        out.extend((d, "unstage") for d in reversed(devs))
    return out


# ------------------------------------------------------------------------------------------ generator


class _B12(plangen._B):
    """plangen builder with delayed / interleaved waits (still: every group waited before the next checkpoint)."""

    def filler(self, maxn=2):
        out = []
        for _ in range(self.int(0, maxn)):
            if self.chance(0.6):
                out.append(M("sleep", None, self.choice([0.0, 0.02, 0.06, 0.2, 0.5])))
            else:
                out.append(M("null", None, self.int(0, 9)))
        return out

    def point(self, key):
        st = self.st
        dets = self.draw(st.lists(st.sampled_from(plangen.DETS), min_size=1, max_size=2, unique=True))
        nodes = []
        if self.resumable and self.chance(0.7):
            nodes.append(M("checkpoint"))
        pending = []
        motors = self.draw(st.lists(st.sampled_from(plangen.MOTORS), min_size=0, max_size=2, unique=True))
        if motors:
            g = self.group() if self.chance(0.8) else None
            for i, mm in enumerate(motors):
                if i and self.chance(0.5):
                    pending.append(g)
                    g = self.group()
                nodes.append(M("set", mm, float(self.int(-3, 3)) / 2, group=g))
            pending.append(g)
            nodes += self.filler()
        g = self.group()
        for d in dets:
            nodes.append(M("trigger", d, group=g))
        pending.append(g)
        nodes += self.filler()
        for g in self.draw(st.permutations(pending)):
            nodes.append(M("wait", None, group=g))
            nodes += self.filler(1)
        objs = list(dets) + list(motors[:1])
        stream = self.choice(["primary", "aux"]) + "_" + "_".join(sorted(objs))
        nodes.append(M("create", None, name=stream, run=key))
        for o in objs:
            nodes.append(M("read", o, run=key))
        nodes.append(M("save" if self.chance(0.9) else "drop", None, run=key))
        return nodes

    def misc(self, key):
        old = self.profile
        self.profile = "general"  # the full menu of side commands (flyers, stage pairs, configure, monitors)
        try:
            return super().misc(key)
        finally:
            self.profile = old


def _fault_for(draw, st, sites, idx):
    dev, op = sites[idx]
    n = 1 + sum(1 for s in sites[:idx] if s == (dev, op))
    kind = "raise"
    if op in STATUS_OPS and draw(st.integers(0, 9)) < 6:
        kind = "status_fail"
    f = {"dev": dev, "op": op, "n": n, "kind": kind}
    if kind == "status_fail":
        f["dt"] = draw(st.sampled_from(DTS))
    return f


def strategy():
    from hypothesis import strategies as st

    @st.composite
    def gen(draw):
        b = _B12(draw, st, "c12")
        if draw(st.integers(0, 5)) == 0:
            # "start moving to the next position while the run is being closed": a status created inside a run, the
            # close_run, and only then the wait for its group (optionally a second run afterwards)
            g1, g2 = b.group(), b.group()
            nodes = [M("open_run", None, tag="r0"), M("checkpoint")]
            if draw(st.booleans()):
                nodes += b.point(None)
            nodes.append(M("set", draw(st.sampled_from(plangen.MOTORS)), float(draw(st.integers(-3, 3))) / 2, group=g1))
            if draw(st.booleans()):
                nodes.append(M("trigger", draw(st.sampled_from(plangen.DETS)), group=g2))
            else:
                g2 = None
            nodes += b.filler()
            nodes.append(M("close_run"))
            nodes += b.filler()
            for g in draw(st.permutations([g for g in (g1, g2) if g])):
                nodes.append(M("wait", None, group=g))
                nodes += b.filler(1)
            nodes += [M("sleep", None, draw(st.sampled_from([0.0, 0.2, 1.0])))]
            if draw(st.booleans()):
                nodes += [M("open_run", None, tag="r1"), M("checkpoint")] + b.point(None) + [M("close_run")]
            plan = SEQ(*nodes)
        else:
            plan = b.plan()

        def pol():
            return draw(st.sampled_from(POLICIES)), draw(st.integers(0, 3)) == 0

        plan = wrap_msgs(plan, pol)
        sites = fault_sites(plan)
        faults = []
        if sites:
            i1 = draw(st.integers(0, len(sites) - 1))
            faults.append(_fault_for(draw, st, sites, i1))
            if draw(st.integers(0, 2)) == 0:
                # a second fault; half of the time another status failure close to the first one (statuses
                # failing while the plan is at one and the same yield)
                f2 = None
                near = [j for j in range(max(0, i1 - 4), min(len(sites), i1 + 5)) if j != i1 and sites[j][1] in STATUS_OPS]
                if faults[0]["kind"] == "status_fail" and near and draw(st.booleans()):
                    i2 = draw(st.sampled_from(near))
                    dev, op = sites[i2]
                    n = 1 + sum(1 for x in sites[:i2] if x == (dev, op))
                    dt = faults[0]["dt"] if draw(st.booleans()) else draw(st.sampled_from(DTS))
                    f2 = {"dev": dev, "op": op, "n": n, "kind": "status_fail", "dt": dt}
                else:
                    f2 = _fault_for(draw, st, sites, draw(st.integers(0, len(sites) - 1)))
                if (f2["dev"], f2["op"], f2["n"]) != (faults[0]["dev"], faults[0]["op"], faults[0]["n"]):
                    faults.append(f2)
        case = {
            "name": "gen:c12",
            "plan": plan,
            "devices": copy.deepcopy(plangen.DEVICES),
            "faults": faults,
            "stages": [{"do": "call"}],
            "probe": True,
        }
        if draw(st.integers(0, 3)) == 0:
            case["re"] = {"call_returns_result": True}
        return case

    return gen()


# ------------------------------------------------------------------------------------------ corpus sweep

_ROT = ("none", "swallow", "finally", "reraise", "swallow", "transform", "none", "swallow_fs")


def _is_ast_plan(node):
    """True when the plan contains message nodes of its own (not only a builtin)."""
    return bool(_count_msgs(node))


def _count_msgs(node):
    if node is None or not isinstance(node, list) or not node:
        return 0
    k = node[0]
    if k == "msg":
        return 1
    if k == "seq":
        return sum(_count_msgs(n) for n in node[1])
    if k in ("loop",):
        return _count_msgs(node[2])
    if k == "sub":
        return _count_msgs(node[1])
    if k == "try":
        return _count_msgs(node[1]) + sum(_count_msgs(h) for _, _, h in node[2] or []) + _count_msgs(node[3])
    if k == "wrap":
        return _count_msgs(node[3]) + sum(_count_msgs(v) for kk, v in (node[2] or {}).items() if kk.endswith("_plan"))
    return 0


def _variants(name):
    """Wrapped versions of a corpus plan: (label, plan)."""
    plan = corpus.CORPUS[name][0]
    out = []
    for outer in ("none", "swallow", "reraise", "transform", "finally"):
        out.append((f"outer={outer}", wrap_one(copy.deepcopy(plan), outer, hbody=(outer != "none"))))
    if _is_ast_plan(plan):
        for shift in range(4):
            cnt = {"i": shift}

            def pol(cnt=cnt):
                cnt["i"] += 1
                return _ROT[cnt["i"] % len(_ROT)], cnt["i"] % 3 == 0

            out.append((f"rot{shift}", wrap_msgs(plan, pol)))
        out.append(("all-swallow", wrap_msgs(plan, lambda: ("swallow", False))))
    return out


_SITES = {}


def corpus_sites(name):
    """(dev, op, n) of every faultable device call of the fault-free run of a corpus plan."""
    from ..engine.harness import run_case

    if name not in _SITES:
        obs = run_case(corpus.base_case(name))
        cnt = {}
        sites = []
        for _, dev, op, _info in obs.world.ledger:
            if op in FAULT_OPS:
                cnt[(dev, op)] = cnt.get((dev, op), 0) + 1
                sites.append((dev, op, cnt[(dev, op)]))
        _SITES[name] = sites
    return _SITES[name]


def corpus_cases(names, dts=(0.0, 0.02, 0.3)):
    for name in names:
        devs = corpus.CORPUS[name][1]
        for label, plan in _variants(name):
            for dev, op, n in corpus_sites(name):
                kinds = [{"kind": "raise"}]
                if op in STATUS_OPS:
                    kinds += [{"kind": "status_fail", "dt": dt} for dt in dts]
                for kd in kinds:
                    f = {"dev": dev, "op": op, "n": n}
                    f.update(kd)
                    yield {
                        "name": f"{name}|{label}",
                        "plan": copy.deepcopy(plan),
                        "devices": copy.deepcopy(devs),
                        "faults": [f],
                        "stages": [{"do": "call"}],
                        "probe": True,
                    }


# ------------------------------------------------------------------------------------------ oracle


def _wait_group(msg):
    if msg.args:
        return msg.args[0]
    return msg.kwargs.get("group")


def _root(exc):
    """Follow the interpreter's Transformed -> __cause__ chain to the exception it came from."""
    from ..engine.planlang import Transformed

    seen = 0
    while isinstance(exc, Transformed) and exc.__cause__ is not None and seen < 50:
        exc = exc.__cause__
        seen += 1
    return exc


def _desc(rec):
    m = rec["msg"]
    return f"yield#{rec['i']} {m.command}({m.obj})"


def oracle(case, obs, res):
    from bluesky.utils import FailedStatus

    from ..engine.devices import DeviceError

    res.klass = case.get("name", "gen").split("|")[0]
    base = e1common.features(case, obs)
    base["n_faults"] = len(case.get("faults") or [])
    F = lambda **kw: dict(base, **kw)  # noqa: E731
    ys = obs.plog.yields
    ledger = obs.world.ledger
    plog = obs.plog
    if obs.stuck:
        res.fail("stuck", "the call can make no further progress after a device fault", **F())
        return res

    # ---- yield windows over the ledger
    def window_of(L):
        for r in ys:
            hi = r.get("ledger_after")
            if r["ledger"] <= L and (hi is None or L < hi):
                return r["i"]
        return None

    sync_excs = [e for e in obs.world.raised if not str(e.args[0]).endswith(" status")]
    sync_entries = [L for (L, _d, op, _i) in ledger if op.endswith("!raise")]
    if len(sync_excs) != len(sync_entries):
        from ..core import HarnessError

        raise HarnessError(f"ledger/raised bookkeeping mismatch: {len(sync_excs)} vs {len(sync_entries)}")

    thrown_at = {}  # id(exception object) -> [yield indices]
    for r in ys:
        if "thrown" in r:
            thrown_at.setdefault(id(r["thrown"]), []).append(r["i"])
    explained = set()  # yield indices whose throw is accounted for by a fault
    fired_in_plan = 0

    # ---- synchronous raises
    for e, L in zip(sync_excs, sync_entries):
        i = window_of(L)
        where = thrown_at.get(id(e), [])
        dev, op = ledger[L][1], ledger[L][2][: -len("!raise")]
        if i is None:
            res.classes.append("sync:outside_plan")
            if where:
                res.fail(
                    "device_error_thrown_without_cause",
                    f"{e!r} was raised by an engine-internal call (ledger#{L}) but thrown into the plan at yields {where}",
                    **F(fault_kind="raise", op=op),
                )
            continue
        fired_in_plan += 1
        rec = ys[i]
        ok = rec.get("thrown") is e
        if not ok:
            got = repr(rec.get("thrown")) if "thrown" in rec else f"response {rec.get('resp')!r}"
            res.fail(
                "sync_error_not_thrown_at_causing_yield",
                f"{dev}.{op} raised {e!r} during {_desc(rec)} but the plan received {got} there; "
                f"the exception object was thrown at yields {where}",
                **F(fault_kind="raise", op=op),
            )
        elif len(where) != 1:
            res.fail("sync_error_thrown_more_than_once", f"{e!r} thrown at yields {where}", **F(fault_kind="raise", op=op))
        explained.update(where)
        res.classes.append("sync:" + _position(plog, ys, i))

    # ---- failed statuses
    failed = []  # (D, sid, dev, op)
    for L, dev, op, info in ledger:
        if op == "status_done" and info[2] is False:
            failed.append((L, info[1], dev, info[0]))
    call_of = {}
    for L, dev, op, info in ledger:
        if op in STATUS_OPS:
            sid = info[1] if isinstance(info, tuple) else info
            call_of[sid] = L
    fs_by_cause = {}
    for r in ys:
        t = r.get("thrown")
        if isinstance(t, FailedStatus):
            fs_by_cause.setdefault(id(t.__cause__), []).append(r["i"])
    dwin = {sid: window_of(D) for D, sid, _, _ in failed}
    wins = [w for w in dwin.values() if w is not None]
    if len(wins) != len(set(wins)):
        res.classes.append("two_statuses_failed_at_one_yield")
    if len(failed) + len(sync_excs) >= 2:
        res.classes.append("two_faults_fired")
    for D, sid, dev, op in failed:
        st_obj = obs.world.results[sid]
        exc = st_obj._exc
        i = window_of(call_of[sid])
        T = fs_by_cause.get(id(exc), [])
        explained.update(T)
        later_same = any(D2 > D and dwin[s2] is not None and dwin[s2] == dwin[sid] for D2, s2, _, _ in failed)
        # failures that arrived earlier at the same yield: only one exception can be thrown per yield, so this
        # one may take that many yields longer (the statement's window presumes one failure at a time)
        earlier_same = sum(1 for D2, s2, _, _ in failed if D2 < D and dwin[s2] is not None and dwin[s2] == dwin[sid])
        feats = F(fault_kind="status_fail", op=op, later_failure_at_same_yield=later_same)
        if i is None:
            res.classes.append("status:outside_plan")
            if T:
                res.fail("failed_status_thrown_without_cause", f"{exc!r}: status of an engine-internal call thrown at {T}", **feats)
            continue
        g = ys[i]["msg"].kwargs.get("group")
        k = None
        for r in ys[i + 1 :]:
            if r["msg"].command == "wait" and _wait_group(r["msg"]) == g:
                k = r["i"]
                break
        for j in T:
            t = ys[j]["thrown"]
            if t.args and t.args[0] is not st_obj:
                res.classes.append("failed_status_args_not_the_status")
        if len(T) > 1:
            res.fail("failed_status_thrown_more_than_once", f"{dev}.{op} status failure ({exc!r}) thrown at yields {T}", **feats)
        # did the wait on the group end (by another failure) before this status finished?
        wait_ended_early = k is not None and ys[k].get("ledger_after") is not None and D >= ys[k]["ledger_after"]
        if wait_ended_early and "resp" in ys[k]:
            # the wait for the group *returned* (it was not ended by an exception) although this status of the group
            # had not finished: the failure can then no longer reach the plan at or before that wait
            res.fail(
                "wait_returned_before_status_finished",
                f"wait(group={g!r}) at yield {k} returned {ys[k]['resp']!r} while the {dev}.{op} status of yield {i} was still "
                f"pending; it failed later (thrown at yields {T or 'nowhere'})",
                **feats,
            )
            continue
        if wait_ended_early:
            res.classes.append("status:finished_after_its_wait_was_ended")
            if T:
                fired_in_plan += 1
                if T[0] < i:
                    res.fail("failed_status_thrown_before_cause", f"thrown at yield {T[0]} < causing yield {i}", **feats)
            continue
        if T:
            fired_in_plan += 1
            j = T[0]
            if j < i:
                res.fail("failed_status_thrown_before_cause", f"thrown at yield {j} < causing yield {i}", **feats)
            if k is not None and k < j <= k + earlier_same:
                res.classes.append("status:coincident_failure_delivered_after_its_wait")
            elif k is not None and j > k:
                res.fail(
                    "failed_status_thrown_after_wait",
                    f"{dev}.{op} (group {g!r}) issued at {_desc(ys[i])} failed; FailedStatus thrown at {_desc(ys[j])}, "
                    f"after the wait on its group at yield#{k}",
                    **feats,
                )
            cps = [r["i"] for r in ys[i + 1 : j + 1] if r["msg"].command == "checkpoint"]
            if cps and not (k is not None and k < j <= k + earlier_same):
                res.fail(
                    "failed_status_thrown_after_checkpoint",
                    f"{dev}.{op} issued at yield#{i} failed; thrown at yield#{j} after checkpoint(s) at {cps}",
                    **feats,
                )
            res.classes.append("status:" + ("at_cause" if j == i else "at_wait" if j == k else "between") + ":" + _position(plog, ys, i))
        else:
            # the plan got past the wait on the group (and went on) without ever seeing the failure
            passed_wait = k is not None and ys[k].get("ledger_after") is not None and (len(ys) > k + 1 or plog.returned)
            if passed_wait:
                fired_in_plan += 1
                res.fail(
                    "failed_status_never_thrown",
                    f"{dev}.{op} (group {g!r}) issued at {_desc(ys[i])} failed with {exc!r} while the plan was at "
                    f"yield#{dwin[sid]}; the plan passed wait({g!r}) at yield#{k} (received "
                    f"{ys[k].get('thrown', ys[k].get('resp'))!r}) and the failure was never thrown into it",
                    **feats,
                )
            else:
                res.classes.append("status:plan_ended_before_delivery")

    # ---- nothing invented: every device exception seen by the plan is one of the above, in its place
    for r in ys:
        if "thrown" not in r or r["i"] in explained:
            continue
        t = r["thrown"]
        if isinstance(t, DeviceError):
            res.fail("device_error_thrown_without_cause", f"{t!r} thrown at {_desc(r)} but no device call raised it there", **F())
        elif isinstance(t, FailedStatus):
            res.fail(
                "failed_status_thrown_without_cause",
                f"{t!r} (cause {t.__cause__!r}) thrown at {_desc(r)}: no failed status has that exception",
                **F(),
            )
        else:
            res.classes.append("consequent:" + type(t).__name__)

    # ---- outcome of the call
    c = obs.calls[0]
    thrown = [r["thrown"] for r in ys if "thrown" in r]
    if c.get("outcome") not in ("return", "raise"):
        res.fail("call_did_not_finish", f"RE(plan) outcome {c.get('outcome')}", **F())
    elif plog.returned:
        res.classes.append("outcome:recovered" if thrown else "outcome:clean")
        if c["outcome"] != "return":
            res.fail(
                "call_raised_although_plan_completed",
                f"the plan handled every exception and ran to completion, but RE(plan) raised {c.get('exc')!r}",
                **F(),
            )
        if c.get("state_after") != "idle":
            res.classes.append("not_idle_after(C07)")
    else:
        res.classes.append("outcome:unhandled")
        if c["outcome"] == "return":
            res.fail("call_returned_although_plan_failed", f"the plan ended with an exception (thrown: {thrown!r}) but RE(plan) returned", **F())
        elif not thrown:
            res.fail("plan_ended_without_exception", f"RE(plan) raised {c.get('exc')!r} but nothing was thrown into the plan", **F())
        else:
            E = c["exc"]
            swallowed = {id(_root(ev["exc"])) for ev in plog.events if ev["t"] == "except" and ev.get("action") == "swallow"}
            cands = [t for t in thrown if id(t) not in swallowed]
            rootE = _root(E)
            if not any(rootE is t for t in thrown):
                res.fail(
                    "call_raised_foreign_exception",
                    f"RE(plan) raised {E!r} (root {rootE!r}) which is none of the exceptions thrown into the plan {thrown!r}",
                    **F(),
                )
            elif cands and rootE is not cands[-1]:
                res.fail(
                    "call_raised_other_than_last_unhandled",
                    f"RE(plan) raised {E!r} (root {rootE!r}); the last exception the plan did not swallow is {cands[-1]!r}",
                    **F(),
                )
    res.nontrivial = fired_in_plan > 0
    if not fired_in_plan:
        res.classes.append("fault_not_delivered")
    return res


def _position(plog, ys, i):
    """Where in the plan was message i: inside a bundle, inside cleanup/handler code, or plain."""
    in_bundle = False
    for r in ys[:i]:
        c = r["msg"].command
        if c == "create":
            in_bundle = True
        elif c in ("save", "drop", "close_run"):
            in_bundle = False
    depth = 0
    for ev in plog.events:
        if ev["after_yield"] > i:
            break
        if ev["t"] in ("cleanup_start", "finally"):
            depth += 1
        elif ev["t"] in ("cleanup_done", "finally_done"):
            depth -= 1
    cmd = ys[i]["msg"].command
    tag = "bundle" if in_bundle and cmd == "read" else "cleanup" if depth > 0 else "plain"
    return tag


_check_plain = e1common.make_check(oracle)


# ---- pause family: a status created before a pause that fails while paused / after resume must still reach the plan


def pause_family_cases():
    from ..engine.planlang import M, SEQ

    for op, dev in (("set", "m1"), ("trigger", "d1")):
        for dt in (0.3, 0.8):
            for pause_kind in ("msg", "inj", "defer_msg"):
                for handled in (False, True):
                    first = M("set", "m1", 1.0, group="g") if op == "set" else M("trigger", "d1", group="g")
                    wait = M("wait", None, group="g")
                    nodes = [M("open_run"), M("checkpoint"), first, M("checkpoint"), M("null", None, "a")]
                    tail = []
                    if pause_kind == "msg":
                        tail.append(M("pause"))
                    elif pause_kind == "defer_msg":
                        tail += [M("pause", None, defer=True), M("checkpoint")]
                    tail += [M("sleep", None, 0.1), M("null", None, "b"), wait]
                    if handled:
                        # the failure may be delivered at any yield up to the wait: guard all of them
                        nodes.append(["try", SEQ(*tail), [["FailedStatus", "swallow", M("null", None, "handled")]], None])
                    else:
                        nodes += tail
                    nodes += [M("null", None, "after-wait"), M("close_run")]
                    stages = [{"do": "call"}, {"do": "resume"}, {"do": "resume"}]
                    if pause_kind == "inj":
                        stages[0]["inj"] = [{"at_msg": 4, "plus": 1, "do": "pause"}]
                    yield {
                        "name": f"pausefam|{op}|{pause_kind}|dt{dt}|{'handled' if handled else 'unhandled'}",
                        "family": "pause",
                        "plan": SEQ(*nodes),
                        "devices": corpus.DEV_A,
                        "faults": [{"dev": dev, "op": op, "n": 1, "kind": "status_fail", "dt": dt}],
                        "stages": stages,
                        "handled": handled,
                    }


def _check_pause_family(case):
    from bluesky.utils import FailedStatus

    from ..core import Result
    from ..engine.devices import DeviceError
    from ..engine.harness import run_case

    obs = run_case(case)
    res = Result(klass="pausefam")
    F = lambda **kw: dict(e1common.features(case, obs), family="pause", **kw)  # noqa: E731
    if obs.stuck:
        res.classes.append("stuck(C07)")
        return res
    paused = any(s_[0] == "paused" for s_ in obs.states)
    res.nontrivial = paused
    if not paused:
        res.classes.append("pausefam:no_pause")
        return res
    ys = obs.plog.yields
    thrown = [(y["i"], y["thrown"]) for y in ys if isinstance(y.get("thrown"), FailedStatus)]
    wait_idx = next((y["i"] for y in ys if y["msg"].command == "wait"), None)
    ok = [i for i, e in thrown if isinstance(e.__cause__, DeviceError) and e.__cause__ in obs.world.raised]
    if not ok:
        res.fail(
            "failed_status_lost_across_pause",
            f"the status of {case['faults'][0]['dev']}.{case['faults'][0]['op']} failed (fault plan) around a pause/resume but no FailedStatus "
            f"was thrown into the plan (exceptions thrown: {[(i, type(y.get('thrown')).__name__) for i, y in enumerate(ys) if 'thrown' in y]})",
            **F(),
        )
        return res
    if wait_idx is not None and min(ok) > wait_idx:
        res.fail("failed_status_after_its_wait", f"FailedStatus thrown at yield {min(ok)}, after the wait on its group (yield {wait_idx})", **F())
    last = [c for c in obs.calls if c.get("outcome") in ("return", "raise") and c["do"] in ("call", "resume")][-1]
    if case.get("handled"):
        if last["outcome"] != "return":
            res.fail("handled_failure_ended_call", f"plan handled the FailedStatus but {last['do']}() raised {last.get('exc')!r}", **F())
    else:
        if not (last["outcome"] == "raise" and isinstance(last.get("exc"), FailedStatus)):
            res.fail("unhandled_failure_not_raised", f"plan did not handle the FailedStatus but {last['do']}() -> {last['outcome']} {last.get('exc')!r}", **F())
    return res


def check_case(case):
    if case.get("family") == "pause":
        return _check_pause_family(case)
    return _check_plain(case)


def run(ctx):
    # plans with in-plan pause messages end RE(plan) with RunEngineInterrupted: not this sweep's single-call domain
    names = [n for n in corpus.corpus_names(ctx.tier) if not n.startswith(("pause_msg", "defer_msg"))]
    cases = list(corpus_cases(names, dts=ctx.pick((0.0, 0.3), (0.0, 0.02, 0.3))))
    total = len(cases)
    if ctx.quick:
        cases = [c for i, c in enumerate(cases) if i % 3 == ctx.seed % 3]
        ctx.bound = f"1/3 (rotating with the seed) of the {total} single-fault cases: corpus plan x wrapping x device call x fault kind"
    else:
        ctx.bound = "every single fault (device call x raise / status_fail dt 0, 0.02, 0.3) of every corpus plan x wrapping variant"
        ctx.exhaustive = True
    cases += list(pause_family_cases())
    ctx.sweep(cases, check_case)
    ctx.extra["sweep_cases"] = len(cases)
    ctx.hyp(strategy, check_case, max_examples=ctx.pick(1500, 30000), tag="c12")


def replay(case):
    return check_case(case)
