"""C35 Document normalization never alters its inputs and loses nothing."""

from __future__ import annotations

import copy

from ..core import Result, canon, use_repo

use_repo()

ID = "C35"
DESIGN_REF = "DESIGN.md §8 C35"
TECHNIQUE = "Hypothesis-generated legacy/current event-model runs through RunNormalizer with snapshot, schema and conservation oracles; fault-injected _ConditionalBackup"
LEVEL_TEXT = (
    "Generated runs (legacy resource/datum/datum_page, current stream_resource/stream_datum, events and event pages, "
    "reserved keys, legacy dtype fields, late datums, frames, resource roll-over) are fed to RunNormalizer; inputs are "
    "compared with deep snapshots, every emitted document is validated, events are matched one-to-one by uid with the "
    "expected internal data, and every referenced datum must yield exactly one stream datum with the event's ranges. "
    "_ConditionalBackup is driven with primaries failing at generated points and recording backup writers."
)
LEVEL_NOTE = (
    "With 'frame' datum kwargs the index ranges are checked against a tiling model only when datums are converted in "
    "event order; seq_nums are then compared with the event only for one-frame-per-event data. Exploration, not proof."
)
RULE = (
    "part 'normalizer': a vf.docgen run, external in {none, legacy, current, mixed}, 1-3 interleaved streams, 0-5 events "
    "each; non-trivial when it has an external key converted from a datum, or a reserved/legacy-dtype data key, or a "
    "page. part 'backup': a run, a primary (stub raising at generated call indices, or a RunNormalizer whose subscriber "
    "raises at generated emission indices), 1-2 recording backups (one may raise itself); non-trivial when the primary "
    "fails after at least one document was buffered. Distinct = distinct canonical JSON of the case."
)
ASSUMPTIONS = [
    "documents arrive in an order a RunEngine/databroker replay can produce: resource before its datums, descriptor "
    "before its events, every datum before stop; a datum is referenced by exactly one event",
    "data-key names are not shared between an internal and an external key of the same run",
    "the backup buffer (maxlen 1e6) is larger than the run",
]
ENGINE = "E3"

RESERVED = ("time", "seq_num")
HDF5 = "application/x-hdf5"


def _nm(name):
    return getattr(name, "name", name)


def _f10_site(name, doc, converted_datum_ids):
    """Outcome-independent: is this input document one whose nested dict the known defect F10 touches?"""
    from ..docgen import SPEC_MIMETYPES

    if name in ("resource", "stream_resource"):
        if "mimetype" in doc:
            mt, kw = doc["mimetype"], doc.get("parameters", {})
        else:
            mt, kw = SPEC_MIMETYPES.get(doc.get("spec"), "application/octet-stream"), doc.get("resource_kwargs", {})
        return mt == HDF5 and ("path" in kw or "dataset" not in kw)
    if name == "datum":
        return "frame" in doc.get("datum_kwargs", {}) and doc["datum_id"] in converted_datum_ids
    return False


def _check_normalizer(case, res):
    from bluesky.callbacks.tiled_writer import RunNormalizer

    from .. import docgen

    original = case["docs"]
    inputs = copy.deepcopy(original)
    descs = docgen.descriptor_index(original)

    # ---- expectations derived from the input alone ------------------------------------------------
    in_events = []  # (event dict, was bare document)
    for name, doc in original:
        for ev in docgen.iter_events(name, doc):
            in_events.append((ev, name == "event"))
    datums, datum_pos = {}, {}
    for pos, (name, doc) in enumerate(original):
        for d in docgen.iter_datums(name, doc):
            datums[d["datum_id"]] = d
            datum_pos[d["datum_id"]] = pos
    event_pos = {}
    for pos, (name, doc) in enumerate(original):
        for ev in docgen.iter_events(name, doc):
            event_pos[ev["uid"]] = pos
    expected_events = {}
    conversions = []  # (event, key, datum)
    for ev, _bare in in_events:
        dk = descs[ev["descriptor"]]["data_keys"]
        filled = ev["filled"] or {}
        data, ts = {}, {}
        for k, v in ev["data"].items():
            external = "external" in dk[k]
            if external and not filled.get(k, False):
                conversions.append((ev, k, datums[v]))
                continue
            nk = f"_{k}" if k in RESERVED else k
            data[nk] = v
            ts[nk] = ev["timestamps"][k]
        expected_events[ev["uid"]] = {"data": data, "timestamps": ts, "seq_num": ev["seq_num"], "descriptor": ev["descriptor"], "time": ev["time"]}
    converted_ids = {d["datum_id"] for _, _, d in conversions}
    in_sdatums = [doc for name, doc in original if name == "stream_datum"]
    in_sres = [doc for name, doc in original if name == "stream_resource"]

    names = [n for n, _ in original]
    has_reserved = any(k in RESERVED for d in descs.values() for k in d["data_keys"])
    has_legacy_dtype = any(
        "dtype_str" in s or "dtype_descr" in s
        for d in descs.values()
        for s in list(d["data_keys"].values()) + [x for c in d["configuration"].values() for x in c["data_keys"].values()]
    )
    has_pages = "event_page" in names or "datum_page" in names
    bare_event_without_filled = any(bare and ev["filled"] is None for ev, bare in in_events)
    res.nontrivial = bool(conversions) or has_reserved or has_legacy_dtype or has_pages
    flavour = ("legacy" if "resource" in names else "") + ("current" if "stream_resource" in names else "")
    res.klass = f"norm/{flavour or 'internal'}"
    for flag, lab in (
        (conversions, "norm/datum_converted"),
        (has_reserved, "norm/reserved_key"),
        (has_legacy_dtype, "norm/legacy_dtype"),
        (has_pages, "norm/pages"),
        (any("frame" in d["datum_kwargs"] for _, _, d in conversions), "norm/frames"),
        (any(datum_pos[d["datum_id"]] > event_pos[ev["uid"]] for ev, _, d in conversions), "norm/late_datum"),
        (bare_event_without_filled, "norm/bare_event_without_filled"),
        (any("mimetype" not in d for d in in_sres), "norm/old_schema_stream_resource"),
    ):
        if flag:
            res.classes.append(lab)
    feats = {"bare_event_without_filled": bare_event_without_filled}

    # ---- run ------------------------------------------------------------------------------------------
    norm = RunNormalizer()
    emitted = []
    norm.subscribe(lambda n, d: emitted.append((_nm(n), copy.deepcopy(d))))
    raised = None
    for name, doc in inputs:
        try:
            norm(name, doc)
        except Exception as e:
            raised = (name, doc, e)
            break

    # ---- inputs untouched (checked even when the run was cut short) -------------------------------------
    n_mut = 0
    for (name, before), (_n, after) in zip(original, inputs):
        if canon(before) == canon(after):
            continue
        n_mut += 1
        if n_mut > 3:
            break
        changed = sorted(k for k in set(before) | set(after) if canon(before.get(k, "<absent>")) != canon(after.get(k, "<absent>")))
        field = changed[0] if len(changed) == 1 else "several"
        res.fail(
            f"input_mutated_{name}_{field}",
            f"{name} document changed in {changed}: before {before!r} after {after!r}",
            f10_site=_f10_site(name, before, converted_ids),
            doc_name=name,
            **feats,
        )

    if raised is not None:
        name, doc, e = raised
        if type(e).__name__ == "ValidationError":
            return res.fail("emitted_schema_invalid", f"own validation failed while processing {name}: {str(e)[:300]}", **feats)
        return res.fail(
            f"raised_{type(e).__name__}",
            f"{type(e).__name__}: {str(e)[:200]} while processing {name} {doc.get('uid', '')}",
            doc_name=name,
            this_doc_is_bare_event_without_filled=bool(name == "event" and "filled" not in doc),
            **feats,
        )

    # ---- emitted documents are schema-valid ---------------------------------------------------------------
    for n, d in emitted:
        msg = docgen.validate_current(n, d)
        if msg:
            res.fail("emitted_schema_invalid", f"{n}: {msg}", **feats)
            return res
    enames = [n for n, _ in emitted]
    if enames.count("start") != 1 or enames.count("stop") != 1 or enames[0] != "start" or enames[-1] != "stop":
        return res.fail("not_bracketed", f"emitted names {enames}", **feats)
    if canon(emitted[0][1]) != canon(original[0][1]) or canon(emitted[-1][1]) != canon(original[-1][1]):
        res.fail("start_stop_altered", "emitted start/stop differ from the input documents", **feats)
    if enames.count("descriptor") != names.count("descriptor"):
        res.fail("descriptor_count", f"{names.count('descriptor')} descriptors in, {enames.count('descriptor')} out", **feats)
    leftovers = [n for n in enames if n not in ("start", "stop", "descriptor", "event", "stream_resource", "stream_datum")]
    if leftovers:
        res.fail("legacy_document_emitted", f"emitted {leftovers}", **feats)

    # ---- every internal event value kept, nothing invented -------------------------------------------------
    out_events = {}
    for n, d in emitted:
        if n == "event":
            out_events.setdefault(d["uid"], []).append(d)
    for uid, exp in expected_events.items():
        got = out_events.get(uid, [])
        if len(got) != 1:
            res.fail("event_lost_or_duplicated", f"event {uid} emitted {len(got)} times", **feats)
            continue
        g = got[0]
        if canon(g["data"]) != canon(exp["data"]):
            res.fail("event_data_differs", f"event {uid}: emitted data {g['data']!r}, expected {exp['data']!r}", **feats)
        elif canon(g["timestamps"]) != canon(exp["timestamps"]):
            res.fail("event_timestamps_differ", f"event {uid}: emitted {g['timestamps']!r}, expected {exp['timestamps']!r}", **feats)
        for f in ("seq_num", "descriptor", "time"):
            if g[f] != exp[f]:
                res.fail("event_field_differs", f"event {uid}: {f} {g[f]!r} != {exp[f]!r}", **feats)
    extra = set(out_events) - set(expected_events)
    if extra:
        res.fail("event_invented", f"emitted events with unknown uids {sorted(extra)}", **feats)

    # ---- every referenced datum -> exactly one stream datum -----------------------------------------------
    out_sd = {}
    sres_seen_at = {}
    for pos, (n, d) in enumerate(emitted):
        if n == "stream_datum":
            out_sd.setdefault(d["uid"], []).append((pos, d))
        elif n == "stream_resource":
            sres_seen_at.setdefault(d["uid"], pos)
            if len([1 for nn, dd in emitted if nn == "stream_resource" and dd["uid"] == d["uid"]]) > 1:
                res.fail("stream_resource_duplicated", f"stream_resource {d['uid']} emitted more than once", **feats)
    # model of frame indexing (only used when conversion order == event order for that stream/key)
    per_key = {}
    for ev, k, d in conversions:
        per_key.setdefault((descs[ev["descriptor"]]["name"], k), []).append((ev, d))
    frame_expect = {}
    same_index_restart = {}
    for (sname, k), lst in per_key.items():
        if not any("frame" in d["datum_kwargs"] for _, d in lst):
            continue
        late = [datum_pos[d["datum_id"]] > event_pos[ev["uid"]] for ev, d in lst]
        in_order = all(late) or not any(late)
        if not in_order or not all("frame" in d["datum_kwargs"] for _, d in lst):
            res.classes.append("norm/frames_converted_out_of_event_order(indices unasserted)")
            continue
        pairs = [(d1, d2) for (_e1, d1), (_e2, d2) in zip(lst, lst[1:]) if d1["resource"] != d2["resource"]]
        if any(d2["datum_kwargs"]["frame"] > d1["datum_kwargs"]["frame"] for d1, d2 in pairs):
            # a new resource whose first frame index is larger than the previous resource's last one cannot be told
            # from frame numbers that simply keep counting across resources: both readings are legitimate
            res.classes.append("norm/frames_resource_change_ambiguous(indices unasserted)")
            continue
        # equal frame index across a resource change: an empty range otherwise, so the numbering must have restarted
        same_index_restart[(sname, k)] = any(d2["datum_kwargs"]["frame"] == d1["datum_kwargs"]["frame"] for d1, d2 in pairs)
        start, prev_res, prev_frame = 0, None, -1
        for ev, d in lst:
            f = d["datum_kwargs"]["frame"]
            n = f - prev_frame if d["resource"] == prev_res else f + 1
            frame_expect[d["datum_id"]] = (start, start + n)
            start += n
            prev_res, prev_frame = d["resource"], f
    for ev, k, d in conversions:
        did = d["datum_id"]
        got = out_sd.get(did, [])
        cfe = {"datum_has_frame": "frame" in d["datum_kwargs"]}
        if len(got) != 1:
            res.fail("datum_not_exactly_one_stream_datum", f"datum {did} (event {ev['uid']}, key {k}) -> {len(got)} stream datums", **cfe, **feats)
            continue
        pos, sd = got[0]
        seq = ev["seq_num"]
        if sd["descriptor"] != ev["descriptor"]:
            res.fail("stream_datum_descriptor", f"datum {did}: descriptor {sd['descriptor']!r} != event's {ev['descriptor']!r}", **cfe, **feats)
        if "frame" not in d["datum_kwargs"]:
            if dict(sd["indices"]) != {"start": seq - 1, "stop": seq} or dict(sd["seq_nums"]) != {"start": seq, "stop": seq + 1}:
                res.fail(
                    "stream_datum_ranges",
                    f"datum {did} of event seq_num {seq}: indices {dict(sd['indices'])} seq_nums {dict(sd['seq_nums'])}",
                    **cfe,
                    **feats,
                )
        elif did in frame_expect:
            lo, hi = frame_expect[did]
            if dict(sd["indices"]) != {"start": lo, "stop": hi}:
                res.fail(
                    "stream_datum_frame_indices",
                    f"datum {did} frame={d['datum_kwargs']['frame']} of event seq_num {seq}: indices {dict(sd['indices'])}, "
                    f"expected [{lo},{hi})",
                    frame_restart_at_same_index=same_index_restart[(descs[ev["descriptor"]]["name"], k)],
                    **cfe,
                    **feats,
                )
            elif (lo, hi) == (seq - 1, seq) and dict(sd["seq_nums"]) != {"start": seq, "stop": seq + 1}:
                res.fail("stream_datum_ranges", f"datum {did} of event seq_num {seq}: seq_nums {dict(sd['seq_nums'])}", **cfe, **feats)
            if (lo, hi) != (seq - 1, seq):
                res.classes.append("norm/frames_not_one_per_event(seq_nums unasserted)")
        at = sres_seen_at.get(sd["stream_resource"])
        if at is None or at > pos:
            res.fail(
                "stream_datum_without_resource",
                f"datum {did}: stream_resource {sd['stream_resource']!r} {'never emitted' if at is None else 'emitted after it'}",
                **cfe,
                **feats,
            )
        else:
            sr = emitted[at][1]
            if sr["data_key"] != k:
                res.fail("stream_resource_data_key", f"stream_resource {sr['uid']} has data_key {sr['data_key']!r}, datum belongs to {k!r}", **cfe, **feats)
    # current-form documents pass through once, unchanged
    for sd in in_sdatums:
        got = out_sd.get(sd["uid"], [])
        if len(got) != 1 or canon(got[0][1]) != canon(sd):
            res.fail("stream_datum_not_passed_through", f"input stream_datum {sd['uid']} emitted {len(got)} times / altered", **feats)
    for sr in in_sres:
        if sr["uid"] not in sres_seen_at:
            res.fail("stream_resource_lost", f"input stream_resource {sr['uid']} was not emitted", **feats)
    n_expected_sd = len(conversions) + len(in_sdatums)
    n_out_sd = sum(len(v) for v in out_sd.values())
    if n_out_sd != n_expected_sd:
        res.fail("stream_datum_count", f"{n_expected_sd} expected, {n_out_sd} emitted", **feats)
    return res


# -----------------------------------------------------------------------------------------------------------
# _ConditionalBackup


def _check_backup(case, res):
    import logging

    from bluesky.callbacks import tiled_writer as tw

    docs = copy.deepcopy(case["docs"])
    fail_at = set(case.get("fail_at", []))
    primary_kind = case.get("primary", "stub")
    n_backups = case.get("n_backups", 1)
    backup_fail_at = set(case.get("backup_fail_at", []))
    res.klass = f"backup/{primary_kind}"
    feats = {"primary": primary_kind}

    calls = {"n": 0, "raised_at": []}
    if primary_kind == "stub":

        def primary(name, doc):
            i = calls["n"]
            calls["n"] += 1
            if i in fail_at:
                calls["raised_at"].append(i)
                raise RuntimeError(f"primary fails at call {i}")

    else:
        norm = tw.RunNormalizer()
        em = {"n": 0}

        def sub(name, doc):
            j = em["n"]
            em["n"] += 1
            if j in fail_at:
                raise RuntimeError(f"subscriber fails at emission {j}")

        norm.subscribe(sub)

        def primary(name, doc):
            i = calls["n"]
            calls["n"] += 1
            try:
                norm(name, doc)
            except Exception:
                calls["raised_at"].append(i)
                raise

    logs = [[] for _ in range(n_backups)]
    bcalls = {"n": 0}

    def make_backup(ix):
        def backup(name, doc):
            if ix == 0:
                j = bcalls["n"]
                bcalls["n"] += 1
                if j in backup_fail_at:
                    raise OSError(f"backup 0 fails at its call {j}")
            logs[ix].append((name, doc))

        return backup

    cb = tw._ConditionalBackup(primary, [make_backup(i) for i in range(n_backups)])
    watch = n_backups - 1 if backup_fail_at else 0  # a backup that never raises itself
    lvl = tw.logger.level
    tw.logger.setLevel(logging.CRITICAL)
    try:
        first_fail = None
        for i, (name, doc) in enumerate(docs):
            try:
                cb(name, doc)
            except Exception as e:
                return res.fail("backup_wrapper_raised", f"{type(e).__name__}: {e} at document {i}", **feats)
            if first_fail is None and calls["raised_at"]:
                first_fail = calls["raised_at"][0]
            log = logs[watch]
            if first_fail is None:
                if log:
                    return res.fail("backup_called_without_failure", f"{len(log)} documents handed to the backup before any primary failure (document {i})", **feats)
            else:
                want = docs[: i + 1]
                ok = len(log) == len(want) and all(ln == wn and ld is wd for (ln, ld), (wn, wd) in zip(log, want))
                if not ok:
                    return res.fail(
                        "backup_not_exactly_once_in_order",
                        f"after document {i} (primary first failed at {first_fail}) the backup holds {[n for n, _ in log]}, "
                        f"expected {[n for n, _ in want]}",
                        first_fail=first_fail,
                        **feats,
                    )
    finally:
        tw.logger.setLevel(lvl)
    res.nontrivial = first_fail is not None and first_fail > 0
    res.classes.append(f"backup/{primary_kind}/" + ("primary_never_failed" if first_fail is None else "primary_failed"))
    if backup_fail_at and n_backups > 1:
        res.classes.append("backup/one_backup_raises")
    return res


def check_case(case) -> Result:
    res = Result()
    res = _check_backup(case, res) if case["part"] == "backup" else _check_normalizer(case, res)
    res.classes = list(dict.fromkeys(res.classes))  # one count per case and label
    return res


def _strategy():
    from hypothesis import strategies as st

    from .. import docgen

    @st.composite
    def norm_cases(draw):
        ext = draw(st.sampled_from(["none", "legacy", "legacy", "legacy", "current", "mixed", "mixed"]))
        docs = draw(docgen.runs(external=ext, max_streams=3, max_events=5, min_events=draw(st.sampled_from([0, 1, 1]))))
        return {"part": "normalizer", "docs": docs}

    @st.composite
    def backup_cases(draw):
        primary = draw(st.sampled_from(["stub", "stub", "normalizer"]))
        ext = draw(st.sampled_from(["none", "legacy", "mixed"]))
        docs = draw(docgen.runs(external=ext, max_streams=2, max_events=4, omit_filled=False, min_events=1))
        n = len(docs)
        fail_at = sorted(set(draw(st.lists(st.integers(0, n + 2), min_size=draw(st.sampled_from([0, 1, 1, 1])), max_size=3))))
        case = {"part": "backup", "docs": docs, "primary": primary, "fail_at": fail_at, "n_backups": draw(st.sampled_from([1, 2]))}
        if case["n_backups"] == 2 and draw(st.booleans()):
            case["backup_fail_at"] = sorted(set(draw(st.lists(st.integers(0, n), min_size=1, max_size=3))))
        return case

    return st.one_of(norm_cases(), norm_cases(), norm_cases(), backup_cases())


def run(ctx):
    # import the code under test (and the generators) once in the parent: forked workers inherit the modules
    import event_model  # noqa: F401
    import hypothesis.strategies  # noqa: F401

    import bluesky.callbacks.tiled_writer  # noqa: F401

    from .. import docgen  # noqa: F401

    ctx.hyp(_strategy, check_case, max_examples=ctx.pick(2500, 150000))


def replay(case):
    return check_case(case)
