"""C15 Events contain exactly the readings bundled between create and save."""

from __future__ import annotations

import itertools

from ..core import HarnessError, Result, use_repo

use_repo()

from ..engine.harness import run_case  # noqa: E402
from ..engine.planlang import M  # noqa: E402

ID = "C15"
ENGINE = "E1"
DESIGN_REF = "DESIGN.md §8 C15"
TECHNIQUE = (
    "exhaustive enumeration of short bundle-operation sequences + Hypothesis-generated guarded sequences on the real "
    "RunEngine, compared step by step with a reference model of the event bundle written from the property statement"
)
LEVEL_TEXT = (
    "Every step (create, read, save, drop, checkpoint, configure, declare_stream, trigger/wait, set, sleep) of a generated "
    "sequence inside one open run is wrapped in try/except so the sequence continues after a rejection. A reference model "
    "of the bundle predicts for every step whether it must be accepted or must raise at that yield, and for every accepted "
    "save the exact event: data and timestamps equal to the values the devices' read() calls of that bundle returned "
    "(nothing lost, nothing invented), a preceding descriptor of that stream in that run with the same key set, "
    "seq_num = number of earlier events of the stream + 1. No other step may emit an event; drop, an empty save and "
    "rejected operations emit nothing and consume no seq_num. All sequences of up to 3 (thorough: 5) operations over "
    "three devices, two of which share a data key, are enumerated completely."
)
LEVEL_NOTE = (
    "Exploration beyond the enumerated bound. Not asserted (design guards): whether a second create inside a bundle is "
    "rejected; whether a bundle whose object set differs from the set the stream's descriptor was made for is rejected "
    "or emitted (if emitted it must satisfy the same event rules; if rejected the model does not assume whether the "
    "bundle is still open and re-synchronises on the next step whose outcome reveals it); the outcome of save/drop "
    "without a bundle (only that they emit nothing). A read rejected for overlapping keys is taken not to belong to "
    "the bundle. The exception type of a rejection is recorded, not asserted."
)
RULE = (
    "case = (devices with generated data-key sets drawn from a 5-key pool so overlaps are common, one motor; guarded "
    "step list). Sweep: every sequence of length <= 3 (quick, plus a rotating quarter of length 4) / <= 5 (thorough) "
    "over {create, read a, read b, read c, save, drop, checkpoint, configure a} with a = {k1,k2}, b = {k2,k3}, c = {c}, "
    "followed by a fixed bundle create/read a/read c/save that exposes corrupted state. Hypothesis: segments that are "
    "bundles (create, the stream's template reads or random reads with 0-3 inserted extra operations, terminated by "
    "save/drop/nothing) or operations outside a bundle. Non-trivial: >= 1 accepted event with >= 2 objects AND >= 1 "
    "operation the model requires to be rejected. Distinct = canonical JSON."
)
ASSUMPTIONS = [
    "device describe() keys equal the keys of its read() (fake devices guarantee it)",
    "no device faults, pauses or suspensions in this property's domain (single RE(plan) call)",
    "a step counts as rejected iff an exception is thrown into the plan at that yield",
]

POOL = ["k1", "k2", "k3", "k4", "k5"]
STREAMS = ["primary", "s2"]


def G(node):
    """Guard one step: the sequence continues after a rejection."""
    return ["try", node, [["Exception", "swallow", None]], None]


def make_case(name, devices, steps):
    plan = ["seq", [M("open_run")] + [G(s) for s in steps] + [G(M("close_run"))]]
    return {"name": name, "plan": plan, "devices": devices, "stages": [{"do": "call"}]}


# ------------------------------------------------------------------------------------------
# reference model / oracle


def _dev_keys(case):
    spec = case.get("devices") or {}
    keys = {}
    for n, kw in spec.get("dets", {}).items():
        keys[n] = set(kw.get("keys") or [n])
    for grp in ("motors", "sigs", "cfgsigs"):
        for n in spec.get(grp, {}):
            keys[n] = {n}
    return keys


def _reading_of(obs, y, dev):
    """What the device's read() returned during this step (from the device-side ledger)."""
    out = []
    for _, d, op, info in obs.world.ledger[y["ledger"] : y["ledger_after"]]:
        if d == dev and op == "read":
            out.append(obs.world.results[info])
    return out


class _Model:
    def __init__(self):
        self.bund = "no"  # "no" | "yes" | "unknown"
        self.name = None
        self.reads = []  # [(dev, reading)]
        self.nev = {}  # stream -> number of events emitted so far
        self.est = {}  # stream -> object names of the stream's latest descriptor
        self.desc = {}  # uid -> (doc, position in obs.docs)
        self.run_uid = None


def oracle(case, obs, res):
    keys_of = _dev_keys(case)
    Y = obs.plog.yields
    if len(obs.hook) != len(Y) or any(h["msg"] is not y["msg"] for h, y in zip(obs.hook, Y)):
        raise HarnessError("C15: executed messages are not 1:1 with the plan's yields (no interruptions expected)")
    by_step = {}
    for pos, (name, doc, hi) in enumerate(obs.docs):
        by_step.setdefault(hi - 1, []).append((name, doc, pos))
    m = _Model()
    stats = {"multi_events": 0, "events": 0, "required_rej": 0}
    labels = set()

    def feats(cmd, **kw):
        f = {"step": cmd, "bundling": m.bund, "n_in_bundle": len(m.reads)}
        f.update(kw)
        return f

    call = obs.calls[0]
    if obs.stuck or call.get("outcome") != "return" or not obs.plog.returned:
        res.fail(
            "engine_call_raised",
            f"every step is guarded, so RE(plan) must return; outcome={call.get('outcome')} exc={call.get('exc')!r} stuck={obs.stuck}",
            step="call",
        )
        return stats, labels

    for i, y in enumerate(Y):
        msg = y["msg"]
        cmd = msg.command
        thrown = y.get("thrown") if "thrown" in y else None
        rejected = "thrown" in y
        docs = by_step.get(i, [])
        events = [(d, p) for n, d, p in docs if n in ("event", "event_page")]
        dev = getattr(msg.obj, "name", None)
        ok_event_step = False

        def must_reject(kind, what):
            stats["required_rej"] += 1
            labels.add(f"rej:{what}")
            if not rejected:
                res.fail(kind, f"step {i} {cmd}({dev}) {what}: the statement requires a rejection at this yield, it was accepted", **feats(cmd, what=what))
                return False
            labels.add(f"exc:{what}:{type(thrown).__name__}")
            return True

        def must_accept(kind):
            if rejected:
                res.fail(kind, f"step {i} {cmd}({dev}) is legal here (bundling={m.bund}) but raised {thrown!r}", **feats(cmd))
                return False
            return True

        if cmd == "open_run":
            if rejected:
                raise HarnessError(f"C15: open_run rejected: {thrown!r}")
            m.run_uid = y["resp"]
        elif cmd == "create":
            name = msg.kwargs.get("name", msg.args[0] if msg.args else None)
            if m.bund == "no":
                if not must_accept("create_rejected"):
                    return stats, labels
                m.bund, m.name, m.reads = "yes", name, []
            elif m.bund == "yes":
                labels.add("second_create:" + ("rejected" if rejected else "accepted"))
                if not rejected:
                    m.name, m.reads = name, []
            else:
                if not rejected:
                    m.bund, m.name, m.reads = "yes", name, []
        elif cmd == "read":
            if m.bund == "yes":
                clash = [d for d, _ in m.reads if keys_of[d] & keys_of[dev]]
                if clash:
                    what = "read_same_object" if dev in clash else "read_overlapping_keys"
                    if not must_reject("overlap_not_rejected", what):
                        return stats, labels
                else:
                    if not must_accept("read_rejected"):
                        return stats, labels
                    r = _reading_of(obs, y, dev)
                    if len(r) != 1:
                        res.fail("read_not_performed", f"step {i} read({dev}) accepted but the device was read {len(r)} times", **feats(cmd))
                        return stats, labels
                    m.reads.append((dev, r[0]))
            elif m.bund == "no":
                if not must_accept("read_rejected"):
                    return stats, labels
                labels.add("read_outside_bundle")
        elif cmd == "save":
            if m.bund == "no":
                labels.add("save_without_bundle:" + ("rejected" if rejected else "accepted"))
            elif m.bund == "unknown":
                if not rejected:
                    m.bund = "no"
                    if len(events) > 1:
                        res.fail("extra_event", f"step {i} save emitted {len(events)} events", **feats(cmd))
                        return stats, labels
                    if events:
                        ok_event_step = True
                        if not _check_event(res, obs, m, i, events[0], None, None, feats(cmd), stats):
                            return stats, labels
            elif not m.reads:
                labels.add("empty_save")
                if not must_accept("empty_save_rejected"):
                    return stats, labels
                m.bund, m.name = "no", None
            else:
                objs = {d for d, _ in m.reads}
                est = m.est.get(m.name)
                matches = est is None or est == objs
                if not matches:
                    labels.add("guard:objset_differs:" + ("rejected" if rejected else "emitted"))
                if rejected:
                    if matches:
                        res.fail(
                            "save_rejected",
                            f"step {i} save of bundle {sorted(objs)} on stream {m.name!r} (established set {sorted(est) if est else None}) raised {thrown!r}",
                            **feats(cmd),
                        )
                        return stats, labels
                    m.bund, m.name, m.reads = "unknown", None, []
                else:
                    if len(events) != 1:
                        res.fail(
                            "event_missing" if not events else "extra_event",
                            f"step {i} accepted save of {len(m.reads)} readings on {m.name!r} emitted {len(events)} events",
                            **feats(cmd),
                        )
                        return stats, labels
                    ok_event_step = True
                    if not _check_event(res, obs, m, i, events[0], m.name, m.reads, feats(cmd), stats):
                        return stats, labels
                    labels.add(f"event:n_objs={min(len(objs), 3)}")
                    if len(objs) >= 2:
                        stats["multi_events"] += 1
                    m.bund, m.name, m.reads = "no", None, []
        elif cmd == "drop":
            if m.bund == "yes":
                labels.add("drop")
                if not must_accept("drop_rejected"):
                    return stats, labels
            elif m.bund == "no":
                labels.add("drop_without_bundle:" + ("rejected" if rejected else "accepted"))
            m.bund, m.name, m.reads = "no", None, []
        elif cmd == "checkpoint":
            if m.bund == "yes":
                if not must_reject("checkpoint_in_bundle_accepted", "checkpoint_in_bundle"):
                    return stats, labels
            elif m.bund == "no":
                if not must_accept("checkpoint_rejected_outside_bundle"):
                    return stats, labels
            elif not rejected:
                m.bund = "no"
        elif cmd == "configure":
            reached = any(d == dev and op == "configure" for _, d, op, _ in obs.world.ledger[y["ledger"] : y["ledger_after"]])
            if m.bund == "yes":
                if not must_reject("configure_in_bundle_accepted", "configure_in_bundle"):
                    return stats, labels
                if reached:
                    res.fail("rejected_configure_reached_device", f"step {i} configure({dev}) was rejected but the device was configured", **feats(cmd))
                    return stats, labels
            elif m.bund == "no":
                if not must_accept("configure_rejected_outside_bundle"):
                    return stats, labels
                labels.add("configure_outside_bundle")
            elif not rejected:
                m.bund = "no"
        elif cmd == "declare_stream":
            labels.add("declare_stream:" + ("rejected" if rejected else "accepted"))
        # every other command (trigger, wait, set, sleep, close_run) is irrelevant to the bundle

        # nothing invented: events only come out of accepted saves of a non-empty bundle
        if events and not ok_event_step:
            res.fail(
                "event_invented",
                f"step {i} {cmd}({dev}) {'(rejected) ' if rejected else ''}emitted {len(events)} event(s) although the model's bundle state was {m.bund} / {len(m.reads)} readings",
                **feats(cmd),
            )
            return stats, labels
        # bookkeeping of descriptors seen by consumers
        for n, d, p in docs:
            if n == "descriptor":
                m.desc[d["uid"]] = (d, p)
                if d.get("run_start") == m.run_uid:
                    m.est[d["name"]] = set(d.get("object_keys", {}))

    stray = [hi for _, d, hi in obs.docs if not (0 <= hi - 1 < len(Y))]
    if stray:
        res.fail("document_outside_any_step", f"documents attributed to hook indices {stray} outside the plan's steps", step="end")
    return stats, labels


def _check_event(res, obs, m, i, ev_pos, stream, reads, f, stats):
    ev, pos = ev_pos
    if "seq_num" not in ev or isinstance(ev.get("seq_num"), list):
        res.fail("event_page_instead_of_event", f"step {i} save emitted a paged document", **f)
        return False
    d = m.desc.get(ev["descriptor"])
    if d is None:
        # the descriptor may have been emitted in this very step, before the event
        for n, doc, _hi in obs.docs[:pos]:
            if n == "descriptor" and doc["uid"] == ev["descriptor"]:
                d = (doc, None)
    if d is None:
        res.fail("event_without_preceding_descriptor", f"step {i}: event references descriptor {ev['descriptor']} which was not emitted before it", **f)
        return False
    ddoc = d[0]
    if stream is None:
        stream = ddoc["name"]
    if ddoc["name"] != stream or ddoc.get("run_start") != m.run_uid:
        res.fail("descriptor_of_other_stream", f"step {i}: event of stream {stream!r} references a descriptor named {ddoc['name']!r} (run_start match: {ddoc.get('run_start') == m.run_uid})", **f)
        return False
    dk, ek, tk = set(ddoc["data_keys"]), set(ev["data"]), set(ev["timestamps"])
    if not (dk == ek == tk):
        res.fail("descriptor_keys_mismatch", f"step {i}: descriptor data_keys {sorted(dk)} / event data {sorted(ek)} / timestamps {sorted(tk)} differ", **f)
        return False
    if reads is not None:
        exp_d, exp_t = {}, {}
        for _dev, r in reads:
            for k, v in r.items():
                exp_d[k] = v["value"]
                exp_t[k] = v["timestamp"]
        if ev["data"] != exp_d or ev["timestamps"] != exp_t:
            res.fail(
                "event_data_mismatch",
                f"step {i}: bundle {[dv for dv, _ in reads]} on {stream!r}: expected data {exp_d} timestamps {exp_t}, event has data {ev['data']} timestamps {ev['timestamps']}",
                **f,
            )
            return False
        objs = {dv for dv, _ in reads}
        if set(ddoc.get("object_keys", {})) != objs:
            res.fail("descriptor_objects_mismatch", f"step {i}: bundle objects {sorted(objs)} but the descriptor lists {sorted(ddoc.get('object_keys', {}))}", **f)
            return False
    want = m.nev.get(stream, 0) + 1
    if ev["seq_num"] != want:
        res.fail("seq_num_wrong", f"step {i}: event of {stream!r} has seq_num {ev['seq_num']}, {want - 1} events were emitted before it", **f)
        return False
    m.nev[stream] = want
    stats["events"] += 1
    return True


def check_case(case):
    obs = run_case(case)
    res = Result()
    stats, labels = oracle(case, obs, res)
    res.classes.extend(sorted(labels))
    res.nontrivial = stats["multi_events"] >= 1 and stats["required_rej"] >= 1
    res.klass = (
        f"{case.get('name', 'gen')}|events={min(stats['events'], 3)}|multi={min(stats['multi_events'], 2)}|rejections={min(stats['required_rej'], 3)}"
    )
    return res


# ------------------------------------------------------------------------------------------
# generators

SWEEP_DEVICES = {
    "dets": {"a": {"keys": ["k1", "k2"], "cfg": {"x": 1}}, "b": {"keys": ["k2", "k3"], "salt": 20.0}, "c": {"salt": 40.0}},
    "motors": {},
    "sigs": {},
    "flyers": {},
}


def _sweep_op(o):
    if o == "C":
        return M("create", None, name="primary")
    if o in ("Ra", "Rb", "Rc"):
        return M("read", o[1])
    if o == "S":
        return M("save")
    if o == "D":
        return M("drop")
    if o == "K":
        return M("checkpoint")
    if o == "F":
        return M("configure", "a", {"x": 2})
    raise ValueError(o)


SWEEP_OPS = ["C", "Ra", "Rb", "Rc", "S", "D", "K", "F"]
SWEEP_TAIL = ["C", "Ra", "Rc", "S"]


def sweep_cases(maxlen, minlen=0):
    for n in range(minlen, maxlen + 1):
        for seq in itertools.product(SWEEP_OPS, repeat=n):
            steps = [_sweep_op(o) for o in list(seq) + SWEEP_TAIL]
            yield make_case("sweep", SWEEP_DEVICES, steps)


def strategy():
    from hypothesis import strategies as st

    @st.composite
    def _case(draw):
        ndev = draw(st.integers(2, 4))
        names = ["a", "b", "c", "d"][:ndev]
        dets = {}
        for j, n in enumerate(names):
            kw = {"salt": 10.0 * j, "cfg": {"x": j}}
            if draw(st.integers(0, 3)) > 0:
                kw["keys"] = draw(st.lists(st.sampled_from(POOL), min_size=1, max_size=3, unique=True))
            if draw(st.integers(0, 4)) == 0:
                kw["async_read"] = True
            if draw(st.integers(0, 4)) == 0:
                kw["trigger_delay"] = 0.1
            dets[n] = kw
        devices = {"dets": dets, "motors": {"m": {"delay": draw(st.sampled_from([0.0, 0.1]))}}, "sigs": {}, "flyers": {}}
        readables = names + ["m"]
        gid = [0]

        def create():
            s = draw(st.sampled_from(STREAMS + ["primary"]))
            if draw(st.integers(0, 4)) == 0:
                return M("create", None, s)
            return M("create", None, name=s)

        def read():
            return M("read", draw(st.sampled_from(readables)))

        def configure():
            return M("configure", draw(st.sampled_from(names)), {"x": draw(st.integers(0, 9))})

        def neutral():
            k = draw(st.integers(0, 2))
            gid[0] += 1
            g = f"g{gid[0]}"
            if k == 0:
                return [M("sleep", None, 0.1)]
            if k == 1:
                return [M("set", "m", float(draw(st.integers(-3, 3))), group=g), M("wait", None, group=g)]
            return [M("trigger", draw(st.sampled_from(names)), group=g), M("wait", None, group=g)]

        def declare():
            devs = draw(st.lists(st.sampled_from(readables), min_size=1, max_size=2, unique=True))
            return M("declare_stream", None, *[{"$dev": d} for d in devs], name=draw(st.sampled_from(STREAMS)))

        templates = {s: draw(st.lists(st.sampled_from(readables), min_size=1, max_size=3, unique=True)) for s in STREAMS}

        def extra():
            k = draw(st.integers(0, 9))
            if k < 4:
                return [read()]
            if k == 4:
                return [M("checkpoint")]
            if k == 5:
                return [configure()]
            if k == 6:
                return [create()]
            if k == 7:
                return [declare()]
            return neutral()

        steps = []
        nseg = draw(st.integers(1, 7))
        for _ in range(nseg):
            if draw(st.integers(0, 9)) < 7:  # a bundle
                c = create()
                s = c[4].get("name", c[3][0] if c[3] else None)
                steps.append(c)
                if draw(st.integers(0, 9)) < 7:
                    body = [[M("read", d)] for d in templates[s]]
                else:
                    body = [[read()] for _ in range(draw(st.integers(0, 3)))]
                for _ in range(draw(st.sampled_from([0, 0, 1, 1, 2, 3]))):
                    body.insert(draw(st.integers(0, len(body))), extra())
                for b in body:
                    steps.extend(b)
                t = draw(st.integers(0, 19))
                if t < 15:
                    steps.append(M("save"))
                elif t < 18:
                    steps.append(M("drop"))
            else:  # something outside a bundle
                k = draw(st.integers(0, 7))
                if k == 0:
                    steps.append(M("checkpoint"))
                elif k == 1:
                    steps.append(configure())
                elif k == 2:
                    steps.append(read())
                elif k == 3:
                    steps.append(M("save"))
                elif k == 4:
                    steps.append(M("drop"))
                elif k == 5:
                    steps.append(declare())
                else:
                    steps.extend(neutral())
        return make_case("gen", devices, steps)

    return _case()


def run(ctx):
    maxlen = ctx.pick(3, 5)
    cases = list(sweep_cases(maxlen))
    extra_note = ""
    if ctx.quick:
        # plus a quarter of the length-4 sequences, rotating with the seed
        cases += [c for i, c in enumerate(sweep_cases(4, minlen=4)) if i % 4 == ctx.seed % 4]
        extra_note = " (quick: plus 1/4 of the length-4 sequences)"
    ctx.sweep(cases, check_case, timeout=4 * 3600)
    ctx.extra["sweep_cases"] = len(cases)
    ctx.exhaustive = True
    ctx.bound = (
        f"all sequences of <= {maxlen} operations over {{create, read a, read b, read c, save, drop, checkpoint, configure a}} "
        "(a,b share key k2) inside one run, each followed by a fixed create/read a/read c/save" + extra_note
    )
    ctx.hyp(strategy, check_case, max_examples=ctx.pick(4000, 40000), timeout=4 * 3600, tag="c15")


def replay(case):
    return check_case(case)
