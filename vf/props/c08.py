"""C08 RunEngineInterrupted means paused unless the plan was terminated."""

from __future__ import annotations

from ..core import use_repo

use_repo()

from ..engine import corpus, e1common, e1oracles  # noqa: E402

ID = "C08"
ENGINE = "E1"
DESIGN_REF = "DESIGN.md §8 C08"
TECHNIQUE = "schedule enumeration of pause/suspend/abort/stop/halt requests at every loop-callback boundary (including after the plan's last message) + Hypothesis-generated plans, judged by an outcome/state predicate with an independent resumability model"
LEVEL_TEXT = (
    "For every explored schedule the outcome of RE(...)/resume() is compared with the state: RunEngineInterrupted must "
    "leave the engine paused and resumable unless an abort/stop/halt was accepted or a pause/suspension took effect in a "
    "non-resumable section (then idle with all runs closed); a normal return must mean the plan ran to its return and "
    "the engine is idle."
)
LEVEL_NOTE = "Resumability is modelled from the executed message trace (checkpoint / clear_checkpoint); requests whose effect window straddles a resumability change are not judged."
RULE = (
    "case as in C07. Sweep of all request kinds at every callback boundary of the corpus (incl. 3 boundaries after the "
    "last callback) and generated plans with and without clear_checkpoint. Non-trivial: the request arrived within the "
    "last 10 callbacks of the call or adjacent to a checkpoint/clear_checkpoint message. Distinct = canonical JSON."
)
ASSUMPTIONS = ["requests arrive at boundaries between event-loop callbacks"]
KINDS = ("pause", "defer", "suspend", "abort", "stop", "halt")

def check_case(case):
    from ..core import Result
    from ..engine.harness import run_case

    obs = run_case(case)
    res = Result()
    res.klass = e1common.klass_of(case, obs)
    res.classes.append("landing:" + e1common.landing(obs))
    if obs.stuck:
        res.classes.append("stuck")
    e1oracles.oracle_c08(case, obs, res)
    if case.get("probe") == "pause":
        _judge_pause_probe(case, obs, res)
    return res


def _judge_pause_probe(case, obs, res):
    """After the history the engine is idle again; the next call pauses at an in-plan pause in a resumable section:
    RunEngineInterrupted must then mean 'paused' and the plan must be resumable, whatever earlier calls did."""
    if obs.probe is None or obs.final_state != "idle" or obs.stuck:
        return
    from bluesky.utils import RunEngineInterrupted

    p = obs.probe
    res.classes.append("pause_probe")
    cleared = any(h["msg"].command == "clear_checkpoint" for h in obs.hook[: p.get("hook_start", 0)])
    if cleared:
        res.nontrivial = True
    feats = dict(plan=case.get("name"), earlier_call_cleared_checkpoint=cleared)
    if p.get("outcome") != "raise" or not isinstance(p.get("exc"), RunEngineInterrupted):
        res.fail("probe_pause_not_reported", f"the next call pauses in a resumable section but RE(...) -> {p.get('outcome')} {p.get('exc')!r}", **feats)
    elif p.get("state_after") != "paused":
        res.fail(
            "interrupted_but_not_paused_in_next_call",
            f"the next call (open_run, checkpoint, null, pause, ...) raised RunEngineInterrupted with state {p.get('state_after')!r}: "
            "a pause in a resumable section must leave the engine paused",
            **feats,
        )
    elif p.get("resume_outcome") != "return" or p.get("state_after_resume") != "idle":
        res.fail("probe_resume_failed", f"resume() of the next call -> {p.get('resume_outcome')} {p.get('resume_exc')!r}, state {p.get('state_after_resume')!r}", **feats)


def run(ctx):
    names = corpus.corpus_names(ctx.tier)
    cases = list(corpus.single_request_cases(names, KINDS, decisions=("resume", "abort")))
    if ctx.quick:
        cases = [c for i, c in enumerate(cases) if i % 2 == ctx.seed % 2]
    # a second call on the same engine: plans that use clear_checkpoint run first (to completion, stopped or aborted),
    # then the next call must be pausable and resumable like a first one
    later = []
    for name in ("nonresumable", "nonresumable_toggles", "count2"):
        for stages in ([{"do": "call"}], [{"do": "call", "inj": [{"at": 40, "do": "abort"}]}], [{"do": "call", "inj": [{"at": 30, "do": "pause"}]}, {"do": "abort"}]):
            c = corpus.base_case(name)
            c["stages"] = stages
            c["probe"] = "pause"
            later.append(c)
    cases += later
    ctx.sweep(cases, check_case)
    ctx.extra["sweep_cases"] = len(cases)
    e1common.generated(ctx, check_case, n=ctx.pick(500, 20000), profile="lifecycle")
    e1common.generated(ctx, check_case, n=ctx.pick(300, 10000), profile="nonresumable")


def replay(case):
    return check_case(case)
