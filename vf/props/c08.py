"""C08 RunEngineInterrupted means paused unless the plan was terminated."""

from __future__ import annotations

from ..core import use_repo

use_repo()

from ..engine import corpus, e1common, e1oracles  # noqa: E402

ID = "C08"
ENGINE = "E1"
DESIGN_REF = "DESIGN.md §8 C08"
TECHNIQUE = "schedule enumeration of pause/suspend/abort/stop/halt requests at every loop-callback boundary (including after the plan's last message) + Hypothesis-generated plans, judged by an outcome/state predicate with an independent resumability model"
LEVEL_TEXT = (
    "For every explored schedule the outcome of RE(...)/resume() is compared with the state: RunEngineInterrupted must "
    "leave the engine paused and resumable unless an abort/stop/halt was accepted or a pause/suspension took effect in a "
    "non-resumable section (then idle with all runs closed); a normal return must mean the plan ran to its return and "
    "the engine is idle."
)
LEVEL_NOTE = "Resumability is modelled from the executed message trace (checkpoint / clear_checkpoint); requests whose effect window straddles a resumability change are not judged."
RULE = (
    "case as in C07. Sweep of all request kinds at every callback boundary of the corpus (incl. 3 boundaries after the "
    "last callback) and generated plans with and without clear_checkpoint. Non-trivial: the request arrived within the "
    "last 10 callbacks of the call or adjacent to a checkpoint/clear_checkpoint message. Distinct = canonical JSON."
)
ASSUMPTIONS = ["requests arrive at boundaries between event-loop callbacks"]
KINDS = ("pause", "defer", "suspend", "abort", "stop", "halt")

check_case = e1common.make_check(e1oracles.oracle_c08)


def run(ctx):
    names = corpus.corpus_names(ctx.tier)
    cases = list(corpus.single_request_cases(names, KINDS, decisions=("resume", "abort")))
    if ctx.quick:
        cases = [c for i, c in enumerate(cases) if i % 2 == ctx.seed % 2]
    ctx.sweep(cases, check_case)
    ctx.extra["sweep_cases"] = len(cases)
    e1common.generated(ctx, check_case, n=ctx.pick(500, 20000), profile="lifecycle")
    e1common.generated(ctx, check_case, n=ctx.pick(300, 10000), profile="nonresumable")


def replay(case):
    return check_case(case)
