"""C28 count and repeat run the plan exactly num times with the right delays."""

from __future__ import annotations

from ..core import Result, jsonable, unjson, use_repo

use_repo()

# imported here (in the parent) so that the forked worker processes inherit the loaded modules
import bluesky.plan_stubs  # noqa: E402,F401
import bluesky.plans  # noqa: E402,F401
import bluesky.simulators  # noqa: E402,F401
import hypothesis.strategies  # noqa: E402,F401

ID = "C28"
DESIGN_REF = "DESIGN.md §8 C28"
TECHNIQUE = (
    "Hypothesis-generated (num, delay form, inner plan, per-message virtual durations, cancelling consumer) driven by "
    "a responder with a virtual clock, compared message-by-message with a reference model of repeat/count"
)
LEVEL_TEXT = (
    "Model check of plan_stubs.repeat and plans.count under a virtual clock (the `time` reference read by repeat is "
    "replaced for the duration of a case): exact number of repetitions and of inner-plan invocations, a checkpoint at "
    "the head of every repetition, sleep(d - elapsed) exactly when that remainder is positive (exact dyadic "
    "arithmetic at the boundary), acceptance of iterables with >= num-1 entries, ValueError otherwise with at most "
    "len(delays)+1 repetitions, num=None running until the consumer cancels (close or RequestStop)."
)
LEVEL_NOTE = (
    "Plans are driven by vf/responder.py, not the RunEngine; virtual time only advances inside the responder. A sleep "
    "after the final repetition (the code emits one when a delay entry is available) is accepted either way because "
    "the statement is silent about it; when present its value is checked. Exploration, not proof."
)
RULE = (
    "case = (repeat|count, num in 0..6 or None, delay as scalar/None/list/tuple/array/generator/iterator/infinite "
    "generator with 0..num+2 entries incl. 0, negatives and None, inner plan of 0-4 messages as generator function or "
    "list-returning callable (count: default one_shot or custom per_shot), per-message virtual durations, consumer "
    "stopping after M messages by close() or RequestStop). Non-trivial: >= 2 repetitions ran and at least one delay "
    "decision had a non-zero delay entry (sleep emitted or suppressed by elapsed time), or a ValueError case. "
    "Distinct = distinct canonical JSON."
)
ASSUMPTIONS = [
    "time is observed by repeat only through plan_stubs.time.time() (true on the pinned tree: single use)",
    "durations/delays are multiples of 1/8 in the exact classes so d - elapsed is computed without rounding",
    "a sleep after the last repetition is neither required nor forbidden by the statement",
]
ENGINE = "E2"

TOL = 1e-9
T0 = 1024.0


def _delay_spec(case):
    d = unjson(case["delay"])
    kind = d["kind"]
    if kind == "scalar":
        return kind, None, False, [d["value"]]
    vals = list(d["value"])
    if kind in ("list", "tuple", "array"):
        return kind, len(vals), True, vals
    if kind in ("gen", "iter"):
        return kind, len(vals), False, vals
    if kind == "infgen":
        return kind, None, False, vals
    raise ValueError(kind)


def _make_delay(kind, vals):
    if kind == "scalar":
        return vals[0]
    if kind == "list":
        return list(vals)
    if kind == "tuple":
        return tuple(vals)
    if kind == "array":
        import numpy as np

        return np.array(vals, dtype=float)
    if kind == "gen":
        return (v for v in vals)
    if kind == "iter":
        return iter(list(vals))
    if kind == "infgen":

        def forever():
            while True:
                yield from vals

        return forever()
    raise ValueError(kind)


def _delay_at(kind, L, vals, r):
    """(available, value) of the delay entry consulted after repetition r."""
    if kind == "scalar":
        return True, vals[0]
    if kind == "infgen":
        return True, vals[r % len(vals)]
    if r < L:
        return True, vals[r]
    return False, None


def check_case(case) -> Result:
    from bluesky import plan_stubs as bps
    from bluesky import plans as bp
    from bluesky.utils import Msg, RequestStop

    from .. import responder as R

    res = Result()
    target = case["target"]
    num = case["num"]
    kind, L, sized, vals = _delay_spec(case)
    durs = case["durs"]  # per repetition (cyclic): list of per-inner-message durations
    cp_dur = case.get("cp_dur", 0.0)
    inner_kind = case.get("inner", "genfunc")
    consumer = case.get("consumer") or {"mode": "none"}
    exact = bool(case.get("exact", True))
    feats = {
        "target": target,
        "delay_kind": kind,
        "num_is_none": num is None,
        "sized": sized,
        "n_delays": L,
    }
    res.klass = f"{target}/num={'None' if num is None else ('0' if num == 0 else ('1' if num == 1 else 'n'))}/delay={kind}"

    # ---- expected number of repetitions / outcome (statement level)
    infinite = False
    expect_error = False
    if num is None:
        if L is None:
            infinite = True
            reps_limit = None
        else:
            reps_limit = L + 1
    elif num == 0:
        reps_limit = 0
    elif L is not None and L < num - 1:
        expect_error = True
        reps_limit = L + 1
    else:
        reps_limit = num
    if infinite and consumer["mode"] == "none":
        raise ValueError("generator bug: infinite plan without a consumer")

    calls = [0]

    def inner_msgs():
        r = calls[0]
        calls[0] += 1
        return [Msg("null", None, "inner", r, j) for j in range(len(durs[r % len(durs)]))]

    if inner_kind == "genfunc":

        def inner_plan():
            yield from inner_msgs()

    else:

        def inner_plan():
            return inner_msgs()

    cmd_durs = case.get("cmd_durs", {})

    def duration(msg):
        if msg.command == "checkpoint":
            return cp_dur
        if msg.command == "null" and msg.args and msg.args[0] == "inner":
            _, r, j = msg.args
            return durs[r % len(durs)][j]
        return cmd_durs.get(msg.command, 0.0)

    clock = R.VirtualClock(T0)
    resp = R.Responder(clock=clock, duration=duration)
    dets = [R.FakeDetector(f"d{i}", clock=clock) for i in range(case.get("ndet", 1))]
    delay_obj = _make_delay(kind, vals)
    per_shot = case.get("per_shot", "default")
    if target == "repeat":
        plan = bps.repeat(inner_plan, num=num, delay=delay_obj)
    else:
        kw = {}
        if per_shot == "custom":
            kw["per_shot"] = lambda detectors: inner_plan()  # noqa: E731
        dd = tuple(dets) if case.get("dets_tuple") else dets
        plan = bp.count(dd, num, delay_obj, **kw)

    M = consumer.get("after")
    cap = 400 + (0 if infinite else (reps_limit + 1) * (12 + 4 * len(dets)))
    with R.virtual_time(clock):
        try:
            if consumer["mode"] == "close":
                status, value = R.drive(plan, resp, cap=cap, stop_after=M)
            elif consumer["mode"] == "throw":
                status, value = R.drive(plan, resp, cap=cap, throw_after=(M, RequestStop()))
            else:
                status, value = R.drive(plan, resp, cap=cap)
        except R.Runaway:
            return res.fail("runaway", f"more than {cap} messages (num={num!r}, {L} delays)", **feats)
    trace = resp.trace

    # ---- isolate the repetitions ("body") from count's run bracketing
    lo, hi = 0, len(trace)
    if target == "count":
        opens = [i for i, m in enumerate(trace) if m.command == "open_run"]
        if not opens:
            if status == "raised" and isinstance(value, ValueError) and expect_error:
                lo = hi  # raised before the run was opened: no repetitions
            elif status in ("closed",) or (status == "raised" and isinstance(value, RequestStop)):
                lo = hi
            else:
                return res.fail("no_open_run", f"count produced no open_run; outcome {status} {value!r}", **feats)
        else:
            lo = opens[0] + 1
            md = trace[opens[0]].kwargs
            if md.get("num_points") != num:
                return res.fail("md_num_points", f"num_points={md.get('num_points')!r} for num={num!r}", **feats)
            # the repetitions end where count's own cleanup starts (close_run; unstage when a
            # cancellation arrives before the run wrapper is entered)
            closes = [i for i, m in enumerate(trace) if i >= lo and m.command in ("close_run", "unstage")]
            if closes:
                hi = closes[0]
    body = list(range(lo, hi))  # indices into trace

    custom_inner = target == "repeat" or per_shot == "custom"

    # ---- walk the body against the model
    i = 0  # position in body
    r = 0  # repetition index
    decisions = 0  # delay decisions with a non-zero entry
    trailing = None
    stopped_by_consumer = consumer["mode"] != "none" and status != "returned" and not (
        status == "raised" and isinstance(value, ValueError)
    )

    def at(k):
        return trace[body[k]] if k < len(body) else None

    ended_mid_rep = False
    while True:
        if at(i) is None:
            break
        if reps_limit is not None and r >= reps_limit:
            return res.fail(
                "too_many_repetitions",
                f"a repetition #{r + 1} starts ({at(i)}) but only {reps_limit} are allowed "
                f"(num={num!r}, {L} delay entries)",
                **feats,
            )
        m = at(i)
        if m.command != "checkpoint":
            return res.fail("no_checkpoint", f"repetition {r} starts with {m} instead of a checkpoint", **feats)
        t_start = resp.t_in[body[i]]
        i += 1
        # inner plan
        last = body[i - 1]
        if custom_inner:
            k_r = len(durs[r % len(durs)])
            for j in range(k_r):
                m = at(i)
                if m is None:
                    ended_mid_rep = True
                    break
                if not (m.command == "null" and m.args == ("inner", r, j)):
                    return res.fail("inner_messages", f"repetition {r}: expected inner message {j}, saw {m}", **feats)
                last = body[i]
                i += 1
        else:
            saw_save = False
            while True:
                m = at(i)
                if m is None:
                    ended_mid_rep = True
                    break
                if m.command == "sleep":
                    return res.fail("sleep_inside_shot", f"repetition {r}: sleep before the reading was saved", **feats)
                last = body[i]
                i += 1
                if m.command == "save":
                    saw_save = True
                    break
            if not saw_save:
                ended_mid_rep = True
        if ended_mid_rep:
            break
        elapsed = resp.t_out[last] - t_start
        avail, d = _delay_at(kind, L, vals, r)
        is_last = reps_limit is not None and r == reps_limit - 1 and not expect_error
        nxt = at(i)
        slept = nxt is not None and nxt.command == "sleep"
        if nxt is None and stopped_by_consumer:
            r += 1
            break  # cancelled exactly at the delay decision: nothing more to compare
        want_sleep = False
        rem = None
        if avail and d is not None:
            rem = float(d) - elapsed
            if d != 0:
                decisions += 1
            if exact:
                want_sleep = rem > 0
            else:
                want_sleep = rem > TOL
                if abs(rem) <= TOL:
                    want_sleep = slept  # rounding-level remainder: either is fine
        if slept:
            if not want_sleep:
                return res.fail(
                    "unexpected_sleep",
                    f"repetition {r}: {nxt} but delay entry={d!r} (available={avail}), elapsed={elapsed}",
                    exact=exact,
                    **feats,
                )
            got = nxt.args[0]
            if abs(float(got) - rem) > (0.0 if exact else TOL):
                return res.fail(
                    "wrong_sleep", f"repetition {r}: slept {got!r}, remainder of the delay is {rem!r}", exact=exact, **feats
                )
            if is_last:
                trailing = True
            i += 1
        elif want_sleep:
            if is_last:
                trailing = False
            else:
                return res.fail(
                    "missing_sleep",
                    f"repetition {r}: delay {d!r}, elapsed {elapsed} -> {rem} s left, but no sleep followed (next: {nxt})",
                    exact=exact,
                    **feats,
                )
        r += 1

    reps_run = r  # completed repetitions
    started = r + (1 if ended_mid_rep else 0)
    if trailing is not None:
        res.classes.append(f"trailing_sleep_after_last_repetition={'emitted' if trailing else 'absent'}")

    # ---- inner plan invocations
    if custom_inner:
        # a cancelling consumer may stop between a repetition's checkpoint and the inner plan's first message
        # (close), or throw into the yield of the last message it saw (the repetition then never completes)
        ok = (reps_run - 1 <= calls[0] <= started) if stopped_by_consumer else calls[0] == started
        if not ok:
            return res.fail("inner_call_count", f"inner plan called {calls[0]} times for {started} repetitions", **feats)

    # ---- outcome
    if stopped_by_consumer:
        res.classes.append("cancelled_by_consumer")
        if status == "raised" and not isinstance(value, RequestStop):
            return res.fail("cancel_outcome", f"cancelling raised {type(value).__name__}: {value}", **feats)
    elif expect_error:
        res.classes.append("expect_ValueError")
        if not (status == "raised" and isinstance(value, ValueError)):
            return res.fail(
                "no_value_error",
                f"num={num} with {L} delay entries ({kind}) must raise ValueError; outcome {status} {value!r} "
                f"after {reps_run} repetitions",
                **feats,
            )
        if ended_mid_rep:
            return res.fail("error_mid_repetition", f"ValueError raised inside repetition {r}", **feats)
    else:
        if status != "returned":
            if num is None and status == "raised" and isinstance(value, ValueError) and reps_run <= reps_limit:
                res.classes.append("num_None_finite_delays_raise")
            else:
                return res.fail(
                    "unexpected_outcome",
                    f"num={num!r} with {kind} delays ({L} entries) is acceptable but outcome is {status} "
                    f"{type(value).__name__ if status == 'raised' else ''} {value!r} after {reps_run} repetitions",
                    **feats,
                )
        elif ended_mid_rep:
            return res.fail("incomplete_repetition", f"repetition {r} incomplete", **feats)
        elif reps_run != reps_limit:
            return res.fail(
                "wrong_repetition_count",
                f"ran {reps_run} repetitions, expected {reps_limit} (num={num!r}, {L} delay entries)",
                **feats,
            )
    res.nontrivial = (reps_run >= 2 and decisions >= 1) or (expect_error and status == "raised")
    res.obs = {"reps": reps_run, "status": status}
    return res


# ------------------------------------------------------------------------------------------


def _strategy():
    from hypothesis import strategies as st

    eighth = st.integers(0, 40).map(lambda k: k / 8)
    delay_exact = st.one_of(
        st.integers(-8, 48).map(lambda k: k / 8),
        st.sampled_from([0, 0.0, 1, 2, 5, -1, None]),
    )
    delay_float = st.one_of(st.floats(-1, 6, allow_nan=False), st.sampled_from([0, 0.1, 0.3, None]))

    @st.composite
    def cases(draw):
        exact = draw(st.integers(0, 4)) > 0
        dval = delay_exact if exact else delay_float
        dur = eighth if exact else st.one_of(st.floats(0, 5, allow_nan=False), st.just(0.1), st.just(0.0))
        target = draw(st.sampled_from(["repeat", "repeat", "count"]))
        num = draw(st.one_of(st.none(), st.integers(0, 6), st.integers(1, 6)))
        kind = draw(st.sampled_from(["scalar", "scalar", "list", "tuple", "array", "gen", "iter", "infgen"]))
        case = {"target": target, "num": num, "exact": exact}
        if kind == "scalar":
            value = draw(dval)
        else:
            base = 4 if num is None else num
            # lengths concentrate around num-1 (the documented boundary)
            L = draw(st.one_of(st.integers(0, base + 2), st.integers(max(0, base - 2), base)))
            if kind == "infgen":
                L = max(1, L)
            elem = dval.filter(lambda v: v is not None) if kind == "array" else dval
            value = draw(st.lists(elem, min_size=L, max_size=L))
        case["delay"] = jsonable({"kind": kind, "value": value})
        R_ = draw(st.integers(1, 3))
        case["durs"] = [draw(st.lists(dur, min_size=0, max_size=4)) for _ in range(R_)]
        case["cp_dur"] = draw(st.one_of(st.just(0.0), dur))
        case["inner"] = draw(st.sampled_from(["genfunc", "listfunc"]))
        if target == "count":
            case["per_shot"] = draw(st.sampled_from(["default", "custom"]))
            case["ndet"] = draw(st.integers(1, 2))
            case["dets_tuple"] = draw(st.booleans())
            case["cmd_durs"] = {
                "trigger": draw(st.one_of(st.just(0.0), dur)),
                "read": draw(st.one_of(st.just(0.0), dur)),
                "save": draw(st.one_of(st.just(0.0), dur)),
            }
        infinite = num is None and kind in ("scalar", "infgen")
        if infinite or draw(st.integers(0, 9)) == 0:
            case["consumer"] = {
                "mode": draw(st.sampled_from(["close", "throw"])),
                "after": draw(st.integers(1, 40)),
            }
        return case

    return cases()


def _boundary_cases():
    """Deterministic sweep of the documented boundary: every num 0..5 x delay length 0..num+1 x every
    iterable form, with zero / equal / larger elapsed time."""
    out = []
    for target in ("repeat", "count"):
        for num in [0, 1, 2, 3, 4, 5, None]:
            base = 3 if num is None else num
            for kind in ("list", "tuple", "array", "gen", "iter"):
                for L in range(0, base + 2):
                    for dv, durs in ((1.0, [[0.25, 0.25]]), (0.5, [[0.25, 0.25]]), (0.25, [[0.5]]), (0.0, [[]])):
                        c = {
                            "target": target,
                            "num": num,
                            "exact": True,
                            "delay": {"kind": kind, "value": [dv] * L},
                            "durs": durs,
                            "cp_dur": 0.0,
                            "inner": "genfunc",
                        }
                        if target == "count":
                            c.update(per_shot="custom", ndet=1)
                        out.append(c)
            if num is not None:
                for dv in (0, 0.0, 1, 0.5, -1.0, None):
                    for durs in ([[]], [[0.5]], [[0.25, 0.25], [1.0, 0.5]]):
                        for cp in (0.0, 0.5):
                            c = {
                                "target": target,
                                "num": num,
                                "exact": True,
                                "delay": {"kind": "scalar", "value": dv},
                                "durs": durs,
                                "cp_dur": cp,
                                "inner": "listfunc",
                            }
                            if target == "count":
                                c.update(per_shot="default", ndet=1, cmd_durs={"trigger": 0.25})
                            out.append(c)
    return out


def run(ctx):
    cases = _boundary_cases()
    seen = {}
    for c in cases:
        seen.setdefault(repr(c), c)
    ctx.sweep(list(seen.values()), check_case)
    ctx.extra["boundary_sweep"] = len(seen)
    ctx.hyp(_strategy, check_case, max_examples=ctx.pick(6000, 400000))


def replay(case):
    return check_case(case)
