"""C10 Interrupting a non-resumable section aborts cleanly."""

from __future__ import annotations

from ..core import use_repo

use_repo()

from ..engine import corpus, e1common, e1oracles  # noqa: E402

ID = "C10"
ENGINE = "E1"
DESIGN_REF = "DESIGN.md §8 C10"
TECHNIQUE = "schedule enumeration + Hypothesis-generated plans with clear_checkpoint and cleanup wrappers; pause/suspension at every loop-callback boundary of the non-resumable section; predicate over state history, plan-side cleanup log and documents"
LEVEL_TEXT = (
    "Hard pauses and suspensions are injected at every callback boundary after clear_checkpoint (corpus plan) and at "
    "generated positions of generated plans; when the independent resumability model says no checkpoint is in effect "
    "during the whole arrival-to-effect window, the engine must never enter 'paused', every entered try/finally and "
    "finalize/contingency cleanup must run, all runs must be closed, RE(...) must raise RunEngineInterrupted and the "
    "engine must be idle."
)
LEVEL_NOTE = "Requests whose effect window straddles a checkpoint/clear_checkpoint are not judged; requests after a later checkpoint belong to C08 (known finding F3)."
RULE = (
    "case = (plan with clear_checkpoint, pause|suspend injection). Sweep over the 'nonresumable' corpus plan at every "
    "callback boundary + Hypothesis profile 'nonresumable'. Non-trivial: at least one cleanup clause had been entered "
    "and at least one run was open when the request arrived in the non-resumable section. Distinct = canonical JSON."
    ' Generated requests are aimed at the m-th message after the clear_checkpoint (at_cmd); corpus plans nonresumable_toggles, nonresumable_rejected_checkpoint (a checkpoint rejected inside an event bundle and swallowed by the plan does not make the section resumable) and in-plan pause variants are swept completely.'
)
ASSUMPTIONS = ["requests arrive at boundaries between event-loop callbacks"]

check_case = e1common.make_check(e1oracles.oracle_c10)


def run(ctx):
    cases = list(
        corpus.single_request_cases(
            ["nonresumable", "nonresumable_toggles", "nonresumable_rejected_checkpoint", "pause_msg_nonresumable", "defer_msg_nonresumable"], ("pause", "suspend"), decisions=("resume",)
        )
    )
    ctx.sweep(cases, check_case)
    ctx.extra["sweep_cases"] = len(cases)
    e1common.generated(ctx, check_case, n=ctx.pick(1500, 30000), profile="nonresumable")


def replay(case):
    return check_case(case)
