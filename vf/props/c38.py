"""C38 JSON truncation makes any numeric payload JSON-safe without changing safe values."""

from __future__ import annotations

import math

from ..core import Result, use_repo

use_repo()

ID = "C38"
DESIGN_REF = "DESIGN.md §8 C38"
TECHNIQUE = (
    "Hypothesis-generated nested structures (dict/list/tuple/ndarray of Python and numpy numbers, biased to the "
    "2**53 and float-range boundaries) + a fixed boundary sweep, checked leaf by leaf against the stated range predicates"
)
LEVEL_TEXT = (
    "Each structure is rebuilt from the case, passed to truncate_json_overflow, and the result is walked in lockstep "
    "with the input: same shape, every in-range leaf unchanged (value, bool/int/float kind, sign of zero), every "
    "out-of-range integral leaf brought within +-(2**53-1), every float finite or NaN (NaN only from NaN)."
)
LEVEL_NOTE = (
    "Exploration, not proof. The finite stand-in for +-inf is only required to be finite and of the same sign (the "
    "code documents ~1.7976e308). longdouble, complex, 0-d arrays, sets, bytes are outside the domain."
)
RULE = (
    "case = encoded tree: dict (str keys) / list / tuple / ndarray (ndim 1-2, every integer and float16/32/64 dtype) "
    "over leaves Python int (any size), bool, float (incl. +-inf, NaN, +-0.0, subnormals), numpy scalars, str, None. "
    "Leaves are drawn with a strong bias to +-(2**53-1), +-2**53, +-(2**53+1), 2**63, 2**64-1, float max, inf. "
    "Non-trivial: the structure contains at least one leaf that is out of range (must change) and it is nested "
    "inside at least one container, or at least two numeric leaves of different safety. Distinct = distinct canonical "
    "JSON of the case."
)
ASSUMPTIONS = [
    "'integral value' = value of integer type or float with zero fractional part (the function's docstring)",
    "'unchanged' = equal value, same bool/int/float kind and same sign of zero (the numpy-vs-Python scalar type is not compared)",
    "sequences and arrays may come back as lists (observed and documented in the code comments); mappings as dicts with the same keys",
]
ENGINE = "E3"

LIM = 2**53 - 1

_INT_DTYPES = ["int8", "int16", "int32", "int64", "uint8", "uint16", "uint32", "uint64"]
_FLOAT_DTYPES = ["float16", "float32", "float64"]


# ------------------------------------------------------------------------------------------
# case encoding


def _decode(node):
    import numpy as np

    t = node["t"]
    if t == "dict":
        return {k: _decode(v) for k, v in node["items"]}
    if t == "list":
        return [_decode(v) for v in node["items"]]
    if t == "tuple":
        return tuple(_decode(v) for v in node["items"])
    if t == "nd":
        dt = np.dtype(node["dtype"])
        if dt.kind == "f":
            vals = [float.fromhex(h) for h in node["values"]]
        else:
            vals = node["values"]
        return np.array(vals, dtype=dt).reshape(node["shape"])
    if t == "int":
        return int(node["v"])
    if t == "bool":
        return bool(node["v"])
    if t == "float":
        return float.fromhex(node["hex"])
    if t == "np":
        dt = np.dtype(node["dtype"])
        if dt.kind == "f":
            return dt.type(float.fromhex(node["hex"]))
        if dt.kind == "b":
            return np.bool_(node["v"])
        return dt.type(int(node["v"]))
    if t == "str":
        return node["v"]
    if t == "none":
        return None
    raise ValueError(t)


def _leaf_kind(x):
    """Outcome-independent description of an input leaf's type."""
    import numpy as np

    if isinstance(x, (bool, np.bool_)):
        return "bool"
    if isinstance(x, int):
        return "py_int"
    if isinstance(x, np.integer):
        return "numpy_integer"
    if isinstance(x, np.float64):
        return "numpy_float64"
    if isinstance(x, float):
        return "py_float"
    if isinstance(x, np.floating):
        return "numpy_float_not_f64"
    return "other"


def _is_int_kind(x):
    import numpy as np

    return isinstance(x, (int, np.integer)) and not isinstance(x, (bool, np.bool_))


def _is_float_kind(x):
    import numpy as np

    return isinstance(x, (float, np.floating))


def _is_bool_kind(x):
    import numpy as np

    return isinstance(x, (bool, np.bool_))


def _safety(x):
    """'safe' (must stay unchanged), 'inf' (must become finite), 'big' (integral beyond +-LIM)."""
    if _is_bool_kind(x) or not (_is_int_kind(x) or _is_float_kind(x)):
        return "safe"
    if _is_float_kind(x):
        f = float(x)
        if f != f:
            return "safe"
        if f in (math.inf, -math.inf):
            return "inf"
        if f != math.floor(f):
            return "safe"
        return "safe" if -LIM <= int(f) <= LIM else "big"
    return "safe" if -LIM <= int(x) <= LIM else "big"


def _compare(inp, out, path, res, seen, stats):
    import numpy as np

    def fail(kind, detail, **f):
        key = (kind, f.get("leaf_kind"))
        if key in seen:
            return
        seen.add(key)
        res.fail(kind, f"at {path or '<root>'}: {detail}", **f)

    if isinstance(inp, dict):
        stats["containers"] += 1
        if not isinstance(out, dict):
            return fail("shape_changed", f"mapping became {type(out).__name__}", leaf_kind="container")
        if list(out.keys()) != list(inp.keys()):
            return fail("shape_changed", f"keys {list(inp.keys())!r} became {list(out.keys())!r}", leaf_kind="container")
        for k in inp:
            _compare(inp[k], out[k], f"{path}[{k!r}]", res, seen, stats)
        return
    if isinstance(inp, (list, tuple, np.ndarray)):
        stats["containers"] += 1
        if not isinstance(out, (list, tuple, np.ndarray)):
            return fail("shape_changed", f"sequence became {type(out).__name__}: {out!r}", leaf_kind="container")
        if len(out) != len(inp):
            return fail("shape_changed", f"sequence of length {len(inp)} became length {len(out)}", leaf_kind="container")
        for i in range(len(inp)):
            _compare(inp[i], out[i], f"{path}[{i}]", res, seen, stats)
        return

    # leaf
    lk = _leaf_kind(inp)
    safety = _safety(inp)
    stats["leaves"].append((lk, safety))
    feats = {"leaf_kind": lk, "leaf_safety": safety}
    if lk == "other":
        if not (out is inp or (type(out) is type(inp) and out == inp)):
            fail("safe_value_changed", f"non-numeric leaf {inp!r} became {out!r}", **feats)
        return
    if not (_is_int_kind(out) or _is_float_kind(out) or _is_bool_kind(out)):
        return fail("shape_changed", f"number {inp!r} became non-number {out!r}", **feats)
    # universal output predicates
    if _is_float_kind(out):
        fo = float(out)
        if fo in (math.inf, -math.inf):
            return fail("non_finite_float", f"{type(inp).__name__} {inp!r} -> {out!r} is not finite", **feats)
        if fo != fo and not (_is_float_kind(inp) and float(inp) != float(inp)):
            return fail("nan_invented", f"{inp!r} -> NaN", **feats)
    if safety == "safe":
        same_kind = (
            (_is_bool_kind(inp) and _is_bool_kind(out))
            or (_is_int_kind(inp) and _is_int_kind(out))
            or (_is_float_kind(inp) and _is_float_kind(out))
        )
        if _is_float_kind(inp) and float(inp) != float(inp):
            ok = _is_float_kind(out) and float(out) != float(out)
        else:
            ok = same_kind and bool(out == inp)
            if ok and _is_float_kind(inp) and float(inp) == 0.0:
                ok = math.copysign(1.0, float(out)) == math.copysign(1.0, float(inp))
        if not ok:
            fail("safe_value_changed", f"in-range {type(inp).__name__} {inp!r} became {type(out).__name__} {out!r}", **feats)
        return
    # out-of-range input
    positive = bool(inp > 0)
    if safety == "big" or _is_int_kind(out):
        # integral results (and every result for a finite integral input) must fit in 53 bits
        if _is_int_kind(out):
            v = int(out)
        else:
            fo = float(out)
            v = int(fo) if fo == math.floor(fo) else None
        if safety == "big" and v is None:
            return fail("integral_out_of_range", f"{type(inp).__name__} {inp!r} -> non-integral {out!r}", **feats)
        if v is not None and not (-LIM <= v <= LIM) and (safety == "big" or _is_int_kind(out)):
            return fail(
                "integral_out_of_range",
                f"{type(inp).__name__} {inp!r} -> {type(out).__name__} {out!r}, outside +-(2**53-1)",
                **feats,
            )
    if bool(out > 0) != positive or bool(out == 0):
        fail("sign_flipped", f"{inp!r} -> {out!r} does not keep the sign of the truncated value", **feats)


def check_case(case) -> Result:
    import warnings

    from bluesky.utils import truncate_json_overflow

    res = Result()
    inp = _decode(case["tree"])
    arg = _decode(case["tree"])  # separate copy handed to the code
    try:
        with warnings.catch_warnings():
            warnings.simplefilter("ignore")
            out = truncate_json_overflow(arg)
    except Exception as e:
        res.klass = "raised"
        return res.fail("unexpected_exception", f"{type(e).__name__}: {e}", leaf_kind="n/a")
    stats = {"containers": 0, "leaves": []}
    _compare(inp, out, "", res, set(), stats)
    leaves = stats["leaves"]
    unsafe = [lk for lk, s in leaves if s != "safe"]
    numeric_safe = [lk for lk, s in leaves if s == "safe" and lk != "other"]
    res.nontrivial = bool(unsafe) and (stats["containers"] >= 1) or (bool(unsafe) and bool(numeric_safe))
    res.klass = "needs-truncation" if unsafe else "all-safe"
    res.classes = sorted({f"leaf:{lk}/{s}" for lk, s in leaves})
    return res


# ------------------------------------------------------------------------------------------
# generators

_BOUNDARY_INTS = [
    0, 1, -1, LIM, -LIM, LIM - 1, -(LIM - 1), LIM + 1, -(LIM + 1), LIM + 2, -(LIM + 2), 2**60, -(2**60),
    2**63 - 1, -(2**63), 2**63, 2**64 - 1, 2**64, 10**30, -(10**30), 10**400,
]  # fmt: skip
_BOUNDARY_FLOATS = [
    0.0, -0.0, 1.0, -1.0, 0.5, 3.14, 5e-324, 2.2250738585072014e-308, float(LIM), -float(LIM), float(LIM - 1),
    float(2**53), -float(2**53), float(2**53 + 2), 2.0**60, -(2.0**60), 4503599627370495.5, 1e22, 1e300, -1e300,
    1.7976e308, 1.7976931348623157e308, -1.7976931348623157e308, math.inf, -math.inf, math.nan,
]  # fmt: skip


def _int_leaf(v):
    return {"t": "int", "v": v}


def _float_leaf(f):
    return {"t": "float", "hex": float(f).hex()}


def _np_leaf(dtype, v):
    import numpy as np

    dt = np.dtype(dtype)
    if dt.kind == "f":
        with np.errstate(all="ignore"):
            return {"t": "np", "dtype": dtype, "hex": float(dt.type(v)).hex()}
    info = np.iinfo(dt)
    v = min(max(int(v), info.min), info.max)
    return {"t": "np", "dtype": dtype, "v": v}


def _boundary_cases():
    import numpy as np

    leaves = []
    for v in _BOUNDARY_INTS:
        leaves.append(_int_leaf(v))
        for dt in ("int64", "uint64", "int32", "uint8"):
            info = np.iinfo(dt)
            if info.min <= v <= info.max:
                leaves.append(_np_leaf(dt, v))
    for f in _BOUNDARY_FLOATS:
        leaves.append(_float_leaf(f))
        for dt in _FLOAT_DTYPES:
            leaves.append(_np_leaf(dt, f))
    leaves += [{"t": "bool", "v": True}, {"t": "bool", "v": False}, {"t": "np", "dtype": "bool", "v": True}]
    leaves += [{"t": "str", "v": "9007199254740993"}, {"t": "str", "v": ""}, {"t": "none"}]
    cases = []
    for lf in leaves:
        cases.append({"tree": lf})
        cases.append({"tree": {"t": "dict", "items": [["a", lf], ["b", _int_leaf(42)]]}})
        cases.append({"tree": {"t": "list", "items": [_float_leaf(3.14), {"t": "tuple", "items": [lf]}]}})
    # arrays of every dtype holding that dtype's extremes
    for dt in _INT_DTYPES:
        info = np.iinfo(dt)
        vals = [int(info.min), int(info.max), 0, min(int(info.max), LIM), min(int(info.max), LIM + 1)]
        cases.append({"tree": {"t": "nd", "dtype": dt, "shape": [5], "values": vals}})
        cases.append({"tree": {"t": "dict", "items": [["arr", {"t": "nd", "dtype": dt, "shape": [1, 5], "values": vals}]]}})
    for dt in _FLOAT_DTYPES:
        fi = np.finfo(dt)
        vals = [float(fi.max), float(-fi.max), math.inf, -math.inf, math.nan, 0.5, -0.0, float(fi.tiny)]
        cases.append({"tree": {"t": "nd", "dtype": dt, "shape": [8], "values": [v.hex() for v in vals]}})
        cases.append({"tree": {"t": "list", "items": [{"t": "nd", "dtype": dt, "shape": [2, 4], "values": [v.hex() for v in vals]}]}})
    cases.append({"tree": {"t": "nd", "dtype": "int64", "shape": [0], "values": []}})
    cases.append({"tree": {"t": "nd", "dtype": "float32", "shape": [2, 0], "values": []}})
    cases.append({"tree": {"t": "list", "items": []}})
    cases.append({"tree": {"t": "dict", "items": []}})
    return cases


def _strategy():
    import numpy as np
    from hypothesis import strategies as st

    py_int = st.one_of(
        st.sampled_from(_BOUNDARY_INTS),
        st.integers(-(2**70), 2**70),
        st.integers(-1000, 1000),
        st.integers(LIM - 3, LIM + 3),
        st.integers(-LIM - 3, -LIM + 3),
    ).map(_int_leaf)
    py_float = st.one_of(
        st.sampled_from(_BOUNDARY_FLOATS),
        st.floats(allow_nan=True, allow_infinity=True),
        st.floats(-1e6, 1e6),
        st.integers(-(2**62), 2**62).map(float),
        st.integers(LIM - 4, LIM + 4).map(float),
    ).map(_float_leaf)

    @st.composite
    def np_int(draw):
        dt = draw(st.sampled_from(_INT_DTYPES + ["int64", "uint64"]))
        info = np.iinfo(dt)
        v = draw(
            st.one_of(
                st.integers(int(info.min), int(info.max)),
                st.sampled_from([int(info.min), int(info.max), 0]),
                st.sampled_from(_BOUNDARY_INTS),
            )
        )
        return _np_leaf(dt, v)

    @st.composite
    def np_float(draw):
        dt = draw(st.sampled_from(_FLOAT_DTYPES))
        f = draw(
            st.one_of(
                st.sampled_from(_BOUNDARY_FLOATS),
                st.floats(allow_nan=True, allow_infinity=True, width={"float16": 16, "float32": 32, "float64": 64}[dt]),
                st.integers(-(2**62), 2**62).map(float),
            )
        )
        return _np_leaf(dt, f)

    other = st.one_of(
        st.booleans().map(lambda b: {"t": "bool", "v": b}),
        st.booleans().map(lambda b: {"t": "np", "dtype": "bool", "v": b}),
        st.text(max_size=5).map(lambda s: {"t": "str", "v": s}),
        st.just({"t": "none"}),
    )
    leaf = st.one_of(py_int, py_float, np_int(), np_float(), py_int, py_float, np_int(), np_float(), other)

    @st.composite
    def ndarray(draw):
        dt = draw(st.sampled_from(_INT_DTYPES + _FLOAT_DTYPES + ["int64", "uint64", "float32"]))
        shape = draw(st.one_of(st.tuples(st.integers(0, 4)), st.tuples(st.integers(0, 3), st.integers(0, 3))))
        n = int(np.prod(shape))
        if np.dtype(dt).kind == "f":
            elems = draw(st.lists(np_float(), min_size=n, max_size=n))
            with np.errstate(all="ignore"):
                vals = [float(np.dtype(dt).type(float.fromhex(e["hex"]))).hex() for e in elems]
        else:
            info = np.iinfo(dt)
            ints = st.one_of(
                st.integers(int(info.min), int(info.max)), st.sampled_from([int(info.min), int(info.max), 0, 1])
            )
            if info.max > LIM:
                ints = st.one_of(ints, st.integers(LIM - 2, LIM + 2), st.just(2**60))
            vals = draw(st.lists(ints, min_size=n, max_size=n))
        return {"t": "nd", "dtype": dt, "shape": list(shape), "values": vals}

    def extend(children):
        return st.one_of(
            st.lists(children, max_size=4).map(lambda xs: {"t": "list", "items": xs}),
            st.lists(children, max_size=4).map(lambda xs: {"t": "tuple", "items": xs}),
            st.dictionaries(st.text(alphabet="abcxyz_", min_size=1, max_size=3), children, max_size=4).map(
                lambda d: {"t": "dict", "items": [[k, v] for k, v in d.items()]}
            ),
        )

    tree = st.recursive(st.one_of(leaf, leaf, leaf, ndarray()), extend, max_leaves=12)
    return tree.map(lambda t: {"tree": t})


def run(ctx):
    cases = _boundary_cases()
    ctx.sweep(cases, check_case, procs=4)
    ctx.extra["boundary_sweep"] = len(cases)
    ctx.hyp(_strategy, check_case, max_examples=ctx.pick(4000, 80000))


def replay(case):
    return check_case(case)
