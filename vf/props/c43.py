"""C43 PersistentDict keeps what was last written."""

from __future__ import annotations

import copy
import gc
import os
import shutil
import tempfile
import warnings

from ..core import Result, jsonable, unjson, use_repo

use_repo()

ID = "C43"
DESIGN_REF = "DESIGN.md §8 C43"
TECHNIQUE = "Hypothesis-generated operation histories interpreted against a model dict, with reopen and crash-copy check points"
LEVEL_TEXT = (
    "Generated histories of __setitem__/__delitem__/pop/popitem/update/setdefault/clear/in-place mutation/flush/reload "
    "on a real PersistentDict in a fresh temp directory; at every reopen (drop the instance, gc.collect(), open the "
    "directory again) and crash-reopen (copy the directory as it is, open the copy) the contents must equal the model "
    "of last synced top-level values (keys exactly; values deep, type- and numpy-aware). The failing history is a JSON "
    "list of operations replayed without Hypothesis."
)
LEVEL_NOTE = (
    "One instance at a time, one process; crash points are between operations (a copy of the directory), not inside a "
    "file write; values are msgpack-stable (no tuples, str dict keys, 64-bit ints) and numpy arrays; a key mutated in "
    "place and not flushed/re-set may show any version it had since its last sync. Exploration, not proof."
)
RULE = (
    "case = list of operations over a pool of 1-4 keys (incl. '', '.', '..', 'a/b', unicode, '#', '%') with generated "
    "msgpack/numpy values, always ending in a reopen. Non-trivial: at least one reopen/crash check point preceded by "
    ">=2 effective state changes (a key written, deleted, mutated in place, flushed, or a reload) since the previous check point, with a non-empty model or a deletion among them. "
    "Distinct = distinct canonical JSON of the history."
)
ASSUMPTIONS = [
    "one PersistentDict instance per directory at a time (crash copies live in their own directory)",
    "dropping the last reference and gc.collect() runs (or may not run) the finalizer; both outcomes are accepted for "
    "values mutated in place, explicit writes/deletes must always be there",
    "nested dict keys avoid msgpack_numpy's reserved markers ('nd', 'complex')",
]
ENGINE = "E3"

def _deep_eq(a, b):
    import numpy as np

    if type(a) is not type(b):
        return False
    if isinstance(a, dict):
        return set(a) == set(b) and all(_deep_eq(a[k], b[k]) for k in a)
    if isinstance(a, list):
        return len(a) == len(b) and all(_deep_eq(x, y) for x, y in zip(a, b))
    if isinstance(a, float):
        return a == b or (a != a and b != b)
    if isinstance(a, np.ndarray):
        return a.dtype == b.dtype and a.shape == b.shape and bool(np.array_equal(a, b, equal_nan=a.dtype.kind in "fc"))
    if isinstance(a, np.generic):
        return a.dtype == b.dtype and bool(a == b or (a != a and b != b))
    return a == b


def _short(x, n=160):
    r = repr(x)
    return r if len(r) <= n else r[:n] + "..."


class _Stop(Exception):
    pass


_FROZEN = {"pid": None}


def _freeze_heap_once():
    """gc.collect() is part of every reopen; with the interpreter's long-lived objects (numpy, hypothesis, bluesky)
    in the permanent generation a collection costs microseconds instead of tens of milliseconds.  No effect on what
    is collected among the objects a case creates."""
    if _FROZEN["pid"] != os.getpid():
        gc.collect()
        gc.freeze()
        _FROZEN["pid"] = os.getpid()


def check_case(case) -> Result:
    from bluesky.utils import PersistentDict

    _freeze_heap_once()
    res = Result()
    ops = case["ops"]
    names = [o[0] for o in ops]
    res.klass = "len<=4" if len(ops) <= 4 else ("len<=8" if len(ops) <= 8 else "len>8")
    for lab in ("reload", "mutate", "crash_reopen", "flush", "clear", "popitem"):
        if lab in names:
            res.classes.append(f"has_{lab}")
    if any(o[0] in ("del", "pop") for o in ops):
        res.classes.append("has_delete")

    base = tempfile.mkdtemp(prefix="vf_c43_", dir="/tmp")
    d = os.path.join(base, "pd")
    p = None
    q = None
    cache = {}  # model of the live view
    allowed = {}  # key -> acceptable persisted versions; [0] is what the last explicit sync wrote
    snapshot_keys = None  # keys held by the instance's first cache object at its first reload()
    stale = set()  # of those, the ones explicitly written / deleted afterwards
    since = 0  # state-changing ops since the last check point
    deleted_since = False
    nontrivial = False
    ncrash = 0

    def feats(kind):
        return {"reopen": kind, "stale_finalizer_exposed": bool(stale), "had_reload": snapshot_keys is not None}

    def touched(k):
        nonlocal since
        since += 1
        if snapshot_keys is not None and k in snapshot_keys:
            stale.add(k)

    def m_set(k, v):
        cache[k] = copy.deepcopy(v)
        allowed[k] = [copy.deepcopy(v)]
        touched(k)

    def m_del(k):
        nonlocal deleted_since
        del cache[k]
        del allowed[k]
        deleted_since = True
        touched(k)

    def live_check(i, op):
        got = dict(p)
        if set(got) != set(cache) or not all(_deep_eq(got[k], cache[k]) for k in cache):
            res.fail(
                "live_view_mismatch",
                f"after op #{i} {_short(op)}: mapping shows {_short(got)}, model {_short(cache)}",
                **feats("live"),
            )
            raise _Stop()

    def compare(i, op, observed, kind):
        bad_keys = []
        for k in set(observed) | set(allowed):
            if k not in observed or k not in allowed or not any(_deep_eq(observed[k], v) for v in allowed[k]):
                bad_keys.append(k)
        if bad_keys:
            only_stale = kind == "gc" and all(k in stale for k in bad_keys)
            k = sorted(bad_keys)[0]
            res.fail(
                "reopen_mismatch_after_reload" if only_stale else "reopen_mismatch",
                f"{kind} reopen at op #{i} of {_short([o[0] for o in ops])}: key {k!r} holds "
                f"{_short(observed.get(k, '<absent>'))}, last written {_short(allowed.get(k, ['<deleted>']))}; "
                f"differing keys {sorted(bad_keys)!r}",
                **feats(kind),
            )
            raise _Stop()

    try:
        with warnings.catch_warnings():
            warnings.simplefilter("ignore")
            p = PersistentDict(d)
            for i, op in enumerate(ops):
                name = op[0]
                try:
                    if name == "set":
                        v = unjson(op[2])
                        p[op[1]] = v
                        m_set(op[1], v)
                    elif name == "del":
                        k = op[1]
                        if k in cache:
                            del p[k]
                            m_del(k)
                        else:
                            try:
                                del p[k]
                            except KeyError:
                                pass
                            else:
                                res.fail("missing_key_no_keyerror", f"op #{i}: del of absent key {k!r} did not raise KeyError", **feats("live"))
                                raise _Stop()
                    elif name == "pop":
                        k, use_default = op[1], op[2]
                        if k in cache:
                            got = p.pop(k, "dflt") if use_default else p.pop(k)
                            if not _deep_eq(got, cache[k]):
                                res.fail("live_view_mismatch", f"op #{i}: pop({k!r}) returned {_short(got)}, model {_short(cache[k])}", **feats("live"))
                                raise _Stop()
                            m_del(k)
                        elif use_default:
                            got = p.pop(k, "dflt")
                            if got != "dflt":
                                res.fail("live_view_mismatch", f"op #{i}: pop of absent {k!r} returned {_short(got)}", **feats("live"))
                                raise _Stop()
                        else:
                            try:
                                p.pop(k)
                            except KeyError:
                                pass
                            else:
                                res.fail("missing_key_no_keyerror", f"op #{i}: pop of absent key {k!r} did not raise KeyError", **feats("live"))
                                raise _Stop()
                    elif name == "popitem":
                        if cache:
                            k, got = p.popitem()
                            if k not in cache or not _deep_eq(got, cache[k]):
                                res.fail("live_view_mismatch", f"op #{i}: popitem returned ({k!r}, {_short(got)}), model {_short(cache)}", **feats("live"))
                                raise _Stop()
                            m_del(k)
                        else:
                            try:
                                p.popitem()
                            except KeyError:
                                pass
                            else:
                                res.fail("missing_key_no_keyerror", f"op #{i}: popitem on an empty mapping did not raise KeyError", **feats("live"))
                                raise _Stop()
                    elif name == "update":
                        items = [(k, unjson(v)) for k, v in op[1]]
                        p.update(dict(items))
                        for k, v in dict(items).items():
                            m_set(k, v)
                    elif name == "setdefault":
                        k, v = op[1], unjson(op[2])
                        got = p.setdefault(k, v)
                        if k in cache:
                            if not _deep_eq(got, cache[k]):
                                res.fail("live_view_mismatch", f"op #{i}: setdefault({k!r}) returned {_short(got)}, model {_short(cache[k])}", **feats("live"))
                                raise _Stop()
                        else:
                            m_set(k, v)
                    elif name == "clear":
                        p.clear()
                        for k in list(cache):
                            m_del(k)
                    elif name == "mutate":
                        k, x = op[1], unjson(op[2])
                        if k in cache and isinstance(cache[k], (list, dict)):
                            live = p[k]
                            if isinstance(live, list) and isinstance(cache[k], list):
                                live.append(x)
                                cache[k].append(copy.deepcopy(x))
                            elif isinstance(live, dict) and isinstance(cache[k], dict):
                                live["m"] = x
                                cache[k]["m"] = copy.deepcopy(x)
                            allowed[k].append(copy.deepcopy(cache[k]))
                            since += 1
                            if "mutated_in_place" not in res.classes:
                                res.classes.append("mutated_in_place")
                    elif name == "flush":
                        p.flush()
                        for k in cache:
                            allowed[k] = [copy.deepcopy(cache[k])]
                            touched(k)
                    elif name == "reload":
                        p.reload()
                        if snapshot_keys is None:
                            snapshot_keys = set(cache)
                        for k in list(cache):
                            cache[k] = copy.deepcopy(allowed[k][0])
                    elif name == "reopen":
                        p = None
                        gc.collect()
                        p = PersistentDict(d)
                        observed = dict(p)
                        if since >= 2 and (allowed or deleted_since):
                            nontrivial = True
                        compare(i, op, observed, "gc")
                        cache = {k: copy.deepcopy(v) for k, v in observed.items()}
                        allowed = {k: [copy.deepcopy(v)] for k, v in observed.items()}
                        snapshot_keys, stale, since, deleted_since = None, set(), 0, False
                        continue
                    elif name == "crash_reopen":
                        ncrash += 1
                        d2 = os.path.join(base, f"crash{ncrash}")
                        shutil.copytree(d, d2)
                        q = PersistentDict(d2)
                        observed = dict(q)
                        q = None
                        gc.collect()
                        shutil.rmtree(d2, ignore_errors=True)
                        if since >= 2 and (allowed or deleted_since):
                            nontrivial = True
                        compare(i, op, observed, "crash")
                        since, deleted_since = 0, False
                        continue
                    else:
                        raise ValueError(f"unknown op {name}")
                except _Stop:
                    raise
                except Exception as e:
                    if isinstance(e, ValueError) and str(e).startswith("unknown op"):
                        raise
                    res.fail("op_raised", f"op #{i} {_short(op)} raised {type(e).__name__}: {e}", **feats("live"))
                    raise _Stop() from None
                if name == "reload":
                    since += 1
                live_check(i, op)
    except _Stop:
        pass
    finally:
        p = None
        q = None
        gc.collect()
        shutil.rmtree(base, ignore_errors=True)
    res.nontrivial = nontrivial
    return res


# ------------------------------------------------------------------------------------------
# generator


def _strategy():
    import numpy as np
    from hypothesis import strategies as st

    key_pool = ["a", "b", "sample", "", ".", "..", "a/b", "/", "ü", "k#1", "%41", "a b", "\x00", "A", "scan_id", "日本"]
    top_keys = st.one_of(st.sampled_from(key_pool), st.sampled_from(key_pool), st.text(max_size=4))
    inner_keys = st.sampled_from(["x", "y", "color", "shape", "", "m", "a b", "ü"])
    arrays = st.one_of(
        st.lists(st.integers(-(2**40), 2**40), max_size=4).map(lambda v: np.array(v, dtype="int64")),
        st.lists(st.floats(allow_nan=True, width=64), max_size=4).map(lambda v: np.array(v, dtype="float64")),
        st.lists(st.integers(0, 255), max_size=4).map(lambda v: np.array(v, dtype="uint8")),
        st.lists(st.lists(st.integers(0, 9), min_size=2, max_size=2), max_size=3).map(lambda v: np.array(v, dtype="int64").reshape(len(v), 2)),
        st.lists(st.booleans(), max_size=3).map(lambda v: np.array(v, dtype="bool")),
    )
    scalars = st.one_of(
        st.none(),
        st.booleans(),
        st.integers(-(2**63), 2**64 - 1),
        st.integers(-3, 3),
        st.floats(allow_nan=True, allow_infinity=True, width=64),
        st.text(max_size=6),
        st.binary(max_size=5),
        st.sampled_from([b"bytes", "red", "", 0, 1.0, -0.0]),
    )
    nested = st.recursive(scalars, lambda ch: st.one_of(st.lists(ch, max_size=3), st.dictionaries(inner_keys, ch, max_size=3)), max_leaves=5)
    value_pool = [
        {"color": "red"},
        {"color": "red", "shape": "bar", "n": [1, 2, 3]},
        [],
        [1, 2],
        {},
        {"x": {"y": [None, True, 2.5]}},
        0,
        "",
        None,
        b"\x00\xff",
        np.arange(4, dtype="int64"),
        np.array([[1.5, float("nan")]], dtype="float64"),
        np.int32(7),
    ]
    values = st.one_of(st.sampled_from(value_pool), st.sampled_from(value_pool), nested, arrays, st.integers(-5, 5).map(np.int32))
    small = st.one_of(st.integers(-3, 3), st.sampled_from(["bar", None, 2.5, [1], {"z": 1}]))

    @st.composite
    def cases(draw):
        keys = draw(st.lists(top_keys, min_size=1, max_size=4, unique=True))
        key = st.sampled_from(keys)
        n = draw(st.integers(1, 14))
        ops = []
        kinds = st.sampled_from(
            ["set"] * 6
            + ["del", "del", "pop", "popitem", "update", "setdefault", "clear", "mutate", "mutate", "mutate", "flush", "reload", "reload", "reopen", "reopen", "crash_reopen"]
            + ["mutate_flush", "mutate_flush"]
        )
        for _ in range(n):
            k = draw(kinds)
            if k == "set":
                ops.append(["set", draw(key), draw(values)])
            elif k == "del":
                ops.append(["del", draw(key)])
            elif k == "pop":
                ops.append(["pop", draw(key), draw(st.booleans())])
            elif k == "update":
                ks = draw(st.lists(key, min_size=0, max_size=3, unique=True))
                ops.append(["update", [[kk, draw(values)] for kk in ks]])
            elif k == "setdefault":
                ops.append(["setdefault", draw(key), draw(values)])
            elif k == "mutate":
                ops.append(["mutate", draw(key), draw(small)])
            elif k == "mutate_flush":
                # in-place change made durable by an explicit flush (often repeated on one instance)
                ops.append(["mutate", draw(key), draw(small)])
                ops.append(["flush"])
            else:
                ops.append([k])
        if ops[-1][0] != "reopen":
            ops.append(["reopen"])
        return jsonable({"ops": ops})

    return cases()


def run(ctx):
    # several moderate Hypothesis runs instead of one huge one: per-example cost grows with the size of a run
    for r in range(ctx.pick(1, 4)):
        ctx.hyp(_strategy, check_case, max_examples=ctx.pick(3000, 15000), tag=f"r{r}" if r else "")


def replay(case):
    return check_case(case)
