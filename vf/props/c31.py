"""C31 Installed suspenders gate plan start and removal releases waiters."""

from __future__ import annotations

import contextlib
import copy
import io
import threading

from ..core import HarnessError, Result, use_repo

use_repo()

from ..engine.planlang import M, SEQ, PlanLog, build_plan  # noqa: E402
from ..engine.schedloop import SchedLoop  # noqa: E402

ID = "C31"
ENGINE = "E1"
DESIGN_REF = "DESIGN.md §8 C31"
TECHNIQUE = (
    "model-driven generation of install/remove/put histories around and inside RunEngine calls (directed sweep + "
    "Hypothesis), executed with real suspenders on real ophyd Signals against the real RunEngine on a harness-owned "
    "virtual-time loop; main-thread operations between calls, helper-thread operations while the plan is parked at "
    "plan-side sync points; order-insensitive oracle"
)
LEVEL_TEXT = (
    "Each history is executed for real: suspenders (SuspendBoolHigh/Low, SuspendFloor/Ceil, optional sleep) are "
    "installed/removed through the public API, signal values are put from the main thread while the engine is idle and "
    "from a helper thread while RE(plan) blocks. Whenever an installed suspender is tripped when RE(plan) is called, no "
    "plan message may have been executed by the time the loop is quiescent nor before any operation of the releasing "
    "window began; once every gating suspender has seen a releasing value or was removed, the plan must reach its next "
    "sync point / return. After remove the suspender's tripped flag is False immediately and stays False, later puts "
    "cause no request_suspend and no engine state change, removing again raises nothing; removal of the suspender that "
    "holds a running plan suspended lets the plan continue without a releasing value. Calls must return normally with "
    "the engine idle and usable."
)
LEVEL_NOTE = (
    "Only order-insensitive consequences are asserted (DESIGN guard): where exactly a trip lands inside a sync window is "
    "not asserted. Histories keep one helper thread, so concurrent remove()/callback races are not explored. During the "
    "start gate the generated histories do not newly trip another suspender (the engine is not yet resumable there and "
    "aborts, which is outside the statement). The hysteresis model of the suspender classes is C30's subject and is "
    "only used to construct histories; the gating expectation is taken from the observed tripped flags at call time."
)
RULE = (
    "case = {sus: 1-2 suspenders over 1-2 signals, hist: JSON op list}; ops: install / remove (via RE or directly, also "
    "repeated) / put on the main thread, and call{plan with K sync points, windows[0..K] of helper-thread ops (window 0 "
    "= while the start gate is closed, window i = while the plan is parked at sync i), each op optionally followed by "
    "waiting for loop quiescence}. Histories are built against a model so that every window ends with all installed "
    "suspenders released. Non-trivial: a call was gated by a tripped suspender, or a remove happened while the "
    "suspender was tripped / holding a suspension, or a put hit a removed suspender. Distinct = canonical JSON."
    ' Also twin suspenders (same class, same signal, default message: identical justification texts) gating a call and released one after the other.'
)
ASSUMPTIONS = [
    "SuspenderBase.__call__ is only ever invoked from non-loop threads (main thread or one helper thread), as in production (pyepics callback threads)",
    "the 0.1 s real-time wait inside SuspenderBase for the loop to create its asyncio.Event is met; runs in which it expired (machine overload) are detected and repeated, never judged",
    "loop quiescence (nothing ready, no timers, virtual time) while RE(plan) blocks means the engine is waiting for an external release",
    "ophyd.Signal delivers subscriptions synchronously in the putting thread and replays the last published value on subscribe(run=True)",
]

import logging  # noqa: E402

for _n in ("ophyd", "bluesky", "asyncio"):
    logging.getLogger(_n).addHandler(logging.NullHandler())
    logging.getLogger(_n).propagate = False

SUS_CLASSES = {
    "BoolHigh": {"trip": [1], "ok": [0], "neutral": []},
    "BoolLow": {"trip": [0], "ok": [1], "neutral": []},
    "Floor": {"trip": [0.0, 1.0], "ok": [5.0], "neutral": [2.5], "args": (2.0,), "kw": {"resume_thresh": 3.0}},
    "Ceil": {"trip": [9.0, 8.0], "ok": [1.0], "neutral": [6.5], "args": (7.0,), "kw": {"resume_thresh": 6.0}},
}


def _verdict(cls, v):
    """What the suspender class does with value v (thresholds are fixed by SUS_CLASSES; no generated value
    sits on a threshold)."""
    if cls == "BoolHigh":
        return "trip" if bool(v) else "ok"
    if cls == "BoolLow":
        return "ok" if bool(v) else "trip"
    if v in (2.0, 3.0, 6.0, 7.0):
        raise HarnessError(f"value {v!r} sits on a threshold")
    if cls == "Floor":  # suspend below 2, resume at or above 3
        return "trip" if v < 2.0 else "ok" if v > 3.0 else "neutral"
    if cls == "Ceil":  # suspend above 7, resume at or below 6
        return "trip" if v > 7.0 else "ok" if v < 6.0 else "neutral"
    raise HarnessError(f"unknown suspender class {cls}")


# ------------------------------------------------------------------------------------------------
# model (used to build histories and to state expectations; pure function of the case)


class Model:
    def __init__(self, case):
        self.sus = [{"cls": s["cls"], "sig": s["sig"], "installed": False, "tripped": False} for s in case["sus"]]
        self.cached = [None] * case["nsig"]

    def copy(self):
        m = Model.__new__(Model)
        m.sus = copy.deepcopy(self.sus)
        m.cached = list(self.cached)
        return m

    def _apply(self, s, v):
        k = _verdict(s["cls"], v)
        new_trip = False
        if k == "trip":
            new_trip = not s["tripped"]
            s["tripped"] = True
        elif k == "ok":
            s["tripped"] = False
        return new_trip

    def step(self, op):
        """Apply one op; returns True when an installed suspender was newly tripped by it."""
        do = op["do"]
        if do == "put":
            self.cached[op["sig"]] = op["value"]
            newly = False
            for s in self.sus:
                if s["installed"] and s["sig"] == op["sig"]:
                    newly |= self._apply(s, op["value"])
            return newly
        s = self.sus[op["sus"]]
        if do == "install":
            if s["installed"]:
                raise HarnessError("generator bug: install of an installed suspender")
            s["installed"] = True
            if self.cached[s["sig"]] is not None:
                return self._apply(s, self.cached[s["sig"]])
            return False
        if do == "remove":
            s["installed"] = False
            s["tripped"] = False
            return False
        raise HarnessError(f"unknown op {do}")

    def gating(self):
        return [i for i, s in enumerate(self.sus) if s["installed"] and s["tripped"]]


# ------------------------------------------------------------------------------------------------
# runner


class Stuck(BaseException):
    """The engine can make no further progress while a blocking call is pending."""


class _DT:
    """during_task of the RunEngine: blocks the calling thread until the engine is done; reports an exact
    'stuck' verdict when the loop is quiescent and no helper thread is left that could release it."""

    def __init__(self, loop, blocked):
        self.loop = loop
        self.blocked = blocked

    def block(self, ev):
        loop = self.loop
        self.blocked.set()
        try:
            loop.open_gate()
            while True:
                if ev.wait(0.02):
                    return
                if loop.is_stuck() and not ev.is_set():
                    # ev.set() happens on the loop thread before it goes idle
                    if loop.is_stuck() and not ev.is_set():
                        raise Stuck()
        finally:
            self.blocked.clear()


def _teardown(obs):
    loop = getattr(obs, "_loop", None)
    th = getattr(obs, "_th", None)
    if loop is None:
        return
    try:
        if loop.is_running():
            loop.call_soon_threadsafe(loop.stop)
        if th is not None:
            th.join(5)
        if not loop.is_running():
            loop.close()
    except Exception:  # noqa: BLE001
        pass


class Obs:
    def __init__(self):
        self.ops = []  # executed op records (main and helper thread)
        self.calls = []
        self.requests = []  # request_suspend calls: {"just", "n_ops"}
        self.hook = []  # {"msg", "call", "plan": bool}
        self.states = []
        self.stuck = False
        self.timing_artifact = False
        self.harness_error = None
        self.probe = None
        self.final_state = None
        self.loop_thread_callback = False


def sync_labels(ast):
    out = []

    def walk(n):
        if isinstance(n, list):
            if n and n[0] == "msg" and n[1] == "vf_sync":
                out.append(n[3][0])
            for x in n:
                walk(x)
        elif isinstance(n, dict):
            for x in n.values():
                walk(x)

    walk(ast)
    return out


def run_hist(case):
    import gc
    import sys

    obs = Obs()
    old_hook = sys.unraisablehook
    sys.unraisablehook = lambda *a, **k: None  # a wedged engine's _run coroutine is destroyed at teardown
    try:
        with contextlib.redirect_stdout(io.StringIO()):
            try:
                _run(case, obs)
            finally:
                _teardown(obs)
                if obs.stuck or obs.final_state not in ("idle", None):
                    gc.collect()
    finally:
        sys.unraisablehook = old_hook
    if obs.harness_error:
        raise HarnessError(f"C31 runner: {obs.harness_error}\ncase={case!r}"[:4000])
    return obs


def _run(case, obs):
    import bluesky.suspenders as bs
    from bluesky.run_engine import RunEngine
    from bluesky.utils import Msg
    from ophyd import Signal

    from ..engine import devices as dv

    loop = SchedLoop()
    obs._loop = loop
    blocked = threading.Event()
    RE = RunEngine({}, loop=loop, context_managers=[], during_task=_DT(loop, blocked))
    obs._th = RE._th
    loop_tid = RE._th.ident

    # --- instrumentation (public hooks only, plus a recording wrapper around the public request_suspend)
    made = []  # handles of SuspenderBase's "create my asyncio.Event" callbacks
    orig_cst = loop.call_soon_threadsafe

    def cst(cb, *a, context=None):
        h = orig_cst(cb, *a, context=context)
        if getattr(cb, "__name__", "") == "really_make_the_event":
            made.append(h)
        return h

    loop.call_soon_threadsafe = cst
    orig_rs = RE.request_suspend

    def request_suspend(fut, *, pre_plan=None, post_plan=None, justification=None):
        obs.requests.append({"just": justification, "n_ops": len(obs.ops)})
        return orig_rs(fut, pre_plan=pre_plan, post_plan=post_plan, justification=justification)

    RE.request_suspend = request_suspend
    cur = {"call": None, "plog": None}

    def msg_hook(msg):
        plog = cur["plog"]
        obs.hook.append({"msg": msg, "call": cur["call"], "plan": plog is not None and id(msg) in plog.msg_ids})

    def n_plan_hooked():
        ci = cur["call"]
        return sum(1 for h in obs.hook if h["call"] == ci and h["plan"])

    RE.msg_hook = msg_hook
    RE.state_hook = lambda new, old: obs.states.append((str(new), str(old), len(obs.ops)))
    syncs = {}

    async def _vf_sync(msg):
        r = syncs[msg.args[0]]
        r["arrivals"] += 1
        r["arrived"].set()
        await r["aev"].wait()

    RE.register_command("vf_sync", _vf_sync)

    world = dv.World(loop, None)
    dv.Det(world, "d1")
    sigs = [Signal(name=f"sig{j}", value=case["init"][j]) for j in range(case["nsig"])]
    sus = []
    for i, s in enumerate(case["sus"]):
        spec = SUS_CLASSES[s["cls"]]
        cls = getattr(bs, "Suspend" + s["cls"])
        obj = cls(sigs[s["sig"]], *spec.get("args", ()), sleep=s.get("sleep", 0), tripped_message="vf-twins" if case.get("same_message") else f"vf-sus{i}", **spec.get("kw", {}))
        sus.append(obj)
    # detect suspender callbacks on the loop thread (would be a harness artefact)
    orig_call = bs.SuspenderBase.__call__

    def checked_call(self, value, **kw):
        if threading.get_ident() == loop_tid:
            obs.loop_thread_callback = True
        return orig_call(self, value, **kw)

    def quiesce():
        if not loop.wait_idle():
            obs.harness_error = "loop did not become quiescent"
            return False
        return True

    def do_op(op, where):
        rec = {
            "op": op,
            "where": where,
            "index": len(obs.ops),
            "plan_hooked_before": n_plan_hooked() if cur["call"] is not None else None,
            "state_before": str(RE.state),
            "req_before": len(obs.requests),
            "tripped_before": [bool(x.tripped) for x in sus],
        }
        try:
            do = op["do"]
            if do == "install":
                RE.install_suspender(sus[op["sus"]])
            elif do == "remove":
                if op.get("via", "RE") == "RE":
                    RE.remove_suspender(sus[op["sus"]])
                else:
                    sus[op["sus"]].remove()
            elif do == "put":
                sigs[op["sig"]].put(op["value"])
            else:
                raise HarnessError(f"unknown op {do}")
        except HarnessError:
            raise
        except BaseException as e:  # noqa: BLE001
            rec["exc"] = e
        rec["tripped_now"] = [bool(x.tripped) for x in sus]  # same thread, before anything else happens
        rec["settled"] = bool(op.get("settle", True))
        if rec["settled"]:
            quiesce()
        rec["tripped_after"] = [bool(x.tripped) for x in sus]
        rec["req_after"] = len(obs.requests)
        rec["state_after"] = str(RE.state)
        rec["plan_hooked_after"] = n_plan_hooked() if cur["call"] is not None else None
        obs.ops.append(rec)

    def do_call(op, ci):
        plog = PlanLog()
        plan, _ = build_plan(op["plan"], world, plog, {})
        labels = sync_labels(op["plan"])
        windows = op["windows"]
        if len(windows) != len(labels) + 1:
            raise HarnessError("generator bug: windows do not match sync points")
        syncs.clear()
        import asyncio

        for lab in labels:
            syncs[lab] = {"arrived": threading.Event(), "aev": asyncio.Event(), "arrivals": 0}
        crec = {
            "index": ci,
            "n_ops_before": len(obs.ops),
            "gating_observed": [i for i, x in enumerate(sus) if x in RE.suspenders and x.tripped],
            "tripped_at_call": [bool(x.tripped) for x in sus],
            "arrival": {},
            "labels": labels,
        }
        obs.calls.append(crec)
        cur["call"], cur["plog"] = ci, plog
        crec["plog"] = plog
        call_done = threading.Event()

        def wait_arrival(lab):
            ev = syncs[lab]["arrived"]
            while True:
                if ev.wait(0.01):
                    return "arrived"
                if call_done.is_set():
                    return "call_ended"
                if loop.is_idle() and not loop._ready and not loop._scheduled and blocked.is_set():
                    if not ev.is_set() and loop.is_idle() and not loop._ready and not loop._scheduled:
                        return "stuck"

        def helper():
            try:
                while not blocked.wait(0.01):
                    if call_done.is_set():
                        crec["helper"] = "call_ended_before_blocking"
                        return
                if not quiesce():
                    return
                crec["plan_hooked_at_first_quiescence"] = n_plan_hooked()
                crec["arrived_at_first_quiescence"] = [lab for lab in labels if syncs[lab]["arrived"].is_set()]
                crec["state_at_first_quiescence"] = str(RE.state)
                for o in windows[0]:
                    do_op(o, {"thread": "helper", "call": ci, "window": 0})
                for wi, lab in enumerate(labels, 1):
                    st = wait_arrival(lab)
                    crec["arrival"][lab] = st
                    if st != "arrived":
                        crec["helper"] = f"gave up before window {wi}: {st} (engine state {RE.state})"
                        return
                    if not quiesce():
                        return
                    for o in windows[wi]:
                        do_op(o, {"thread": "helper", "call": ci, "window": wi})
                    loop.call_soon_threadsafe(syncs[lab]["aev"].set)
                crec["helper"] = "done"
            except BaseException as e:  # noqa: BLE001
                obs.harness_error = f"helper thread crashed: {type(e).__name__}: {e}"

        th = threading.Thread(target=helper, daemon=True, name="vf-c31-helper")
        loop.helpers.append(th)
        th.start()
        try:
            crec["value"] = RE(plan)
            crec["outcome"] = "return"
        except Stuck:
            crec["outcome"] = "stuck"
            obs.stuck = True
        except BaseException as e:  # noqa: BLE001
            crec["outcome"] = "raise"
            crec["exc"] = e
        finally:
            call_done.set()
        th.join(30)
        if th.is_alive():
            obs.harness_error = "helper thread did not finish"
        crec["state_after"] = str(RE.state)
        crec["returned"] = plog.returned
        crec["n_plan_msgs"] = len(plog.yields)
        if not obs.stuck:
            quiesce()
        cur["call"], cur["plog"] = None, None

    bs.SuspenderBase.__call__ = checked_call
    try:
        ci = 0
        for op in case["hist"]:
            if obs.stuck or obs.harness_error:
                break
            if op["do"] == "call":
                if str(RE.state) != "idle":
                    break
                do_call(op, ci)
                ci += 1
            else:
                do_op(op, {"thread": "main", "call": None, "window": None})
        obs.final_state = str(RE.state)
        # probe: with every suspender removed the engine must be usable
        if not obs.stuck and not obs.harness_error:
            for x in sus:
                try:
                    RE.remove_suspender(x)
                    x.remove()
                except BaseException:  # noqa: BLE001
                    pass
            quiesce()
            p = {"state_before": str(RE.state)}
            obs.probe = p
            try:
                RE([Msg("null")])
                p["outcome"] = "return"
            except Stuck:
                p["outcome"] = "stuck"
            except BaseException as e:  # noqa: BLE001
                p["outcome"] = "raise"
                p["exc"] = e
            p["state_after"] = str(RE.state)
    finally:
        bs.SuspenderBase.__call__ = orig_call
        obs.timing_artifact = any(h.cancelled() for h in made)
        obs.sus_tripped_final = [bool(x.tripped) for x in sus]


# ------------------------------------------------------------------------------------------------
# oracle


def _just_of(i):
    return f"vf-sus{i}"


def check_case(case):
    obs = None
    for _attempt in range(4):
        obs = run_hist(case)
        if not obs.timing_artifact:
            break
    res = Result()
    res.klass = case.get("name", "gen")
    if obs.timing_artifact:
        # the suspender's 0.1 s real-time wait for the loop expired (overloaded machine): not judged
        res.classes.append("inconclusive:event_creation_timed_out")
        return res
    if obs.loop_thread_callback:
        raise HarnessError("a suspender callback ran on the loop thread (history outside the domain)")
    model = Model(case)
    feats = {"plan": case.get("name", "gen"), "suspend_requested": False, "unsettled_ops": False, "gated_call": False, "remove_while_tripped": False}

    # outcome-independent features from the model
    m2 = Model(case)
    for op in case["hist"]:
        if op["do"] == "call":
            if m2.gating():
                feats["gated_call"] = True
            for wi, w in enumerate(op["windows"]):
                for o in w:
                    if not o.get("settle", True):
                        feats["unsettled_ops"] = True
                    if o["do"] == "remove" and m2.sus[o["sus"]]["tripped"]:
                        feats["remove_while_tripped"] = True
                    if m2.step(o) and wi >= 1:
                        feats["suspend_requested"] = True
        else:
            if op["do"] == "remove" and m2.sus[op["sus"]]["tripped"]:
                feats["remove_while_tripped"] = True
            m2.step(op)
    F = lambda **kw: dict(feats, **kw)  # noqa: E731

    nontrivial = False
    removed_since = {}  # sus index -> True while removed (after at least one remove)
    recs = iter(obs.ops)
    executed_all = True
    calls = iter(obs.calls)

    def judge_op(op, rec, in_call, quiet_before=True):
        """quiet_before: the loop was quiescent when this op began (nothing of earlier ops still in flight)."""
        nonlocal nontrivial
        do = op["do"]
        installed_before = [s["installed"] for s in model.sus]
        tripped_model_before = [s["tripped"] for s in model.sus]
        model.step(op)
        if do == "remove":
            i = op["sus"]
            second = removed_since.get(i, False)
            if "exc" in rec:
                res.fail(
                    "second_remove_raised" if second else "remove_raised",
                    f"remove of suspender {i} ({'again' if second else 'first time'}, via {op.get('via', 'RE')}) raised {type(rec['exc']).__name__}: {rec['exc']}",
                    **F(),
                )
            if rec["tripped_now"][i]:
                res.fail("tripped_after_remove", f"suspender {i}.tripped is True right after remove() returned (was {rec['tripped_before'][i]})", **F())
            if rec["tripped_before"][i]:
                nontrivial = True
                res.classes.append("remove_while_tripped" + (":in_call" if in_call else ":idle"))
            if second:
                res.classes.append("second_remove")
            removed_since[i] = True
        elif do == "install":
            removed_since[op["sus"]] = False
            if "exc" in rec:
                res.fail("install_raised", f"install of suspender {op['sus']} raised {type(rec['exc']).__name__}: {rec['exc']}", **F())
        elif do == "put":
            # suspenders on this signal that are currently removed must not react
            hit_removed = [i for i, s in enumerate(model.sus) if s["sig"] == op["sig"] and removed_since.get(i) and not s["installed"]]
            for i in hit_removed:
                nontrivial = True
                res.classes.append("put_hits_removed:" + _verdict(model.sus[i]["cls"], op["value"]))
                if rec["tripped_now"][i] or rec["tripped_after"][i]:
                    res.fail("reacts_after_remove", f"removed suspender {i} became tripped by put({op['value']!r})", **F())
                if rec["settled"] and quiet_before:
                    new = [r for r in obs.requests[rec["req_before"] : rec["req_after"]] if _just_of(i) in str(r["just"])]
                    if new:
                        res.fail("reacts_after_remove", f"removed suspender {i} called request_suspend after put({op['value']!r})", **F())
            listening = [i for i, s in enumerate(model.sus) if s["sig"] == op["sig"] and installed_before[i]]
            if hit_removed and not listening and rec["settled"] and quiet_before:
                if rec["state_before"] != rec["state_after"] or rec["req_after"] != rec["req_before"]:
                    res.fail(
                        "state_change_after_remove",
                        f"put({op['value']!r}) on a signal whose only suspenders are removed changed the engine: state "
                        f"{rec['state_before']} -> {rec['state_after']}, request_suspend calls {rec['req_after'] - rec['req_before']}",
                        **F(),
                    )
        # removed suspenders stay untripped whatever happens
        for i, gone in removed_since.items():
            if gone and not model.sus[i]["installed"] and rec["tripped_after"][i] and not any(f.kind == "reacts_after_remove" for f in res.failures):
                res.fail("reacts_after_remove", f"removed suspender {i} is tripped after {op}", **F())
        # model agreement (C30's business): label only
        if [s["tripped"] for s in model.sus] != rec["tripped_after"]:
            res.classes.append("tripped_differs_from_model(C30)")

    for op in case["hist"]:
        if op["do"] != "call":
            rec = next(recs, None)
            if rec is None:
                executed_all = False
                break
            judge_op(op, rec, False)
            continue
        c = next(calls, None)
        if c is None:
            executed_all = False
            break
        if op["windows"][0] and not model.gating():
            raise HarnessError("generator bug: gate-window ops on a call that is not gated (they would race with the plan)")
        gating = c["gating_observed"]
        if gating != model.gating():
            res.classes.append("gating_differs_from_model(C30)")
        gated = bool(gating)
        if gated:
            nontrivial = True
            res.classes.append(f"gated_call:{len(gating)}")
            n0 = c.get("plan_hooked_at_first_quiescence")
            if n0 is None:
                res.fail("call_ended_before_release", f"suspenders {gating} were tripped when RE(plan) was called but the call ended ({c.get('outcome')}: {c.get('exc')!r}) before any release", **F())
            elif n0 > 0:
                res.fail(
                    "plan_started_while_tripped",
                    f"suspenders {gating} were installed and tripped when RE(plan) was called, yet {n0} plan messages had been executed "
                    "when the loop went quiescent, before the releasing window began",
                    **F(),
                )
        else:
            res.classes.append("ungated_call")
        labels = c["labels"]
        # suspenders whose start-gate future is still unreleased (model): a remove, or a releasing value seen by the
        # installed suspender, releases it; the "releasing action" of the gate is the op that empties this set
        pending = set(gating)
        for wi, w in enumerate(op["windows"]):
            quiet = True  # every window starts with a quiescent loop
            for o in w:
                rec = next(recs, None)
                if rec is None:
                    executed_all = False
                    break
                still_gated = bool(pending)
                if o["do"] == "remove":
                    pending.discard(o["sus"])
                elif o["do"] == "put":
                    for i in list(pending):
                        s = model.sus[i]
                        if s["sig"] == o["sig"] and s["installed"] and _verdict(s["cls"], o["value"]) == "ok":
                            pending.discard(i)
                if wi == 0 and gated and still_gated and rec["plan_hooked_before"]:
                    if not any(f.kind == "plan_started_while_tripped" for f in res.failures):
                        res.fail(
                            "plan_started_while_tripped",
                            f"{rec['plan_hooked_before']} plan messages executed before releasing op #{rec['index']} {o} of the gate window began",
                            **F(),
                        )
                judge_op(o, rec, True, quiet)
                quiet = rec["settled"]
            if not executed_all:
                break
            # after the window every installed suspender is released (by construction): the plan must move on
            if True:
                nxt = labels[wi] if wi < len(labels) else None
                if nxt is not None and c["arrival"].get(nxt) != "arrived":
                    if c.get("outcome") == "raise":
                        break  # reported below as call_raised
                    res.fail(
                        "plan_stuck",
                        f"call #{c['index']}: after window {wi} (all suspenders released or removed) the plan did not reach sync {nxt!r}: "
                        f"{c.get('helper')}; call outcome {c.get('outcome')}",
                        **F(window=wi),
                    )
                    break
        if c.get("outcome") == "stuck":
            if not any(f.kind == "plan_stuck" for f in res.failures):
                res.fail("plan_stuck", f"call #{c['index']} can make no further progress although every suspender was released or removed ({c.get('helper')})", **F())
            break
        if c.get("outcome") == "raise":
            e = c.get("exc")
            res.fail("call_raised", f"call #{c['index']} raised {type(e).__name__}: {str(e)[:300]} (no pause/abort was requested)", **F())
        elif c.get("outcome") == "return":
            if c["state_after"] != "idle":
                res.fail("transient_state_after_call", f"call #{c['index']} returned with state {c['state_after']!r}", **F(call="call", state_after=c["state_after"]))
            if not c["returned"]:
                res.fail("returned_without_completion", f"call #{c['index']} returned but the plan did not run to its end", **F())
        if not executed_all:
            break
    if obs.probe is not None:
        p = obs.probe
        if p.get("outcome") != "return" or p.get("state_after") != "idle":
            res.fail(
                "unusable_for_next_call",
                f"with all suspenders removed RE([Msg('null')]) -> {p.get('outcome')} {p.get('exc')!r} (state before {p['state_before']}, after {p.get('state_after')})",
                **F(state_before_probe=p["state_before"]),
            )
    if not executed_all and not res.failures:
        res.classes.append("history_cut_short")
        res.obs = {
            "ops_executed": len(obs.ops),
            "calls": [{k: repr(v)[:200] for k, v in c.items() if k != "plog"} for c in obs.calls],
            "stuck": obs.stuck,
            "final_state": obs.final_state,
        }
        import os

        if os.environ.get("VERIF_C31_DEBUG"):
            import json
            import time

            os.makedirs("/tmp/c31_cutshort", exist_ok=True)
            json.dump({"case": case, "obs": res.obs}, open(f"/tmp/c31_cutshort/{int(time.time() * 1000)}.json", "w"), default=repr)
    res.nontrivial = nontrivial
    if obs.requests:
        res.classes.append("request_suspend_seen")
    if feats["unsettled_ops"]:
        res.classes.append("unsettled_ops")
    res.classes.append(f"calls={len(obs.calls)}")
    return res


# ------------------------------------------------------------------------------------------------
# histories


def plan_ast(k, with_run=False, tail=True):
    nodes = []
    if with_run:
        nodes.append(M("open_run", None, tag="c31"))
    for i in range(1, k + 1):
        nodes += [M("checkpoint"), M("vf_sync", None, f"s{i}"), M("sleep", None, 0.1), M("null", None, i)]
        if with_run and i == 1:
            nodes += [M("trigger", "d1", group="g"), M("wait", None, group="g"), M("create", None, name="primary"), M("read", "d1"), M("save")]
    nodes += [M("checkpoint"), M("null", None, "end")]
    if with_run:
        nodes += [M("close_run"), M("checkpoint")]
    if tail:
        nodes += [M("sleep", None, 0.1)]
    return SEQ(*nodes)


def P(sig, v, settle=True):
    o = {"do": "put", "sig": sig, "value": v}
    if not settle:
        o["settle"] = False
    return o


def I(i):  # noqa: E743
    return {"do": "install", "sus": i}


def R(i, via="RE", settle=True):
    o = {"do": "remove", "sus": i, "via": via}
    if not settle:
        o["settle"] = False
    return o


def CALL(k, windows, with_run=False):
    return {"do": "call", "plan": plan_ast(k, with_run), "windows": windows}


def _case(name, sus, hist, nsig=None, init=None):
    nsig = nsig or (max(s["sig"] for s in sus) + 1)
    return {"name": name, "sus": sus, "nsig": nsig, "init": init or [0] * nsig, "hist": hist}


def sweep_cases(quick):
    classes = ["BoolHigh", "Floor"] if quick else list(SUS_CLASSES)
    for cls in classes:
        spec = SUS_CLASSES[cls]
        t, ok = spec["trip"][0], spec["ok"][0]
        for sleep in (0, 0.5):
            sus = [{"cls": cls, "sig": 0, "sleep": sleep}]
            for via in ("RE", "sus"):
                for pre in ("install_then_trip", "trip_then_install"):
                    setup = [I(0), P(0, t)] if pre == "install_then_trip" else [P(0, t), I(0)]
                    releases = {
                        "ok": [P(0, ok)],
                        "remove": [R(0, via)],
                        "retrip_then_ok": [P(0, t), P(0, ok)],
                        "remove_twice": [R(0, via, settle=False), R(0, via)],
                    }
                    for rname, rel in releases.items():
                        for k in (0, 1):
                            after = [[]] * k
                            nm = f"sweep:{cls}:gate:{pre}:{rname}:k{k}"
                            yield _case(nm, sus, setup + [CALL(k, [rel] + after)] + [P(0, t), P(0, ok), R(0, via), R(0, "sus"), P(0, t)])
                    # trip while idle, release while idle: not gated
                    yield _case(f"sweep:{cls}:idle_trip_release", sus, setup + [P(0, ok), CALL(1, [[], []])])
                    yield _case(f"sweep:{cls}:idle_trip_remove", sus, setup + [R(0, via), P(0, t), CALL(1, [[], [P(0, t)]]), R(0, via)])
                # suspension of a running plan
                wins = {
                    "trip_ok": [P(0, t), P(0, ok)],
                    "trip_remove": [P(0, t), R(0, via)],
                    "trip_remove_remove_trip": [P(0, t), R(0, via), R(0, via), P(0, t)],
                    "remove_trip": [R(0, via), P(0, t), P(0, ok)],
                    "trip_remove_reinstall_ok": [P(0, t), R(0, via), P(0, ok), I(0)],
                    "trip_remove_reinstall_tripped_ok": [P(0, t), R(0, via), I(0), P(0, ok)],
                }
                for wname, w in wins.items():
                    for settle in (True, False):
                        ww = [dict(o, settle=False) if not settle and o["do"] != "install" else o for o in w]
                        for with_run in (False, True):
                            nm = f"sweep:{cls}:running:{wname}:{'settled' if settle else 'unsettled'}"
                            hist = [I(0), CALL(2, [[], ww, []], with_run)]
                            if w[-1]["do"] == "remove" or (wname in ("remove_trip", "trip_remove_remove_trip")):
                                hist.append(I(0))  # left removed by the window: install again, then a gated call
                            yield _case(nm, sus, hist + [P(0, t), CALL(0, [[P(0, ok)]])])
    # two suspenders of one class on one signal (identical justification texts), both gating; one is removed first
    for cls in classes:
        spec = SUS_CLASSES[cls]
        t, ok = spec["trip"][0], spec["ok"][0]
        for sl in ((0, 0), (0, 0.5)):
            sus = [{"cls": cls, "sig": 0, "sleep": sl[0]}, {"cls": cls, "sig": 0, "sleep": sl[1]}]
            for first in (0, 1):
                for via in ("RE", "sus"):
                    for last in ("ok", "remove"):
                        rel = [R(first, via), P(0, ok) if last == "ok" else R(1 - first, via)]
                        c = _case(f"sweep:twins:{cls}:{first}:{via}:{last}", sus, [I(0), I(1), P(0, t), CALL(1, [rel, []])])
                        c["same_message"] = True  # like two suspenders made with default arguments
                        yield c
    # two suspenders on two signals, both gating; released one after the other in both orders and by different means
    for a, b in (("ok", "remove"), ("remove", "ok"), ("ok", "ok"), ("remove", "remove")):
        sus = [{"cls": "BoolHigh", "sig": 0, "sleep": 0}, {"cls": "Floor", "sig": 1, "sleep": 0.5}]
        rel0 = P(0, 0) if a == "ok" else R(0)
        rel1 = P(1, 5.0) if b == "ok" else R(1, "sus")
        for order in ((rel0, rel1), (rel1, rel0)):
            yield _case(f"sweep:two:{a}:{b}", sus, [I(0), I(1), P(0, 1), P(1, 0.0), CALL(1, [list(order), []])], init=[0, 5.0])


def gen_cases():
    from hypothesis import strategies as st

    @st.composite
    def gen(draw):
        nsus = draw(st.integers(1, 2))
        nsig = draw(st.integers(1, nsus))
        sus = []
        for i in range(nsus):
            sus.append({"cls": draw(st.sampled_from(list(SUS_CLASSES))), "sig": draw(st.integers(0, nsig - 1)) if i else 0, "sleep": draw(st.sampled_from([0, 0, 0.5]))})
        if nsig == 2 and not any(s["sig"] == 1 for s in sus):
            sus[-1]["sig"] = 1
        case = {"name": "gen", "sus": sus, "nsig": nsig, "init": [0] * nsig, "hist": []}
        m = Model(case)
        removed_once = set()

        def values(j, kinds):
            out = []
            for s in sus:
                if s["sig"] == j:
                    for k in kinds:
                        out += SUS_CLASSES[s["cls"]][k]
            return out or [0]

        def draw_op(allow_new_trip, settle_choice):
            """One op that is legal in the current model state."""
            kinds = ["put", "put", "install", "remove"]
            k = draw(st.sampled_from(kinds))
            if k == "install":
                free = [i for i, s in enumerate(m.sus) if not s["installed"]]
                if free:
                    i = draw(st.sampled_from(free))
                    op = I(i)
                    mm = m.copy()
                    if not mm.step(op) or allow_new_trip:
                        return op
                k = "put"
            if k == "remove":
                i = draw(st.integers(0, nsus - 1))
                if m.sus[i]["installed"] or i in removed_once or draw(st.booleans()):
                    removed_once.add(i)
                    return R(i, draw(st.sampled_from(["RE", "sus"])), settle=settle_choice())
                k = "put"
            j = draw(st.integers(0, nsig - 1))
            for _ in range(4):
                v = draw(st.sampled_from(values(j, ["trip", "ok", "neutral"])))
                mm = m.copy()
                op = P(j, v)
                if not mm.step(op) or allow_new_trip:
                    # puts that reach a removed suspender are always settled so that their (non-)effect is exact
                    hits_removed = any(s["sig"] == j and not s["installed"] for s in m.sus)
                    if not hits_removed and not settle_choice():
                        op["settle"] = False
                    return op
            return P(j, draw(st.sampled_from(values(j, ["neutral"]) or values(j, ["ok"]))))

        def release_all(settle_choice):
            """Ops that release every installed tripped suspender, in a drawn order and manner."""
            out = []
            while True:
                g = m.gating()
                if not g:
                    return out
                i = draw(st.sampled_from(g))
                if draw(st.integers(0, 2)) == 0:
                    op = R(i, draw(st.sampled_from(["RE", "sus"])), settle=settle_choice())
                    removed_once.add(i)
                else:
                    # a value that releases suspender i and does not newly trip another one on the same signal
                    j = m.sus[i]["sig"]
                    cand = []
                    for v in SUS_CLASSES[m.sus[i]["cls"]]["ok"]:
                        mm = m.copy()
                        try:
                            if not mm.step(P(j, v)):
                                cand.append(v)
                        except HarnessError:
                            pass
                    if not cand:
                        op = R(i, "RE", settle=settle_choice())
                        removed_once.add(i)
                    else:
                        op = P(j, draw(st.sampled_from(cand)))
                        if not settle_choice():
                            op["settle"] = False
                m.step(op)
                out.append(op)

        def shared_value_ok(op):
            # values must be classifiable by every suspender on that signal
            if op["do"] != "put":
                return True
            try:
                for s in sus:
                    if s["sig"] == op["sig"]:
                        _verdict(s["cls"], op["value"])
                return True
            except HarnessError:
                return False

        always = lambda: True  # noqa: E731
        ncalls = draw(st.integers(1, 2))
        for _ci in range(ncalls):
            for _ in range(draw(st.integers(0, 5))):
                op = draw_op(True, always)
                if shared_value_ok(op):
                    m.step(op)
                    case["hist"].append(op)
            k = draw(st.integers(0, 2))
            unsettled = draw(st.integers(0, 3)) == 0
            sc = (lambda: draw(st.integers(0, 2)) > 0) if unsettled else always
            windows = []
            # window 0: only when gated; ops that keep the gate closed, then the releases (gate opens at the very end)
            w0 = []
            if m.gating():
                for _ in range(draw(st.integers(0, 2))):
                    op = draw_op(False, always)
                    mm = m.copy()
                    mm.step(op)
                    # keep at least one of the original gating suspenders tripped until the release phase
                    if shared_value_ok(op) and op["do"] != "remove" and mm.gating() == m.gating():
                        m.step(op)
                        w0.append(op)
                w0 += release_all(always)
            windows.append(w0)
            for _wi in range(k):
                w = []
                for _ in range(draw(st.integers(0, 4))):
                    op = draw_op(True, sc)
                    if shared_value_ok(op):
                        m.step(op)
                        w.append(op)
                w += release_all(sc)
                windows.append(w)
            case["hist"].append({"do": "call", "plan": plan_ast(k, with_run=draw(st.booleans())), "windows": windows})
        for _ in range(draw(st.integers(0, 4))):
            op = draw_op(True, always)
            if shared_value_ok(op):
                m.step(op)
                case["hist"].append(op)
        return case

    return gen()


def run(ctx):
    cases = list(sweep_cases(ctx.quick))
    ctx.sweep(cases, check_case)
    ctx.extra["sweep_cases"] = len(cases)
    ctx.hyp(gen_cases, check_case, max_examples=ctx.pick(600, 6000), tag="gen")


def replay(case):
    return check_case(case)
