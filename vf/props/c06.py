"""C06 Devices are always left cleaned up when the RunEngine goes idle."""

from __future__ import annotations

from ..core import use_repo

use_repo()

from ..engine import corpus, e1common, e1oracles  # noqa: E402

ID = "C06"
ENGINE = "E1"
DESIGN_REF = "DESIGN.md §8 C06"
TECHNIQUE = "schedule enumeration + Hypothesis-generated plans/schedules/device faults (also faults inside cleanup) on the real RunEngine; invariant over the device-call ledger of instrumented fake devices at idle"
LEVEL_TEXT = (
    "After every explored execution (completion, failure, abort, stop, halt, failed pause; faults at the n-th device call "
    "including unstage/stop during cleanup) the ledger of the fake devices must show: every staged device unstaged at least "
    "as often as it was staged, a stop after the last set of every moved device, a collect attempt after every kickoff, no "
    "engine callback left on any signal, and the in-plan/per-call subscription must not see documents of the next call."
)
LEVEL_NOTE = "Over-unstaging is recorded, not asserted (wrappers unstage devices whose stage failed). Obligations are read from the ledger only."
RULE = (
    "case = (plan, faults, stages, injections). Sweep: every request kind at every callback boundary of the corpus "
    "(staging, motors, monitor, flyer plans) x decisions; Hypothesis profile 'general'. Non-trivial: the call ended by "
    "interruption or failure while at least one obligation (staged device, moved motor, kicked-off flyer, monitor) "
    "existed. Distinct = canonical JSON."
    ' Also the monitor plan x pause/suspend at every boundary x a failing n-th clear_sub/subscribe of the monitored signal.'
)
ASSUMPTIONS = ["requests arrive at boundaries between event-loop callbacks", "fake devices log successful operations only after any injected fault"]
KINDS = ("pause", "suspend", "abort", "stop", "halt")

check_case = e1common.make_check(e1oracles.oracle_c06)


def run(ctx):
    names = corpus.corpus_names(ctx.tier)
    cases = []
    for c in corpus.single_request_cases(names, KINDS, decisions=("abort", "stop", "halt", "resume")):
        c["probe"] = "run"
        cases.append(c)
    if ctx.quick:
        cases = [c for i, c in enumerate(cases) if i % 3 == ctx.seed % 3]
    # one device fault (raise / failing status) at every device call of every corpus plan
    for c in corpus.single_fault_cases(names, kinds=("raise", "status_fail")):
        c["probe"] = "run"
        cases.append(c)
    # a pause / suspension at every callback boundary of the monitor plan while the n-th removal (or re-installation)
    # of a monitor callback fails once: the call fails or goes on, and the engine's clean-up still has to remove it
    n = corpus.n_handles("monitor")
    for k in range(0, n + 2, ctx.pick(2, 1)):
        for kind in ("pause", "suspend"):
            for op, nth in (("clear_sub", 1), ("clear_sub", 2), ("subscribe", 2)):
                for dec in ("resume", "abort"):
                    c = corpus.base_case("monitor")
                    inj = {"at": k, "do": kind}
                    if kind == "suspend":
                        inj["release_after"] = 0.3
                    c["stages"] = [{"do": "call", "inj": [inj]}, {"do": dec}]
                    c["faults"] = [{"dev": "s1", "op": op, "n": nth, "kind": "raise"}]
                    c["probe"] = "run"
                    cases.append(c)
    ctx.sweep(cases, check_case)
    ctx.extra["sweep_cases"] = len(cases)
    e1common.generated(ctx, check_case, n=ctx.pick(800, 30000), profile="general_runprobe")


def replay(case):
    return check_case(case)
