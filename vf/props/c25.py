"""C25 Step scans visit exactly the documented trajectory."""

from __future__ import annotations

import itertools
import math
from fractions import Fraction

from ..core import Result, use_repo

use_repo()

# imported here (in the parent) so that the forked worker processes inherit the loaded modules
import bluesky.plan_stubs  # noqa: E402,F401
import bluesky.plans  # noqa: E402,F401
import bluesky.simulators  # noqa: E402,F401
import hypothesis.strategies  # noqa: E402,F401

ID = "C25"
DESIGN_REF = "DESIGN.md §8 C25"
TECHNIQUE = (
    "Hypothesis-generated plan arguments + enumerated small shapes, plans driven message-by-message by a "
    "RunEngine-like responder, compared with an independent exact-rational / nested-loop trajectory reference"
)
LEVEL_TEXT = (
    "Differential check of scan, inner_product_scan, list_scan, grid_scan (both argument patterns, every snake_axes "
    "form), list_grid_scan, scan_nd, log_scan and x2x_scan: the motor position vector at every saved event equals an "
    "independently computed reference (Fraction linspace, row-major nested loops with per-axis direction flags, "
    "10**linspace, initial+offset), each point has one checkpoint before its moves, waited moves, one create..save "
    "with every device read once, and the open_run metadata (num_points, motors, shape, extents, snaking) agrees "
    "with what was done."
)
LEVEL_NOTE = (
    "Plans are driven by vf/responder.py instead of the RunEngine (devices finish instantly); float comparison "
    "tolerance 1e-12 relative to the axis scale for computed grids, exact for position lists; exploration, not proof."
)
RULE = (
    "case = (plan, motor kinds + initial positions, detectors, per-plan arguments: endpoints/nums/position lists/"
    "snake form/cycler structure). Small shapes are enumerated (every snake form and vector for <=3 axes), the rest is "
    "Hypothesis (1-5 motors, nums 1-6, ints and floats |x|<=1e6, duplicates in lists). Non-trivial: >=2 points and at "
    "least one motor changes position between two consecutive points. Distinct = distinct canonical JSON of the case."
)
ASSUMPTIONS = [
    "devices complete set/trigger immediately and report their commanded position (responder semantics)",
    "position lists are finite numbers without NaN; num is a positive int as documented",
    "snake_axes lists never name the slowest motor (documented precondition)",
    "extents are read as the requested envelope: every visited position lies inside, and the ends are reached when "
    "an axis has >= 2 points",
]
ENGINE = "E2"

REL_TOL = 1e-12

PLANS = ["scan", "inner_product_scan", "list_scan", "grid_scan", "list_grid_scan", "scan_nd", "log_scan", "x2x_scan"]


# ------------------------------------------------------------------------------------------
# independent references


def _lin(start, stop, num):
    """Exact rational linspace (endpoint included); num == 1 -> [start]."""
    a, b = Fraction(start), Fraction(stop)
    if num == 1:
        return [a]
    return [a + (b - a) * i / (num - 1) for i in range(num)]


def _grid_indices(lengths, snakes):
    """Row-major nested loops, one direction flag per snaked axis flipped after each completed pass
    (written independently of bluesky.utils.snake_cyclers)."""
    n = len(lengths)
    out = []
    idx = [0] * n
    forward = [True] * n

    def rec(axis):
        if axis == n:
            out.append(tuple(idx))
            return
        L = lengths[axis]
        order = list(range(L))
        if not forward[axis]:
            order.reverse()
        for i in order:
            idx[axis] = i
            rec(axis + 1)
        if axis > 0 and snakes[axis]:
            forward[axis] = not forward[axis]

    rec(0)
    return out


def _close(got, ref, scale):
    """|got - ref| <= REL_TOL * scale with ref an exact Fraction (or float)."""
    try:
        g = Fraction(float(got))
    except (TypeError, ValueError, OverflowError):
        return False
    # relative part + a few quanta of the denormal range (endpoints like 2e-313 have no 1e-12 resolution)
    return abs(g - Fraction(ref)) <= Fraction(REL_TOL) * Fraction(scale) + 16 * Fraction(5e-324)


# ------------------------------------------------------------------------------------------


def _make_motor(spec, name):
    from .. import responder as R

    kind = spec["kind"]
    init = spec.get("init", 0.0)
    if kind == "hinted":
        return R.FakeMotor(name, init)
    if kind == "unhinted":
        return R.UnhintedMotor(name, init)
    if kind == "locatable":
        return R.LocatableMotor(name, init, readback_offset=spec.get("rb", 0.25))
    if kind == "readonly":
        return R.ReadOnlyPositionMotor(name, init)
    raise ValueError(kind)


def _build(case):
    """Returns (plan generator factory, expectation dict)."""
    from cycler import cycler

    import bluesky.plans as bp

    from .. import responder as R

    plan = case["plan"]
    motors = [_make_motor(s, f"m{i}") for i, s in enumerate(case["motors"])]
    dets = []
    for i, k in enumerate(case.get("dets", ["trig"])):
        dets.append(R.FakeDetector(f"d{i}") if k == "trig" else R.UntriggeredDetector(f"d{i}"))
    if case.get("motor_in_dets"):
        dets.append(motors[0])
    if case.get("dets_tuple"):
        dets = tuple(dets)
    exp = {"motors": motors, "dets": list(dets), "exact": False, "relative": False, "md": {}}
    n = len(motors)

    if plan in ("scan", "inner_product_scan"):
        axes = case["axes"]
        num = case["num"]
        args = []
        for m, (a, b) in zip(motors, axes):
            args += [m, a, b]
        cols = [_lin(a, b, num) for a, b in axes]
        exp["points"] = [tuple(c[i] for c in cols) for i in range(num)]
        exp["scales"] = [max(abs(a), abs(b)) for a, b in axes]
        if plan == "scan":
            if case.get("num_kw"):
                gen = lambda: bp.scan(dets, *args, num=num)  # noqa: E731
            else:
                gen = lambda: bp.scan(dets, *args, num)  # noqa: E731
        else:
            gen = lambda: bp.inner_product_scan(dets, num, *args)  # noqa: E731
    elif plan == "log_scan":
        (a, b), num = case["axes"][0], case["num"]
        exps = _lin(a, b, num)
        exp["points"] = [(10.0 ** float(e),) for e in exps]
        exp["scales"] = None  # relative to each value
        gen = lambda: bp.log_scan(dets, motors[0], a, b, num)  # noqa: E731
    elif plan == "x2x_scan":
        a, b, num = case["start"], case["stop"], case["num"]
        c1 = _lin(a, b, num)
        c2 = [x / 2 for x in c1]
        i1, i2 = (Fraction(s.get("init", 0.0)) for s in case["motors"])
        exp["points"] = [(i1 + x, i2 + y) for x, y in zip(c1, c2)]
        sc = max(abs(a), abs(b))
        exp["scales"] = [max(sc, abs(float(i1))), max(sc, abs(float(i2)))]
        exp["relative"] = True
        exp["initial"] = [s.get("init", 0.0) for s in case["motors"]]
        gen = lambda: bp.x2x_scan(dets, motors[0], motors[1], a, b, num)  # noqa: E731
    elif plan == "list_scan":
        lists = case["lists"]
        args = []
        for m, pl in zip(motors, lists):
            args += [m, list(pl)]
        exp["points"] = [tuple(pl[i] for pl in lists) for i in range(len(lists[0]))]
        exp["exact"] = True
        gen = lambda: bp.list_scan(dets, *args)  # noqa: E731
    elif plan == "grid_scan":
        axes = case["axes"]  # [start, stop, num]
        mode = case["snake"]["mode"]
        flags = [bool(f) for f in case["snake"]["flags"]]
        lengths = [ax[2] for ax in axes]
        kw = {}
        args = []
        if mode == "pattern2":
            eff = [False] + flags[1:]
            for i, (m, (a, b, k)) in enumerate(zip(motors, axes)):
                args += [m, a, b, k]
                if i > 0:
                    args.append(flags[i])
        else:
            for m, (a, b, k) in zip(motors, axes):
                args += [m, a, b, k]
            if mode == "none":
                eff = [False] * n
            elif mode == "false":
                eff = [False] * n
                kw["snake_axes"] = False
            elif mode == "true":
                eff = [False] + [True] * (n - 1)
                kw["snake_axes"] = True
            elif mode in ("list", "iter"):
                eff = [False] + flags[1:]
                sel = [motors[i] for i in range(1, n) if flags[i]]
                kw["snake_axes"] = sel if mode == "list" else iter(sel)
            else:
                raise ValueError(mode)
        cols = [_lin(a, b, k) for a, b, k in axes]
        exp["points"] = [tuple(cols[ax][i] for ax, i in enumerate(t)) for t in _grid_indices(lengths, eff)]
        exp["scales"] = [max(abs(a), abs(b)) for a, b, k in axes]
        exp["md"] = {"shape": lengths, "extents": [[a, b] for a, b, k in axes], "snaking": eff}
        gen = lambda: bp.grid_scan(dets, *args, **kw)  # noqa: E731
    elif plan == "list_grid_scan":
        lists = case["lists"]
        mode = case["snake"]["mode"]
        flags = [bool(f) for f in case["snake"]["flags"]]
        lengths = [len(pl) for pl in lists]
        args = []
        for m, pl in zip(motors, lists):
            args += [m, list(pl)]
        kw = {}
        if mode == "default":
            eff = [False] * n
        elif mode == "false":
            eff = [False] * n
            kw["snake_axes"] = False
        elif mode == "true":
            eff = [False] + [True] * (n - 1)
            kw["snake_axes"] = True
        elif mode == "list":
            eff = [False] + flags[1:]
            kw["snake_axes"] = [motors[i] for i in range(1, n) if flags[i]]
            if not kw["snake_axes"]:
                eff = [False] * n
        else:
            raise ValueError(mode)
        exp["points"] = [tuple(lists[ax][i] for ax, i in enumerate(t)) for t in _grid_indices(lengths, eff)]
        exp["exact"] = True
        exp["md"] = {"shape": lengths, "extents": [[min(pl), max(pl)] for pl in lists]}
        gen = lambda: bp.list_grid_scan(dets, *args, **kw)  # noqa: E731
    elif plan == "scan_nd":
        groups = case["groups"]  # list of lists of motor indices; outer product of inner sums
        lists = case["lists"]
        cyc = None
        order = []
        for g in groups:
            inner = None
            for mi in g:
                c = cycler(motors[mi], list(lists[mi]))
                inner = c if inner is None else inner + c
                order.append(mi)
            cyc = inner if cyc is None else cyc * inner
        lengths = [len(lists[g[0]]) for g in groups]
        pts = []
        for t in itertools.product(*[range(L) for L in lengths]):
            vec = [None] * n
            for gi, g in enumerate(groups):
                for mi in g:
                    vec[mi] = lists[mi][t[gi]]
            pts.append(tuple(vec))
        exp["points"] = pts
        exp["exact"] = True
        exp["motor_order"] = order
        gen = lambda: bp.scan_nd(dets, cyc)  # noqa: E731
    else:
        raise ValueError(plan)
    return gen, exp


def _features(case):
    plan = case["plan"]
    f = {"plan": plan, "n_motors": len(case["motors"])}
    if "snake" in case:
        f["snake_mode"] = case["snake"]["mode"]
    return f


def check_case(case) -> Result:
    from bluesky.utils import Msg

    from .. import responder as R

    res = Result()
    plan = case["plan"]
    feats = _features(case)
    gen, exp = _build(case)
    motors = exp["motors"]
    n = len(motors)
    points = exp["points"]
    res.klass = f"{plan}/motors={n}" + (f"/snake={case['snake']['mode']}" if "snake" in case else "")
    moving = any(a != b for a, b in zip(points, points[1:]))
    res.nontrivial = len(points) >= 2 and moving
    if plan == "x2x_scan":
        res.classes.append("x2x/kinds=" + "+".join(s["kind"] for s in case["motors"]))

    resp = R.Responder()
    cap = 200 + len(points) * (12 + 4 * (n + len(exp["dets"]))) * 2
    try:
        status, value = R.drive(gen(), resp, cap=cap)
    except R.Runaway:
        return res.fail("runaway", f"more than {cap} messages for {len(points)} points", **feats)
    if status == "raised":
        return res.fail("plan_raised", f"valid arguments raised {type(value).__name__}: {value}", **feats)
    trace = resp.trace
    for m in trace:
        if not isinstance(m, Msg):
            return res.fail("not_a_msg", f"plan yielded {m!r}", **feats)

    opens = [m for m in trace if m.command == "open_run"]
    closes = [m for m in trace if m.command == "close_run"]
    if len(opens) != 1 or len(closes) != 1:
        return res.fail("run_bracketing", f"{len(opens)} open_run / {len(closes)} close_run messages", **feats)
    md = opens[0].kwargs

    segs, tail = R.split_points(trace)
    if len(segs) != len(points):
        return res.fail("wrong_point_count", f"expected {len(points)} saved readings, saw {len(segs)}", **feats)

    # ---- per point: checkpoint / moves / waited / create..save with every device read once
    pos = {}  # last set value per motor (tracked from the messages, not from the devices)
    expected_read = []
    for d in exp["dets"] + motors:
        if not any(d is e for e in expected_read):
            expected_read.append(d)
    for k, seg in enumerate(segs):
        cmds = [m.command for m in seg]
        if cmds.count("checkpoint") != 1:
            return res.fail("checkpoint_count", f"point {k}: {cmds.count('checkpoint')} checkpoints", **feats)
        if cmds.count("create") != 1:
            return res.fail("create_count", f"point {k}: {cmds.count('create')} create messages", **feats)
        i_cp, i_cr = cmds.index("checkpoint"), cmds.index("create")
        set_idx = [i for i, m in enumerate(seg) if m.command == "set"]
        for i in set_idx:
            m = seg[i]
            if not any(m.obj is mot for mot in motors):
                return res.fail("foreign_set", f"point {k}: set on {m.obj!r}", **feats)
            if i < i_cp:
                return res.fail("set_before_checkpoint", f"point {k}: {m} precedes the checkpoint", **feats)
            if i > i_cr:
                return res.fail("set_after_create", f"point {k}: {m} after create", **feats)
            grp = m.kwargs.get("group")
            waited = any(
                w.command == "wait" and (w.kwargs.get("group") == grp or (w.args and w.args[0] == grp))
                for w in seg[i + 1 : i_cr]
            )
            if not waited:
                return res.fail("set_not_waited", f"point {k}: {m} is not waited for before create", **feats)
            if len(m.args) != 1:
                return res.fail("set_args", f"point {k}: {m}", **feats)
            pos[id(m.obj)] = m.args[0]
        trig_idx = [i for i, m in enumerate(seg) if m.command == "trigger"]
        if any(i < i_cp or i > i_cr for i in trig_idx):
            return res.fail("trigger_misplaced", f"point {k}: trigger outside checkpoint..create", **feats)
        if set_idx and trig_idx and min(trig_idx) < max(set_idx):
            return res.fail("trigger_before_move", f"point {k}: a detector is triggered before the last move", **feats)
        reads = [m.obj for m in seg[i_cr:] if m.command == "read"]
        if len(reads) != len(expected_read) or any(not any(r is e for r in reads) for e in expected_read):
            return res.fail(
                "reads_per_point",
                f"point {k}: read {reads!r}, expected each of {expected_read!r} once",
                **feats,
            )
        # position vector
        want = points[k]
        for j, mot in enumerate(motors):
            if id(mot) not in pos:
                return res.fail("motor_never_set", f"point {k}: {mot!r} not moved before the first reading", **feats)
            got = pos[id(mot)]
            if exp["exact"]:
                ok = bool(got == want[j])
            elif exp.get("scales") is None:
                ok = math.isfinite(float(got)) and abs(float(got) - want[j]) <= REL_TOL * abs(want[j])
            else:
                ok = _close(got, want[j], exp["scales"][j] or 1.0)
            if not ok:
                return res.fail(
                    "wrong_position",
                    f"point {k}: motor {mot.name} at {got!r}, documented trajectory says {float(want[j])!r} "
                    f"(full point {[float(w) for w in want]})",
                    **feats,
                )

    # ---- after the last reading
    tail_sets = [m for m in tail if m.command == "set"]
    if exp["relative"]:
        final = {}
        for m in tail_sets:
            final[id(m.obj)] = m.args[0]
        for mot, init in zip(motors, exp["initial"]):
            if id(mot) not in final or final[id(mot)] != init:
                return res.fail(
                    "not_returned",
                    f"relative scan left {mot.name} at {final.get(id(mot), pos.get(id(mot)))!r}, started at {init!r}",
                    **feats,
                )
    elif tail_sets:
        return res.fail("extra_moves", f"moves after the last reading: {tail_sets[:3]}", **feats)

    # ---- metadata
    if md.get("num_points") != len(points):
        return res.fail("md_num_points", f"num_points={md.get('num_points')!r} but {len(points)} points taken", **feats)
    want_names = [motors[i].name for i in exp.get("motor_order", range(n))]
    got_names = list(md["motors"]) if "motors" in md else None
    if plan == "scan_nd" and got_names is not None:
        # scan_nd lists cycler.keys, a set: only the membership is meaningful
        got_names, want_names = sorted(got_names), sorted(want_names)
    if got_names != want_names:
        return res.fail("md_motors", f"motors={md.get('motors')!r}, moved {want_names}", **feats)
    want_dets = [d.name for d in exp["dets"]]
    if list(md.get("detectors", [])) != want_dets:
        return res.fail("md_detectors", f"detectors={md.get('detectors')!r}, used {want_dets}", **feats)
    emd = exp["md"]
    if "shape" in emd:
        if "shape" not in md or list(md["shape"]) != list(emd["shape"]):
            return res.fail("md_shape", f"shape={md.get('shape')!r}, grid is {emd['shape']}", **feats)
        prod = 1
        for s in md["shape"]:
            prod *= s
        if prod != len(points):
            return res.fail("md_shape", f"prod(shape)={prod} != points {len(points)}", **feats)
    if "extents" in emd:
        ext = md.get("extents")
        if ext is None or len(ext) != n:
            return res.fail("md_extents", f"extents={ext!r}", **feats)
        visited = [[float(p[j]) for p in points] for j in range(n)]
        for j in range(n):
            lo, hi = min(ext[j]), max(ext[j])
            tol = REL_TOL * max(abs(lo), abs(hi)) + 16 * 5e-324
            vmin, vmax = min(visited[j]), max(visited[j])
            if vmin < lo - tol or vmax > hi + tol:
                return res.fail("md_extents", f"axis {j}: visited [{vmin},{vmax}] outside extents {ext[j]!r}", **feats)
            if len(set(visited[j])) >= 2 and (abs(vmin - lo) > tol or abs(vmax - hi) > tol):
                return res.fail(
                    "md_extents", f"axis {j}: visited [{vmin},{vmax}] does not reach extents {ext[j]!r}", **feats
                )
    if "snaking" in emd:
        if "snaking" not in md or [bool(s) for s in md["snaking"]] != emd["snaking"]:
            return res.fail("md_snaking", f"snaking={md.get('snaking')!r}, performed {emd['snaking']}", **feats)
    return res


# ------------------------------------------------------------------------------------------
# generation


def _enumerated(quick):
    kinds = [{"kind": "hinted", "init": 0.0}]
    cases = []
    max_axes = 3
    lens = [1, 2, 3]
    # grid_scan / list_grid_scan: every snake form and vector
    for n in range(1, max_axes + 1):
        for lengths in itertools.product(lens, repeat=n):
            for flags in itertools.product([False, True], repeat=n):
                if flags[0]:
                    continue
                axes = [[float(10 * a), float(10 * a + L + 1), L] for a, L in enumerate(lengths)]
                lists = [[100 * a + ((7 * i) % L) for i in range(L)] for a, L in enumerate(lengths)]
                for mode in ("none", "false", "true", "list", "iter", "pattern2"):
                    if mode in ("none", "false", "true") and any(flags):
                        continue
                    if mode == "pattern2" and n == 1:
                        continue
                    cases.append(
                        {
                            "plan": "grid_scan",
                            "motors": kinds * n,
                            "axes": axes,
                            "snake": {"mode": mode, "flags": list(flags)},
                        }
                    )
                for mode in ("default", "false", "true", "list"):
                    if mode != "list" and any(flags):
                        continue
                    cases.append(
                        {
                            "plan": "list_grid_scan",
                            "motors": kinds * n,
                            "lists": lists,
                            "snake": {"mode": mode, "flags": list(flags)},
                        }
                    )
    # 1-D / inner-product plans: every num 1..7, 1..3 motors, descending and degenerate ranges
    for num in range(1, 8):
        for n in range(1, 4):
            for variant in range(3):
                axes = []
                for a in range(n):
                    lo, hi = -1.5 * (a + 1), 2.0 * (a + 1)
                    axes.append([[lo, hi], [hi, lo], [lo, lo]][(variant + a) % 3])
                cases.append({"plan": "scan", "motors": kinds * n, "axes": axes, "num": num, "num_kw": bool(num % 2)})
                cases.append({"plan": "inner_product_scan", "motors": kinds * n, "axes": axes, "num": num})
        cases.append({"plan": "log_scan", "motors": kinds, "axes": [[-2, 3]], "num": num})
        cases.append({"plan": "log_scan", "motors": kinds, "axes": [[1.5, -1.5]], "num": num})
        for k1 in ("hinted", "locatable", "readonly", "unhinted"):
            for k2 in ("hinted", "locatable", "readonly"):
                cases.append(
                    {
                        "plan": "x2x_scan",
                        "motors": [{"kind": k1, "init": 3.0}, {"kind": k2, "init": -7.5}],
                        "start": -3,
                        "stop": 5,
                        "num": num,
                    }
                )
    return cases


def _strategy():
    from hypothesis import strategies as st

    ints = st.integers(-1000, 1000)
    floats = st.floats(-1e6, 1e6, allow_nan=False, allow_infinity=False, width=64)
    nice = st.one_of(ints, floats, st.sampled_from([0, 0.0, 1, -1, 0.1, 1e-3, 1e6, -1e6]))
    kind = st.sampled_from(["hinted", "hinted", "unhinted", "locatable", "readonly"])

    def motor_specs(n, relative=False):
        if relative:
            return st.lists(
                st.fixed_dictionaries({"kind": kind, "init": st.one_of(ints, floats), "rb": st.sampled_from([0.0, 0.25, -3.0])}),
                min_size=n,
                max_size=n,
            )
        return st.lists(st.fixed_dictionaries({"kind": kind, "init": nice}), min_size=n, max_size=n)

    def plist(L):
        base = st.lists(nice, min_size=L, max_size=L)
        # bias to duplicates: consecutive equal positions exercise the skipped-set path
        dup = st.lists(st.sampled_from([0, 1, 1.0, 2, -1]), min_size=L, max_size=L)
        return st.one_of(base, dup)

    @st.composite
    def cases(draw):
        plan = draw(st.sampled_from(PLANS))
        case = {"plan": plan}
        case["dets"] = draw(st.lists(st.sampled_from(["trig", "untrig"]), min_size=0, max_size=2))
        case["motor_in_dets"] = draw(st.booleans()) and draw(st.booleans())
        case["dets_tuple"] = draw(st.booleans())
        if plan in ("scan", "inner_product_scan"):
            n = draw(st.integers(1, 4))
            case["motors"] = draw(motor_specs(n))
            case["axes"] = [[draw(nice), draw(nice)] for _ in range(n)]
            if draw(st.integers(0, 5)) == 0:
                case["axes"][0][1] = case["axes"][0][0]
            case["num"] = draw(st.integers(1, 7))
            if plan == "scan":
                case["num_kw"] = draw(st.booleans())
        elif plan == "log_scan":
            case["motors"] = draw(motor_specs(1))
            e = st.one_of(st.integers(-10, 10), st.floats(-10, 10, allow_nan=False))
            case["axes"] = [[draw(e), draw(e)]]
            case["num"] = draw(st.integers(1, 7))
        elif plan == "x2x_scan":
            case["motors"] = draw(motor_specs(2, relative=True))
            case["start"] = draw(nice)
            case["stop"] = draw(nice)
            case["num"] = draw(st.integers(1, 7))
            case["motor_in_dets"] = False
        elif plan == "list_scan":
            n = draw(st.integers(1, 4))
            L = draw(st.integers(1, 6))
            case["motors"] = draw(motor_specs(n))
            case["lists"] = [draw(plist(L)) for _ in range(n)]
        elif plan in ("grid_scan", "list_grid_scan"):
            n = draw(st.integers(1, 6 if plan == "grid_scan" else 5))
            maxlen = 5 if n <= 3 else (3 if n <= 4 else 2)
            lengths = [draw(st.integers(1, maxlen)) for _ in range(n)]
            case["motors"] = draw(motor_specs(n))
            flags = [False] + [draw(st.booleans()) for _ in range(n - 1)]
            if plan == "grid_scan":
                case["axes"] = [[draw(nice), draw(nice), L] for L in lengths]
                modes = ["none", "false", "true", "list", "iter"] + (["pattern2", "pattern2"] if n > 1 else [])
            else:
                case["lists"] = [draw(plist(L)) for L in lengths]
                modes = ["default", "false", "true", "list", "list"]
            mode = draw(st.sampled_from(modes))
            if mode in ("none", "false", "default"):
                flags = [False] * n
            elif mode == "true":
                flags = [False] + [True] * (n - 1)
            case["snake"] = {"mode": mode, "flags": flags}
        elif plan == "scan_nd":
            n = draw(st.integers(1, 4))
            case["motors"] = draw(motor_specs(n))
            # partition motor indices (in a drawn order) into consecutive groups
            order = draw(st.permutations(list(range(n))))
            groups, cur = [], [order[0]]
            for mi in order[1:]:
                if draw(st.booleans()):
                    groups.append(cur)
                    cur = [mi]
                else:
                    cur.append(mi)
            groups.append(cur)
            lists = [None] * n
            for g in groups:
                L = draw(st.integers(1, 4))
                for mi in g:
                    lists[mi] = draw(plist(L))
            case["groups"] = groups
            case["lists"] = lists
        return case

    return cases()


def run(ctx):
    enum = _enumerated(ctx.quick)
    seen = {}
    for c in enum:
        seen.setdefault(repr(c), c)
    ctx.sweep(list(seen.values()), check_case)
    ctx.extra["enumerated_part"] = len(seen)
    ctx.hyp(_strategy, check_case, max_examples=ctx.pick(5000, 200000))


def replay(case):
    return check_case(case)
