"""C17 RunStart metadata merges sources with documented precedence."""

from __future__ import annotations

import copy
import sys

from ..core import HarnessError, Result, use_repo

use_repo()

ID = "C17"
DESIGN_REF = "DESIGN.md §8 C17"
ENGINE = "E1"
TECHNIQUE = "Hypothesis-generated metadata sources / normalizers / validators run on a real RunEngine, start documents compared with an independent dict-merge model"
LEVEL_TEXT = (
    "Model-based check on a real RunEngine: every emitted RunStart (minus uid/time) must equal "
    "normalizer(persistent + plan identity + open_run md + call kwargs) computed by an independent flat dict merge; "
    "scan_id steps by one per opened run and is mirrored in RE.md; rejecting validators/normalizers yield the "
    "exception at the open_run message and no start document."
)
LEVEL_NOTE = (
    "Exploration, not proof. Metadata values are small JSON values over a 9-key alphabet; keys uid/time and "
    "schema-invalid values are outside the domain; the scan_id step across a rejected attempt is recorded, not asserted."
)
RULE = (
    "case = (initial persistent md, normalizer spec, validator spec, scan_id source spec, list of calls; each call = "
    "plan kind/name, call kwargs, persistent updates, catch flag, interleave flag, 1-4 runs with open_run md). Keys are "
    "drawn from a 9-key alphabet so overlaps between the four sources are the norm. Non-trivial: at least one opened "
    "run in which some key is supplied by >= 2 sources with different values (precedence observable), or a rejected "
    "attempt followed by another attempt. Distinct = distinct canonical JSON of the case."
    " Some calls contain an 'intruder': RE(other_plan, **kw) invoked from a document callback while the call runs; it must be refused and leave no trace."
)
ASSUMPTIONS = [
    "metadata keys are strings without '.' or '/', never 'uid' or 'time' (compose_run passes md as **kwargs next to uid/time)",
    "values are JSON values valid for the run_start schema (scan_id integer, sample str/dict unless the default validator is what is being tested)",
    "normalizers return a mapping; in-place normalizers only use operations a ChainMap supports",
    "the RunEngine adds a 'versions' entry to the persistent md at construction; it is read back once and treated as persistent md",
    "the size of the scan_id step across a rejected open_run is recorded in the class histogram, not asserted (DESIGN guard)",
]

KEYS = ["a", "b", "c", "lst", "plan_name", "plan_type", "scan_id", "sample", "n_added"]


class _Reject(Exception):
    pass


# ------------------------------------------------------------------------------------------
# validator / normalizer / scan-id-source families: (callable for the engine, model for the oracle)


def _validator_rejects(spec, merged):
    kind = spec["kind"]
    if kind == "accept":
        return False
    if kind == "key":
        return spec["key"] in merged
    if kind == "value":
        return spec["key"] in merged and merged[spec["key"]] == spec["value"]
    if kind == "default":
        s = merged.get("sample", "")
        return "sample" in merged and not isinstance(s, (dict, str))
    raise ValueError(kind)


def _make_validator(spec):
    kind = spec["kind"]
    if kind == "default":
        return None

    def validator(md):
        # documented signature f(md); the engine passes the final merged metadata
        if kind == "key" and spec["key"] in md:
            raise _Reject(f"validator:key:{spec['key']}")
        if kind == "value" and spec["key"] in md and md[spec["key"]] == spec["value"]:
            raise _Reject(f"validator:value:{spec['key']}")

    return validator


def _normalizer_model(spec, merged):
    """Independent model: returns ('ok', dict) or ('raise', None)."""
    kind = spec["kind"]
    d = copy.deepcopy(merged)
    if kind in ("default", "identity", "to_dict"):
        return "ok", d
    if kind in ("add", "inplace_set"):
        d[spec["key"]] = copy.deepcopy(spec["value"])
        return "ok", d
    if kind == "setdefault":
        d.setdefault(spec["key"], copy.deepcopy(spec["value"]))
        return "ok", d
    if kind == "drop":
        d.pop(spec["key"], None)
        return "ok", d
    if kind == "rename":
        if spec["key"] in d:
            d[spec["key2"]] = d.pop(spec["key"])
        return "ok", d
    if kind == "inplace_append":
        for k in d:
            if isinstance(d[k], list):
                d[k] = d[k] + ["n"]
            elif isinstance(d[k], dict) and k != "versions":
                d[k] = dict(d[k], n=1)
        return "ok", d
    if kind == "raise_key":
        if spec["key"] in d:
            return "raise", None
        return "ok", d
    raise ValueError(kind)


def _make_normalizer(spec):
    kind = spec["kind"]
    if kind == "default":
        return None

    def normalizer(md):
        if kind == "identity":
            return md
        if kind == "to_dict":
            return dict(md)
        if kind == "add":
            d = dict(md)
            d[spec["key"]] = copy.deepcopy(spec["value"])
            return d
        if kind == "inplace_set":
            md[spec["key"]] = copy.deepcopy(spec["value"])
            return md
        if kind == "setdefault":
            d = dict(md)
            d.setdefault(spec["key"], copy.deepcopy(spec["value"]))
            return d
        if kind == "drop":
            d = dict(md)
            d.pop(spec["key"], None)
            return d
        if kind == "rename":
            d = dict(md)
            if spec["key"] in d:
                d[spec["key2"]] = d.pop(spec["key"])
            return d
        if kind == "inplace_append":
            # mutates the values it was handed (documented: it receives its own copy)
            for k in list(md):
                v = md[k]
                if isinstance(v, list):
                    v.append("n")
                elif isinstance(v, dict) and k != "versions":
                    v["n"] = 1
            return md
        if kind == "raise_key":
            if spec["key"] in md:
                raise _Reject(f"normalizer:key:{spec['key']}")
            return md
        raise ValueError(kind)

    return normalizer


def _scan_id_model(spec, md):
    if spec["kind"] == "default":
        return md.get("scan_id", 0) + 1
    return md.get("scan_id", 0) + spec["step"]


def _make_scan_id_source(spec):
    if spec["kind"] == "default":
        return None
    step = spec["step"]
    if spec["kind"] == "step":
        return lambda md: md.get("scan_id", 0) + step

    async def source(md):
        return md.get("scan_id", 0) + step

    return source


# ------------------------------------------------------------------------------------------


def _stop_engine(RE):
    RE.loop.call_soon_threadsafe(RE.loop.stop)
    RE._th.join(10)
    if RE._th.is_alive():
        raise HarnessError("RunEngine loop thread did not stop")
    try:
        RE.loop.close()
    except Exception:
        pass


class _NamedIterable:
    """A non-generator plan object with its own __name__ (plan identity is computed from the
    object passed to RE(...))."""

    def __init__(self, name, factory):
        self.__name__ = name
        self._factory = factory

    def __iter__(self):
        return self._factory()


def _merge(*sources):
    out = {}
    for s in sources:  # later sources win
        for k, v in s.items():
            out[k] = v
    return out


def check_case(case) -> Result:
    import logging
    import warnings

    from bluesky.run_engine import RunEngine
    from bluesky.utils import DuringTask, Msg

    logging.getLogger("bluesky").setLevel(logging.CRITICAL + 1)
    # main thread <-> loop thread hand-offs dominate a case; a short GIL switch interval makes them ~5x cheaper
    sys.setswitchinterval(0.0005)
    res = Result()
    vspec, nspec, sspec = case["validator"], case["normalizer"], case["scan_id_source"]
    kwargs = {}
    v, n, s = _make_validator(vspec), _make_normalizer(nspec), _make_scan_id_source(sspec)
    if v is not None:
        kwargs["md_validator"] = v
    if n is not None:
        kwargs["md_normalizer"] = n
    if s is not None:
        kwargs["scan_id_source"] = s

    persistent_in = copy.deepcopy(case["persistent"])
    RE = RunEngine(copy.deepcopy(persistent_in), context_managers=[], during_task=DuringTask(), **kwargs)
    try:
        with warnings.catch_warnings():
            warnings.simplefilter("ignore")
            _drive(case, RE, Msg, res, persistent_in)
    finally:
        _stop_engine(RE)
    return res


def _drive(case, RE, Msg, res, persistent_in):
    vspec, nspec, sspec = case["validator"], case["normalizer"], case["scan_id_source"]
    docs = []
    RE.subscribe(lambda name, doc: docs.append((name, copy.deepcopy(dict(doc)))))
    # an "intruder": somebody calls RE(other_plan, **kw) while a call is in progress (here: from a document consumer on
    # the n-th RunStart of the call).  The engine refuses it; a refused call must leave no trace.
    intr = {"spec": None, "starts": 0, "refused": 0, "not_refused": []}

    def intruder(name, doc):
        sp = intr["spec"]
        if sp is None or name != "start":
            return
        intr["starts"] += 1
        if intr["starts"] != sp["at_start"]:
            return
        try:
            RE([Msg("null")], **copy.deepcopy(sp["kw"]))
        except RuntimeError:
            intr["refused"] += 1
        except Exception as e:  # noqa: BLE001
            intr["not_refused"].append(repr(e))
        else:
            intr["not_refused"].append("returned")

    RE.subscribe(intruder)

    # model of the persistent metadata: what the case put in + the engine's 'versions' entry
    model_md = copy.deepcopy(persistent_in)
    if "versions" not in RE.md:
        res.fail("no_versions_entry", "RE.md lacks the 'versions' entry")
        return
    model_md["versions"] = copy.deepcopy(RE.md["versions"])

    nontrivial = False
    overlap_hist = set()
    combo_hist = set()
    n_opened = n_rejected = 0

    for ci, call in enumerate(case["calls"]):
        for k, val in call.get("md_updates", {}).items():
            RE.md[k] = copy.deepcopy(val)
            model_md[k] = copy.deepcopy(val)
        kw = copy.deepcopy(call["kw"])
        runs = call["runs"]
        catch = bool(call["catch"])
        interleave = bool(call.get("interleave", False))
        kind = call["plan_kind"]
        plan_name = call["plan_name"]
        if kind == "list":
            catch = False
            ident = {"plan_type": "list", "plan_name": ""}
        elif kind == "generator":
            ident = {"plan_type": "generator", "plan_name": plan_name}
        else:
            ident = {"plan_type": "_NamedIterable", "plan_name": plan_name}

        # ---- model: what each attempt must do -------------------------------------------
        expectations = []  # per attempt: dict(outcome, start, exc)
        sim_md = copy.deepcopy(model_md)
        aborted = False
        for ri, run in enumerate(runs):
            if aborted:
                expectations.append({"outcome": "not_attempted"})
                continue
            new_sid = _scan_id_model(sspec, sim_md)
            sim_md["scan_id"] = new_sid
            merged = _merge(sim_md, ident, run["md"], kw)
            providers = {}
            for tag, src in (("P", sim_md), ("I", ident), ("O", run["md"]), ("K", kw)):
                for k, val in src.items():
                    providers.setdefault(k, []).append((tag, val))
            overl = [k for k, vals in providers.items() if len(vals) >= 2 and any(x[1] != vals[0][1] for x in vals[1:])]
            combos = {"".join(t for t, _ in providers[k]) for k in overl}
            if _validator_rejects(vspec, merged):
                exp = {"outcome": "rejected", "by": "validator"}
            else:
                status, normed = _normalizer_model(nspec, merged)
                if status == "raise":
                    exp = {"outcome": "rejected", "by": "normalizer"}
                else:
                    exp = {"outcome": "opened", "start": normed, "scan_id_md": new_sid}
                    if overl:
                        nontrivial = True
                    overlap_hist.add(min(len(overl), 3))
                    combo_hist.update(combos)
            exp["attempt_scan_id"] = new_sid
            expectations.append(exp)
            if exp["outcome"] == "rejected" and not catch:
                aborted = True

        # ---- run it ---------------------------------------------------------------------
        observed = []  # per attempt: dict(outcome, exc, md_scan_id_after)

        def body(runs=runs, catch=catch, interleave=interleave, observed=observed):
            opened_keys = []
            for ri, run in enumerate(runs):
                rk = f"r{ri}" if interleave else None
                ob = {"docs_before": len(docs)}
                observed.append(ob)
                msg = Msg("open_run", run=rk, **copy.deepcopy(run["md"]))
                if catch:
                    try:
                        uid = yield msg
                    except Exception as e:  # the engine throws open_run failures into the plan here
                        ob["exc"] = e
                        ob["md_scan_id_after"] = RE.md.get("scan_id")
                        ob["docs_after"] = len(docs)
                        continue
                else:
                    uid = yield msg
                ob["uid"] = uid
                ob["md_scan_id_after"] = RE.md.get("scan_id")
                ob["docs_after"] = len(docs)
                if interleave:
                    opened_keys.append(rk)
                else:
                    yield Msg("close_run", run=rk)
            for rk in opened_keys:
                yield Msg("close_run", run=rk)

        if kind == "generator":
            body.__name__ = plan_name
            body.__qualname__ = plan_name
            plan = body()
        elif kind == "named_iterable":
            plan = _NamedIterable(plan_name, body)
        else:  # plain list of messages: no catching, sequential
            plan = []
            for ri, run in enumerate(runs):
                plan.append(Msg("open_run", **copy.deepcopy(run["md"])))
                plan.append(Msg("close_run"))

        docs_before_call = len(docs)
        call_exc = None
        intr.update(spec=call.get("intruder"), starts=0)
        try:
            RE(plan, **copy.deepcopy(kw))
        except Exception as e:
            call_exc = e
        intr["spec"] = None
        if intr["not_refused"]:
            res.fail("call_while_running_not_refused", f"call {ci}: RE(...) from inside a document callback: {intr['not_refused']}")
            return
        if intr["refused"]:
            res.classes.append("refused_call_in_between")
        if RE.state != "idle":
            res.fail("engine_not_idle", f"call {ci}: RunEngine state {RE.state!r} after the call")
            return

        # ---- compare --------------------------------------------------------------------
        call_docs = docs[docs_before_call:]
        starts = [d for nme, d in call_docs if nme == "start"]
        exp_open = [e for e in expectations if e["outcome"] == "opened"]
        exp_rej = [e for e in expectations if e["outcome"] == "rejected"]
        n_opened += len(exp_open)
        n_rejected += len(exp_rej)
        feats = {
            "validator": vspec["kind"],
            "normalizer": nspec["kind"],
            "scan_id_source": sspec["kind"],
            "plan_kind": kind,
            "any_rejected": bool(exp_rej),
            "interleave": interleave,
        }
        if len(starts) != len(exp_open):
            res.fail(
                "start_count",
                f"call {ci}: expected {len(exp_open)} start documents ({[e['outcome'] for e in expectations]}), got {len(starts)}",
                **feats,
            )
            return
        for j, (st, exp) in enumerate(zip(starts, exp_open)):
            got = {k: val for k, val in st.items() if k not in ("uid", "time")}
            if "uid" not in st or "time" not in st:
                res.fail("start_lacks_uid_time", f"call {ci} start {j}: {sorted(st)}", **feats)
            if got != exp["start"]:
                diff = {
                    k: (got.get(k, "<absent>"), exp["start"].get(k, "<absent>"))
                    for k in set(got) | set(exp["start"])
                    if got.get(k, "<absent>") != exp["start"].get(k, "<absent>")
                }
                res.fail(
                    "start_md_mismatch",
                    f"call {ci} opened run {j}: (got, expected) per differing key: {diff}",
                    **feats,
                )
                return
        # rejected attempts: exception surfaces at the open_run message, no start document
        if kind != "list":
            for ri, exp in enumerate(expectations):
                if exp["outcome"] == "not_attempted":
                    continue
                if ri >= len(observed):
                    res.fail("attempt_missing", f"call {ci}: attempt {ri} was never reached by the plan", **feats)
                    return
                ob = observed[ri]
                if exp["outcome"] == "rejected":
                    if catch:
                        e = ob.get("exc")
                        if not isinstance(e, _Reject) and not (vspec["kind"] == "default" and isinstance(e, ValueError)):
                            res.fail(
                                "reject_not_raised_at_open_run",
                                f"call {ci} attempt {ri}: expected the {exp['by']}'s exception at the open_run yield, got {e!r}",
                                **feats,
                            )
                            return
                        if ob["docs_after"] != ob["docs_before"]:
                            res.fail("docs_emitted_on_reject", f"call {ci} attempt {ri}: documents emitted by a rejected open_run", **feats)
                            return
                    # observation only (DESIGN guard): scan_id step consumed by a rejected attempt
                else:
                    if "exc" in ob:
                        res.fail("unexpected_open_run_exception", f"call {ci} attempt {ri}: {ob['exc']!r}", **feats)
                        return
                    if ob.get("md_scan_id_after") != exp["scan_id_md"]:
                        res.fail(
                            "scan_id_not_in_md",
                            f"call {ci} attempt {ri}: RE.md['scan_id'] right after open_run is {ob.get('md_scan_id_after')!r}, "
                            f"expected {exp['scan_id_md']!r}",
                            **feats,
                        )
                        return
        if exp_rej and not catch:
            e = call_exc
            if not isinstance(e, _Reject) and not (vspec["kind"] == "default" and isinstance(e, ValueError)):
                res.fail("reject_not_raised_by_call", f"call {ci}: expected RE(...) to raise the rejection, got {e!r}", **feats)
                return
        elif call_exc is not None:
            res.fail("unexpected_call_exception", f"call {ci}: {call_exc!r}", **feats)
            return
        # every start must be followed by its stop (runs are closed, nothing half-open)
        stops = [d for nme, d in call_docs if nme == "stop"]
        if sorted(d["run_start"] for d in stops) != sorted(d["uid"] for d in starts):
            res.fail("stop_mismatch", f"call {ci}: stop documents do not pair with the start documents", **feats)
            return

        # ---- persistent metadata after the call -----------------------------------------
        # model: only scan_id moves.  Step across rejected attempts = observation: resync from RE.md
        # when a rejection happened, otherwise assert.
        last_attempt_sid = None
        for exp in expectations:
            if exp["outcome"] != "not_attempted":
                last_attempt_sid = exp["attempt_scan_id"]
        observed_sid = RE.md.get("scan_id")
        if exp_rej:
            # what the code does today: the attempt consumed its scan_id
            res.classes.append(
                "scan_id_consumed_by_rejected_attempt" if observed_sid == last_attempt_sid else "scan_id_not_consumed_by_rejected_attempt"
            )
            if observed_sid is not None:
                model_md["scan_id"] = observed_sid
            # the opened runs before/after still got strictly increasing ids from the model; the
            # starts were compared above against the 'consumed' model, so a different-but-valid policy
            # (not consuming) would show up as start_md_mismatch with any_rejected=True
        else:
            if last_attempt_sid is not None:
                model_md["scan_id"] = last_attempt_sid
        got_md = copy.deepcopy(dict(RE.md))
        if got_md != model_md:
            diff = {
                k: (got_md.get(k, "<absent>"), model_md.get(k, "<absent>"))
                for k in set(got_md) | set(model_md)
                if got_md.get(k, "<absent>") != model_md.get(k, "<absent>")
            }
            res.fail("persistent_md_changed", f"call {ci}: RE.md differs from the model (got, expected): {diff}", **feats)
            return

    if n_rejected and n_opened:
        nontrivial = True
    res.nontrivial = nontrivial
    res.klass = f"normalizer={nspec['kind']}"
    res.classes.append(f"validator={vspec['kind']}")
    res.classes.append(f"scan_id_source={sspec['kind']}")
    for c in sorted(combo_hist):
        res.classes.append(f"conflicting_sources={c}")  # P persistent < I plan identity < O open_run < K call kwargs
    res.classes.append(f"opened={min(n_opened, 5)}")
    res.classes.append(f"rejected={min(n_rejected, 3)}")
    for o in sorted(overlap_hist):
        res.classes.append(f"overlapping_keys={o}{'+' if o == 3 else ''}")
    for call in case["calls"]:
        res.classes.append(f"plan={call['plan_kind']}")
    return res


# ------------------------------------------------------------------------------------------


def _strategy():
    from hypothesis import strategies as st

    small = st.one_of(
        st.integers(0, 3),
        st.sampled_from(["x", "y", "generator", ""]),
        st.booleans(),
        st.none(),
        st.lists(st.integers(0, 2), max_size=2),
        st.fixed_dictionaries({}, optional={"x": st.integers(0, 2), "y": st.sampled_from(["p", "q"])}),
    )

    def value_for(key, allow_bad_sample):
        if key == "scan_id":
            return st.integers(-2, 50)
        if key == "sample":
            good = st.one_of(st.sampled_from(["dirt", "x"]), st.fixed_dictionaries({"color": st.sampled_from(["red", "blue"])}))
            if allow_bad_sample:
                return st.one_of(good, st.lists(st.integers(0, 2), max_size=2), st.integers(0, 2))
            return good
        if key == "lst":
            return st.lists(st.integers(0, 2), max_size=3)
        if key in ("plan_name", "plan_type"):
            return st.sampled_from(["count", "generator", "x", ""])
        return small

    def md_dict(allow_bad_sample, max_keys=4):
        return st.lists(st.sampled_from(KEYS), max_size=max_keys, unique=True).flatmap(
            lambda ks: st.fixed_dictionaries({k: value_for(k, allow_bad_sample) for k in ks})
        )

    @st.composite
    def cases(draw):
        vkind = draw(st.sampled_from(["accept", "accept", "key", "value", "default"]))
        vspec = {"kind": vkind}
        if vkind in ("key", "value"):
            vspec["key"] = draw(st.sampled_from(KEYS))
        if vkind == "value":
            vspec["value"] = draw(value_for(vspec["key"], False))
        bad = vkind == "default"
        nkind = draw(
            st.sampled_from(
                ["default", "identity", "to_dict", "add", "inplace_set", "setdefault", "drop", "rename", "inplace_append", "raise_key"]
            )
        )
        nspec = {"kind": nkind}
        if nkind in ("add", "inplace_set", "setdefault", "drop", "rename", "raise_key"):
            nspec["key"] = draw(st.sampled_from(KEYS))
        if nkind in ("add", "inplace_set", "setdefault"):
            # a normalizer may legitimately set any key; keep schema-typed keys well typed
            nspec["value"] = draw(value_for(nspec["key"], False))
        if nkind == "rename":
            nspec["key2"] = draw(st.sampled_from([k for k in KEYS if k not in ("scan_id", "sample")] + ["renamed"]))
        skind = draw(st.sampled_from(["default", "default", "default", "step", "async_step"]))
        sspec = {"kind": skind}
        if skind != "default":
            sspec["step"] = draw(st.integers(1, 3))
        persistent = draw(md_dict(bad))
        ncalls = draw(st.integers(1, 3))
        calls = []
        for _ in range(ncalls):
            kind = draw(st.sampled_from(["generator", "generator", "named_iterable", "list"]))
            call = {
                "plan_kind": kind,
                "plan_name": draw(st.sampled_from(["count", "my_plan", "x"])),
                "kw": draw(md_dict(bad)),
                "md_updates": draw(st.one_of(st.just({}), md_dict(bad, max_keys=2))),
                "catch": draw(st.booleans()),
                "interleave": draw(st.booleans()) if kind != "list" else False,
                "runs": [{"md": draw(md_dict(bad))} for _ in range(draw(st.integers(1, 4)))],
            }
            if draw(st.integers(0, 3)) == 0:
                call["intruder"] = {"at_start": draw(st.integers(1, 3)), "kw": draw(md_dict(False))}
            calls.append(call)
        return {"persistent": persistent, "validator": vspec, "normalizer": nspec, "scan_id_source": sspec, "calls": calls}

    return cases()


def run(ctx):
    ctx.hyp(_strategy, check_case, max_examples=ctx.pick(2500, 40000))


def replay(case):
    return check_case(case)
