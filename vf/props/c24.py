"""C24 Relative moves are offsets from the start and are undone at the end."""

from __future__ import annotations

import copy

from ..core import Result, use_repo

use_repo()

from ..engine import e1common, e1oracles  # noqa: E402
from ..engine.harness import run_case  # noqa: E402
from ..engine.planlang import DS, D, M, SEQ  # noqa: E402

ID = "C24"
ENGINE = "E1"
DESIGN_REF = "DESIGN.md §8 C24"
TECHNIQUE = (
    "Hypothesis-generated programs of relative units (rel_set, mvr, relative_set_wrapper / reset_positions_wrapper "
    "around explicit sets, rel_* scans, x2x_scan, rel_spiral*) run on the real RunEngine with fake motors of three kinds, "
    "ended by success / device fault / foreign stop, abort, halt / pause then resume|abort|stop; the device ledger's set "
    "values are compared with initial position + requested offset, the offsets of scans being taken from the listified "
    "absolute counterpart"
)
LEVEL_TEXT = (
    "Motors report their position through `position`, through locate() (setpoint != readback) or only through a hinted "
    "read. For every unit of the program the initial position of a motor is what that channel reported when the unit "
    "first moved it. Every value passed to Motor.set on an affected motor must equal initial + one of the requested "
    "offsets (or the initial position itself for the restoring set), relative tolerance 1e-12; unaffected motors must "
    "get the requested value unchanged. A run without fault or interruption must issue exactly the expected sequence of "
    "sets per motor. Whenever a unit with position reset (reset_positions_wrapper, rel_* scans) ended with cleanup - it "
    "completed, or the plan died in it by a device fault, stop or abort - the last set of every motor it moved must be "
    "that motor's initial position."
)
LEVEL_NOTE = (
    "Offsets of the scan units come from list(<absolute counterpart>) (scan, list_scan, grid_scan, list_grid_scan, "
    "log_scan, spiral*, with centre 0): the absolute trajectories themselves are C25/C27's subject. No claim when the "
    "engine was halted, got stuck, or when an exception was thrown into the restoring sets themselves (cleanup "
    "disrupted). rel_adaptive_scan and tweak (data dependent / interactive) are not covered."
)
RULE = (
    "case = (2-3 motors: kind position|locatable|read, initial position |x| <= 1e6, readback offset, delay; 1-3 units "
    "separated by checkpoints; ending). Units: rel_set, mvr (1-3 motors), explicit sets under relative_set_wrapper "
    "and/or reset_positions_wrapper (devices given or None, also motors outside the device list), rel_scan, "
    "rel_list_scan, rel_grid_scan, rel_list_grid_scan, rel_log_scan, x2x_scan, rel_spiral, rel_spiral_fermat, "
    "rel_spiral_square. Endings: success; n-th call of a device op raises or its status fails; foreign stop/abort/halt "
    "at message j (+d loop callbacks); pause or deferred pause then resume/abort/stop/halt (n and j are drawn as a "
    "fraction of the program's fault-free run, measured by a dry run). Non-trivial: at least one "
    "affected motor was commanded (class labels count failures/stops after >= 1 move of >= 2 motors). Distinct = canonical JSON."
)
ASSUMPTIONS = [
    "a fake motor's reported position is a pure function of its last commanded setpoint",
    "requests arrive at boundaries between event-loop callbacks",
    "the absolute counterpart of a relative scan yields the requested offsets (docstrings of the rel_* plans)",
]

REL_TOL = 1e-12
DET = "d1"

SCANS = (
    "rel_scan",
    "rel_list_scan",
    "rel_grid_scan",
    "rel_list_grid_scan",
    "rel_log_scan",
    "x2x_scan",
    "rel_spiral",
    "rel_spiral_fermat",
    "rel_spiral_square",
)


# ------------------------------------------------------------------------------------------ units -> plan AST


def _scan_call(u, dets, mot):
    """(relative plan name, absolute counterpart name, args, kwargs) with device placeholders resolved by ``mot``."""
    n = u["name"]
    a = u["args"]
    if n == "rel_scan":
        args = []
        for m, lo, hi in a["axes"]:
            args += [mot(m), lo, hi]
        return n, "scan", [dets] + args + [a["num"]], {}
    if n == "rel_list_scan":
        args = []
        for m, pts in a["axes"]:
            args += [mot(m), list(pts)]
        return n, "list_scan", [dets] + args, {}
    if n == "rel_grid_scan":
        args = []
        for m, lo, hi, num in a["axes"]:
            args += [mot(m), lo, hi, num]
        return n, "grid_scan", [dets] + args, {"snake_axes": a["snake"]}
    if n == "rel_list_grid_scan":
        args = []
        for m, pts in a["axes"]:
            args += [mot(m), list(pts)]
        return n, "list_grid_scan", [dets] + args, {"snake_axes": a["snake"]}
    if n == "rel_log_scan":
        return n, "log_scan", [dets, mot(a["m"]), a["start"], a["stop"], a["num"]], {}
    if n == "x2x_scan":
        rel = [dets, mot(a["m1"]), mot(a["m2"]), a["start"], a["stop"], a["num"]]
        return n, ("scan", [dets, mot(a["m1"]), a["start"], a["stop"], mot(a["m2"]), a["start"] / 2, a["stop"] / 2, a["num"]]), rel, {}
    if n == "rel_spiral":
        kw = {"dr_y": a.get("dr_y"), "tilt": a.get("tilt", 0.0)}
        return n, ("spiral", [dets, mot(a["x"]), mot(a["y"]), 0, 0, a["xr"], a["yr"], a["dr"], a["nth"]]), [dets, mot(a["x"]), mot(a["y"]), a["xr"], a["yr"], a["dr"], a["nth"]], kw
    if n == "rel_spiral_fermat":
        kw = {"dr_y": a.get("dr_y"), "tilt": a.get("tilt", 0.0)}
        return n, ("spiral_fermat", [dets, mot(a["x"]), mot(a["y"]), 0, 0, a["xr"], a["yr"], a["dr"], a["factor"]]), [dets, mot(a["x"]), mot(a["y"]), a["xr"], a["yr"], a["dr"], a["factor"]], kw
    if n == "rel_spiral_square":
        return n, ("spiral_square", [dets, mot(a["x"]), mot(a["y"]), 0, 0, a["xr"], a["yr"], a["xn"], a["yn"]]), [dets, mot(a["x"]), mot(a["y"]), a["xr"], a["yr"], a["xn"], a["yn"]], {}
    raise ValueError(n)


def unit_ast(u, ui):
    k = u["u"]
    if k == "rel_set":
        if u.get("wait", True):
            return ["builtin", "rel_set", {"args": [D(u["m"]), u["v"]], "kwargs": {"wait": True}}]
        g = f"u{ui}"
        return SEQ(["builtin", "rel_set", {"args": [D(u["m"]), u["v"]], "kwargs": {"group": g}}], M("wait", None, group=g))
    if k == "mvr":
        args = []
        for m, v in u["moves"]:
            args += [D(m), v]
        return ["builtin", "mvr", {"args": args, "kwargs": {}}]
    if k == "wrapped":
        g = f"u{ui}"
        body = []
        for j, (m, v) in enumerate(u["body"]):
            body.append(M("set", m, v, group=g))
            if j in (u.get("waits") or []):
                body.append(M("wait", None, group=g))
        body.append(M("wait", None, group=g))
        node = SEQ(*body)
        if u["relative"] is not False:
            node = ["wrap", "relative_set", {"devices": DS(*u["relative"]) if u["relative"] is not None else None}, node]
        if u["reset"] is not False:
            node = ["wrap", "reset_positions", {"devices": DS(*u["reset"]) if u["reset"] is not None else None}, node]
        return node
    if k == "scan":
        name, _ref, args, kw = _scan_call(u, DS(DET), D)
        return ["builtin", name, {"args": args, "kwargs": kw}]
    raise ValueError(k)


def build_e1_case(case):
    nodes = []
    for ui, u in enumerate(case["units"]):
        nodes += [M("checkpoint"), ["mark", f"u{ui}"], unit_ast(u, ui)]
    nodes += [M("checkpoint"), ["mark", "end"]]
    end = case["end"]
    stages = [{"do": "call"}]
    faults = []
    ek = end["kind"]
    if ek == "fault":
        faults = [dict(end["fault"])]
    elif ek in ("stop", "abort", "halt"):
        stages = [{"do": "call", "inj": [{"at_msg": end["at_msg"], "plus": end["plus"], "do": ek}]}, {"do": "resume"}]
    elif ek == "pause":
        stages = [
            {"do": "call", "inj": [{"at_msg": end["at_msg"], "plus": end["plus"], "do": "defer" if end.get("defer") else "pause"}]},
            {"do": end["then"]},
            {"do": "resume"},
        ]
    motors = {}
    for name, spec in case["motors"].items():
        motors[name] = {"pos": spec["pos"], "kind": spec["kind"], "readback_offset": spec.get("readback_offset", 0.0), "delay": spec.get("delay", 0.0)}
    return {
        "name": case.get("name", "gen:c24"),
        "plan": SEQ(*nodes),
        "devices": {"dets": {DET: {"trigger_delay": 0.05}}, "motors": motors, "sigs": {}, "flyers": {}},
        "faults": faults,
        "stages": stages,
        "probe": True,
    }


# ------------------------------------------------------------------------------------------ reference model


class _Stub:
    parent = None

    def __init__(self, name):
        self.name = name
        self.hints = {"fields": [name]}

    def __repr__(self):
        return self.name

    def read(self):
        return {}

    def describe(self):
        return {}

    def read_configuration(self):
        return {}

    def describe_configuration(self):
        return {}

    def trigger(self):
        return None

    def set(self, v):
        return None

    def stop(self, success=True):
        pass


def requested(u):
    """The unit's requests in order: [(motor, value, affected, tracked)].

    ``affected``: the value is an offset from the motor's initial position; ``tracked``: the unit restores the motor."""
    k = u["u"]
    if k == "rel_set":
        return [(u["m"], u["v"], True, False)]
    if k == "mvr":
        return [(m, v, True, False) for m, v in u["moves"]]
    if k == "wrapped":
        out = []
        for m, v in u["body"]:
            aff = u["relative"] is not False and (u["relative"] is None or m in u["relative"])
            trk = u["reset"] is not False and (u["reset"] is None or m in u["reset"])
            out.append((m, v, aff, trk))
        return out
    if k == "scan":
        import bluesky.plans as bp

        stubs = {}

        def mot(name):
            return stubs.setdefault(name, _Stub(name))

        _name, ref, _args, kw = _scan_call(u, [_Stub(DET)], mot)
        if isinstance(ref, tuple):
            ref_name, ref_args = ref
            ref_kw = kw
        else:
            ref_name, ref_args, ref_kw = ref, _args, kw
        out = []
        for msg in getattr(bp, ref_name)(*ref_args, **ref_kw):
            if msg.command == "set" and isinstance(msg.obj, _Stub) and msg.obj.name in stubs:
                out.append((msg.obj.name, float(msg.args[0]), True, True))
        return out
    raise ValueError(k)


def _close(a, b):
    return abs(a - b) <= REL_TOL * max(abs(a), abs(b), 1e-300) or a == b


def _close_sum(obs, init, off):
    """obs == init + off up to REL_TOL relative to the larger operand (cancellation-safe)."""
    return abs(obs - (init + off)) <= REL_TOL * max(abs(init), abs(off), abs(obs))


# ------------------------------------------------------------------------------------------ oracle


def oracle(case, e1case, obs, res):
    units = case["units"]
    mspec = case["motors"]
    end = case["end"]
    ys = obs.plog.yields
    ledger = obs.world.ledger
    feats = dict(e1common.features(e1case, obs))
    try:
        feats.update(e1oracles.interruption_features(obs))
    except Exception as e:  # noqa: BLE001  (the replay model is an aid for matching known findings only)
        feats["interruption_features_error"] = type(e).__name__
    feats["end"] = end["kind"] + (":" + end.get("then", "") if end["kind"] == "pause" else "")
    F = lambda **kw: dict(feats, **kw)  # noqa: E731
    if obs.stuck:
        res.classes.append("stuck(C07)")
        return res

    # ---- unit boundaries in yield indices (marks), then ledger index -> unit
    starts = {}
    for ev in obs.plog.events:
        if ev["t"] == "mark":
            starts.setdefault(ev["label"], ev["after_yield"])
    bounds = []  # (unit index, first yield, end yield (exclusive) or None)
    for ui in range(len(units)):
        if f"u{ui}" not in starts:
            break
        nxt = starts.get(f"u{ui + 1}" if ui + 1 < len(units) else "end")
        bounds.append((ui, starts[f"u{ui}"], nxt))

    def unit_of_yield(i):
        for ui, a, b in bounds:
            if i >= a and (b is None or i < b):
                return ui
        return None

    def yield_of_ledger(L):
        for r in ys:
            hi = r.get("ledger_after")
            if r["ledger"] <= L and (hi is None or L < hi):
                return r["i"]
        return None

    halted = any(c["do"] == "halt" and c.get("outcome") in ("return", "raise") for c in obs.calls) or any(
        r["label"] == "halt" and r.get("state") == "returned" for r in obs.foreign
    )
    fault_fired = any(op.endswith("!raise") for _, _, op, _ in ledger) or any(
        op == "status_done" and info[2] is False for _, _, op, info in ledger
    )
    clean = end["kind"] == "success" or (not obs.injected and not fault_fired and end["kind"] in ("fault", "stop", "abort", "halt", "pause"))
    call_finished = all(c.get("outcome") in ("return", "raise", "skipped") for c in obs.calls) and obs.final_state == "idle"

    # ---- walk the ledger: track setpoints, attribute sets to units
    cur = {m: float(s["pos"]) for m, s in mspec.items()}

    def reported(m):
        if mspec[m]["kind"] == "read":
            return cur[m] + float(mspec[m].get("readback_offset", 0.0))
        return cur[m]

    per_unit = {}  # ui -> {"init": {m: x}, "sets": {m: [v]}, "order": [(m, v)]}
    for L, dev, op, info in ledger:
        if op != "set" or dev not in mspec:
            continue
        val = float(info[0])
        yi = yield_of_ledger(L)
        ui = unit_of_yield(yi) if yi is not None else None
        if ui is not None:
            pu = per_unit.setdefault(ui, {"init": {}, "sets": {}, "order": []})
            if dev not in pu["init"]:
                pu["init"][dev] = reported(dev)
            pu["sets"].setdefault(dev, []).append(val)
            pu["order"].append((dev, val))
        else:
            res.classes.append("set_outside_units")
        cur[dev] = val

    moved_tracked_total = 0
    for ui, a, b in bounds:
        u = units[ui]
        try:
            req = requested(u)
        except Exception as e:  # noqa: BLE001
            from ..core import HarnessError

            raise HarnessError(f"reference for unit {u!r} failed: {type(e).__name__}: {e}")
        pu = per_unit.get(ui, {"init": {}, "sets": {}, "order": []})
        completed = b is not None
        label = u["u"] if u["u"] != "scan" else u["name"]
        res.classes.append("unit:" + label)
        # the restoring sets of this unit as seen by the tap, and whether an exception was thrown into them
        disrupted = False
        for r in ys[a : (b if b is not None else len(ys))]:
            msg = r["msg"]
            if msg.command == "set" and str(msg.kwargs.get("group", "")).startswith("reset-") and "thrown" in r:
                disrupted = True
        motors_here = []
        for m, _v, _aff, _trk in req:
            if m not in motors_here:
                motors_here.append(m)
        for m in motors_here:
            obs_sets = pu["sets"].get(m, [])
            if not obs_sets:
                continue
            init = pu["init"][m]
            kind = mspec[m]["kind"]
            rq = [(v, aff, trk) for mm, v, aff, trk in req if mm == m]
            aff = rq[0][1]
            trk = rq[0][2]
            uf = F(unit=label, motor_kind=kind, affected=aff, tracked=trk, unit_completed=completed)
            # 1. every commanded value = initial + a requested offset (or the initial position when restoring)
            for o in obs_sets:
                ok = any((_close_sum(o, init, v) if aff else _close(o, v)) for v, _, _ in rq) or (trk and _close(o, init))
                if not ok:
                    offs = [v for v, _, _ in rq]
                    res.fail(
                        "commanded_value_not_initial_plus_offset",
                        f"unit#{ui} {label}: {m} ({kind}) reported initial position {init!r}; set({o!r}) is neither "
                        f"{'initial + one of the offsets' if aff else 'one of the requested values'} {offs[:8]!r}"
                        f"{' nor the initial position' if trk else ''} (commanded in this unit: {obs_sets[:12]!r})",
                        **uf,
                    )
                    break
            # 2. an undisturbed run issues exactly the expected sequence
            if clean and completed:
                exp = [(init + v) if aff else v for v, _, _ in rq] + ([init] if trk else [])
                same = len(exp) == len(obs_sets) and all(
                    (_close_sum(o, init, v) if aff else _close(o, v)) for o, (v, _, _) in zip(obs_sets, rq)
                )
                if same and trk:
                    same = _close(obs_sets[-1], init)
                if not same:
                    res.fail(
                        "set_sequence_differs",
                        f"unit#{ui} {label}: {m} ({kind}, initial {init!r}) expected sets {exp[:12]!r}, observed {obs_sets[:12]!r}",
                        **uf,
                    )
            # 3. restored whenever the unit ended with cleanup
            if trk:
                moved_tracked_total += 1
                ended_with_cleanup = completed or (call_finished and not halted)
                if disrupted:
                    res.classes.append("cleanup_disrupted")
                elif not ended_with_cleanup:
                    res.classes.append("no_cleanup(halt/unfinished)")
                elif not _close(obs_sets[-1], init):
                    res.fail(
                        "not_restored",
                        f"unit#{ui} {label} ended with cleanup ({'completed' if completed else 'plan ended: ' + feats['end']}) but the "
                        f"last set of {m} ({kind}) is {obs_sets[-1]!r}, its initial position was {init!r} (sets: {obs_sets[-8:]!r})",
                        **uf,
                    )
        # motors the unit never names must not be commanded in it
        for m, vals in pu["sets"].items():
            if m not in motors_here:
                res.fail("unrelated_motor_commanded", f"unit#{ui} {label}: {m} was set to {vals[:6]!r} although the unit does not move it", **F(unit=label))

    n_moved = len({m for pu in per_unit.values() for m in pu["sets"]})
    res.nontrivial = bool(per_unit)
    if not clean and moved_tracked_total >= 2:
        res.classes.append("ended_early_after_moves_of>=2_tracked")
    res.classes.append("end:" + feats["end"] + ("" if not clean or end["kind"] == "success" else "(missed)"))
    res.classes.append(f"motors_moved:{n_moved}")
    for m, s in mspec.items():
        if any(m in pu["sets"] for pu in per_unit.values()):
            res.classes.append("kind:" + s["kind"])
    return res


def resolve_end(case):
    """Endings given as a fraction of the fault-free run (``frac``) are turned into a message index / call number
    by a fault-free dry run of the same program (deterministic, so the case stays self-contained)."""
    end = case["end"]
    needs = ("frac" in end) or ("frac" in (end.get("fault") or {}))
    if not needs:
        return case
    dry = dict(case, end={"kind": "success"})
    obs = run_case(build_e1_case(dry))
    case = dict(case, end=copy.deepcopy(end))
    end = case["end"]
    if end["kind"] == "fault":
        f = end["fault"]
        cnt = sum(1 for _, dev, op, _ in obs.world.ledger if dev == f["dev"] and op == f["op"])
        f["n"] = 1 + int(f.pop("frac") * cnt) if cnt else 1
    else:
        end["at_msg"] = int(end.pop("frac") * len(obs.hook))
    return case


def check_case(case):
    case = resolve_end(case)
    e1case = build_e1_case(case)
    obs = run_case(e1case)
    res = Result()
    res.klass = case.get("name", "gen:c24")
    oracle(case, e1case, obs, res)
    return res


# ------------------------------------------------------------------------------------------ generator


def strategy():
    from hypothesis import strategies as st

    nice = st.sampled_from([-3.0, -1.5, -1.0, -0.5, 0.0, 0.25, 0.5, 1.0, 2.0, 7.5])
    anyf = st.floats(min_value=-1e6, max_value=1e6, allow_nan=False, allow_infinity=False, width=64)
    val = st.one_of(nice, nice, anyf)

    @st.composite
    def gen(draw):
        nm = draw(st.integers(2, 3))
        names = [f"m{i + 1}" for i in range(nm)]
        motors = {}
        for n in names:
            kind = draw(st.sampled_from(["position", "locatable", "read"]))
            spec = {"pos": draw(val), "kind": kind, "delay": draw(st.sampled_from([0.0, 0.0, 0.1]))}
            if kind != "position":
                spec["readback_offset"] = draw(st.sampled_from([0.0, 0.125, -2.5, 1e3]))
            motors[n] = spec

        def some_motors(lo, hi):
            return draw(st.lists(st.sampled_from(names), min_size=lo, max_size=min(hi, nm), unique=True))

        def pts(n):
            return [draw(val) for _ in range(n)]

        def unit():
            k = draw(st.sampled_from(["rel_set", "mvr", "wrapped", "wrapped", "scan", "scan", "scan"]))
            if k == "rel_set":
                return {"u": "rel_set", "m": draw(st.sampled_from(names)), "v": draw(val), "wait": draw(st.booleans())}
            if k == "mvr":
                return {"u": "mvr", "moves": [[m, draw(val)] for m in some_motors(1, 3)]}
            if k == "wrapped":
                rel = draw(st.sampled_from(["none", "all", "some"]))
                rst = draw(st.sampled_from(["none", "all", "some", "all"]))
                if rel == "none" and rst == "none":
                    rel = "all"
                body = [[draw(st.sampled_from(names)), draw(val)] for _ in range(draw(st.integers(1, 5)))]
                waits = sorted(set(draw(st.lists(st.integers(0, len(body) - 1), max_size=2))))
                return {
                    "u": "wrapped",
                    "relative": False if rel == "none" else None if rel == "all" else some_motors(1, 2),
                    "reset": False if rst == "none" else None if rst == "all" else some_motors(1, 2),
                    "body": body,
                    "waits": waits,
                }
            name = draw(st.sampled_from(SCANS))
            num = draw(st.integers(1, 4))
            if name == "rel_scan":
                ms = some_motors(1, 2)
                return {"u": "scan", "name": name, "args": {"axes": [[m, draw(val), draw(val)] for m in ms], "num": num}}
            if name == "rel_list_scan":
                ms = some_motors(1, 2)
                return {"u": "scan", "name": name, "args": {"axes": [[m, pts(num)] for m in ms]}}
            if name == "rel_grid_scan":
                ms = some_motors(1, 2)
                axes = [[m, draw(val), draw(val), draw(st.integers(1, 3))] for m in ms]
                return {"u": "scan", "name": name, "args": {"axes": axes, "snake": draw(st.booleans())}}
            if name == "rel_list_grid_scan":
                ms = some_motors(1, 2)
                axes = [[m, pts(draw(st.integers(1, 3)))] for m in ms]
                return {"u": "scan", "name": name, "args": {"axes": axes, "snake": draw(st.booleans())}}
            if name == "rel_log_scan":
                lo = draw(st.sampled_from([-2.0, -1.0, 0.0, 0.5, 1.0, 3.0]))
                hi = draw(st.sampled_from([-2.0, -1.0, 0.0, 0.5, 1.0, 3.0]))
                return {"u": "scan", "name": name, "args": {"m": draw(st.sampled_from(names)), "start": lo, "stop": hi, "num": num}}
            two = draw(st.permutations(names))[:2]
            if name == "x2x_scan":
                return {"u": "scan", "name": name, "args": {"m1": two[0], "m2": two[1], "start": draw(val), "stop": draw(val), "num": num}}
            rng = st.sampled_from([2.0, 3.0, 4.0])
            square = {"x": two[0], "y": two[1], "xr": draw(rng), "yr": draw(rng), "xn": draw(st.integers(2, 3)), "yn": draw(st.integers(2, 3))}

            def usable(uu):
                # a spiral whose parameters give no point at all (the plan raises) or very many is outside the domain
                try:
                    return 0 < len(requested(uu)) <= 40
                except Exception:  # noqa: BLE001
                    return False

            if name == "rel_spiral":
                a = {"x": two[0], "y": two[1], "xr": draw(rng), "yr": draw(rng), "dr": draw(st.sampled_from([0.5, 1.0])), "nth": draw(st.sampled_from([1, 2, 3]))}
                a["dr_y"] = draw(st.sampled_from([None, 0.5, 1.0]))
                a["tilt"] = draw(st.sampled_from([0.0, 0.3]))
                uu = {"u": "scan", "name": name, "args": a}
                return uu if usable(uu) else {"u": "scan", "name": "rel_spiral_square", "args": square}
            if name == "rel_spiral_fermat":
                a = {"x": two[0], "y": two[1], "xr": draw(rng), "yr": draw(rng), "dr": draw(st.sampled_from([0.5, 1.0])), "factor": draw(st.sampled_from([0.5, 1.0, 2.0]))}
                a["dr_y"] = draw(st.sampled_from([None, 1.0]))
                a["tilt"] = draw(st.sampled_from([0.0, 0.3]))
                uu = {"u": "scan", "name": name, "args": a}
                return uu if usable(uu) else {"u": "scan", "name": "rel_spiral_square", "args": square}
            return {"u": "scan", "name": name, "args": square}

        units = [unit() for _ in range(draw(st.integers(1, 3)))]
        ek = draw(st.sampled_from(["success", "fault", "fault", "fault", "stop", "abort", "pause", "pause", "halt"]))
        end = {"kind": ek}
        if ek == "fault":
            dev = draw(st.sampled_from(names + names + [DET]))
            if dev == DET:
                op = draw(st.sampled_from(["trigger", "read"]))
            else:
                op = draw(st.sampled_from(["set", "set", "set", "read"]))
            kind = "raise"
            if op in ("set", "trigger") and draw(st.booleans()):
                kind = "status_fail"
            f = {"dev": dev, "op": op, "frac": draw(st.integers(0, 99)) / 100.0, "kind": kind}
            if kind == "status_fail":
                f["dt"] = draw(st.sampled_from([0.0, 0.02, 0.3]))
            end["fault"] = f
        elif ek != "success":
            end["frac"] = draw(st.integers(0, 99)) / 100.0
            end["plus"] = draw(st.integers(0, 5))
            if ek == "pause":
                end["defer"] = draw(st.integers(0, 3)) == 0
                end["then"] = draw(st.sampled_from(["resume", "resume", "abort", "stop", "halt"]))
        return {"name": "gen:c24", "motors": motors, "units": units, "end": end}

    return gen()


# ------------------------------------------------------------------------------------------ fixed sweep


def sweep_cases():
    """Every scan / stub once per motor kind with a fixed awkward start, ended by success and by a fault on the 2nd set."""
    base = {"m1": 12.5, "m2": -3.25, "m3": 1e5 + 0.1}
    units = [
        {"u": "rel_set", "m": "m1", "v": 1.5, "wait": True},
        {"u": "mvr", "moves": [["m1", -2.0], ["m2", 0.75]]},
        {"u": "wrapped", "relative": None, "reset": None, "body": [["m1", 1.0], ["m2", -1.0], ["m1", 2.0]], "waits": [0]},
        {"u": "wrapped", "relative": ["m1"], "reset": ["m2"], "body": [["m1", 1.0], ["m2", 4.0], ["m3", 9.0]], "waits": []},
        {"u": "wrapped", "relative": False, "reset": None, "body": [["m1", 1.0], ["m2", 4.0]], "waits": []},
        {"u": "scan", "name": "rel_scan", "args": {"axes": [["m1", -1.0, 1.0], ["m2", 0.0, 3.0]], "num": 3}},
        {"u": "scan", "name": "rel_list_scan", "args": {"axes": [["m1", [0.5, -0.5, 2.0]], ["m2", [1.0, 2.0, 3.0]]]}},
        {"u": "scan", "name": "rel_grid_scan", "args": {"axes": [["m1", -1.0, 1.0, 2], ["m2", 0.0, 1.0, 3]], "snake": True}},
        {"u": "scan", "name": "rel_list_grid_scan", "args": {"axes": [["m1", [0.5, -0.5]], ["m2", [1.0, 2.0]]], "snake": False}},
        {"u": "scan", "name": "rel_log_scan", "args": {"m": "m1", "start": -1.0, "stop": 1.0, "num": 3}},
        {"u": "scan", "name": "x2x_scan", "args": {"m1": "m1", "m2": "m2", "start": -2.0, "stop": 2.0, "num": 3}},
        {"u": "scan", "name": "rel_spiral", "args": {"x": "m1", "y": "m2", "xr": 2.0, "yr": 2.0, "dr": 1.0, "nth": 2, "dr_y": None, "tilt": 0.0}},
        {"u": "scan", "name": "rel_spiral_fermat", "args": {"x": "m1", "y": "m2", "xr": 2.0, "yr": 2.0, "dr": 1.0, "factor": 1.0, "dr_y": None, "tilt": 0.0}},
        {"u": "scan", "name": "rel_spiral_square", "args": {"x": "m1", "y": "m2", "xr": 2.0, "yr": 2.0, "xn": 2, "yn": 2}},
    ]
    ends = [
        {"kind": "success"},
        {"kind": "fault", "fault": {"dev": "m1", "op": "set", "n": 2, "kind": "raise"}},
        {"kind": "fault", "fault": {"dev": "m2", "op": "set", "n": 1, "kind": "status_fail", "dt": 0.02}},
        {"kind": "abort", "at_msg": 9, "plus": 1},
        {"kind": "stop", "at_msg": 14, "plus": 0},
    ]
    for u in units:
        for kind in ("position", "locatable", "read"):
            motors = {m: {"pos": p, "kind": kind, "delay": 0.1 if m == "m1" else 0.0} for m, p in base.items()}
            if kind != "position":
                for m in motors:
                    motors[m]["readback_offset"] = 0.125
            for end in ends:
                yield {"name": "fixed:" + (u["name"] if u["u"] == "scan" else u["u"]), "motors": copy.deepcopy(motors), "units": [copy.deepcopy(u)], "end": copy.deepcopy(end)}


def run(ctx):
    cases = list(sweep_cases())
    ctx.sweep(cases, check_case)
    ctx.extra["sweep_cases"] = len(cases)
    ctx.hyp(strategy, check_case, max_examples=ctx.pick(1500, 20000), tag="c24")


def replay(case):
    return check_case(case)
