"""C09 A deferred pause takes effect exactly at the next checkpoint."""

from __future__ import annotations

from ..core import use_repo

use_repo()

from ..engine import corpus, e1common, e1oracles  # noqa: E402

ID = "C09"
ENGINE = "E1"
DESIGN_REF = "DESIGN.md §8 C09"
TECHNIQUE = "schedule enumeration of deferred-pause requests at every loop-callback boundary + Hypothesis-generated plans with checkpoints at generated spacing; RE.deferred_pause_requested sampled inside msg_hook; trace predicate"
LEVEL_TEXT = (
    "A deferred pause is requested from a foreign thread at every callback boundary of the corpus plans and at generated "
    "positions of generated plans. The pending flag is sampled on the loop thread at every message; the engine must pause "
    "immediately after the first checkpoint whose hook saw the flag set, before any later message, resume must replay "
    "nothing, and without a following checkpoint the plan must complete, the flag must stay reported until the next plan "
    "starts and be cleared then."
)
LEVEL_NOTE = "Only single deferred requests are judged (a second request or a terminator makes the case a different class)."
RULE = (
    "case = (plan, one 'defer' injection at callback index k or message index+offset, decisions resume). Sweep over the "
    "corpus at every k; Hypothesis profile 'defer'. Non-trivial: at least one non-checkpoint message executed between "
    "the request becoming visible and the pause (or the flag was visible and no checkpoint followed). Distinct = canonical JSON."
)
ASSUMPTIONS = ["requests arrive at boundaries between event-loop callbacks"]

check_case = e1common.make_check(e1oracles.oracle_c09)


def run(ctx):
    names = corpus.corpus_names(ctx.tier)
    cases = list(corpus.single_request_cases(names, ("defer",), decisions=("resume",)))
    # a suspension between the deferred request and the checkpoint it is waiting for must not lose the request
    for name in names:
        n = corpus.n_handles(name)
        for k in range(0, n, 2):
            for d in (1, 4):
                c = corpus.base_case(name)
                c["stages"] = [
                    {"do": "call", "inj": [{"at": k, "do": "defer"}, {"at": k + d, "do": "suspend", "release_after": 0.3}]},
                    {"do": "resume"},
                    {"do": "resume"},
                ]
                c["probe"] = True
                cases.append(c)
    ctx.sweep(cases, check_case)
    ctx.extra["sweep_cases"] = len(cases)
    e1common.generated(ctx, check_case, n=ctx.pick(1000, 30000), profile="defer")


def replay(case):
    return check_case(case)
