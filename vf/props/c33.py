"""C33 0MQ publishing delivers documents intact and filters by prefix."""

from __future__ import annotations

import asyncio
import contextlib
import io
import pickle
import warnings
from collections import deque
from types import SimpleNamespace

from ..core import Result, jsonable, unjson, use_repo

use_repo()

ID = "C33"
DESIGN_REF = "DESIGN.md §8 C33"
TECHNIQUE = (
    "Hypothesis-generated publishing scripts (documents, prefixes, injected malformed frames) run through the real "
    "Publisher and RemoteDispatcher over in-memory zmq stand-ins, compared with a protocol-level reference"
)
LEVEL_TEXT = (
    "Real Publisher instances and a real RemoteDispatcher (its own asyncio loop, start() until the script is drained) "
    "are connected through an in-memory hub passed via their zmq=/zmq_asyncio= parameters. For each dispatcher the "
    "delivered (name, document) list is compared (deep, type- and numpy-aware, order-sensitive) with the list of "
    "well-formed frames of accepted publishers; malformed frames must deliver nothing, must not stop later delivery in "
    "non-strict mode and must make start() raise in strict mode."
)
LEVEL_NOTE = (
    "The transport is a stand-in (reliable, ordered, SUB filtering by byte prefix of the frame); socket-level "
    "behaviour of libzmq (slow joiners, HWM drops) is not modelled. Default pickle serializer only. Exploration, not proof."
)
RULE = (
    "case = (1-3 publishers with byte prefixes without b' ' incl. empty / non-UTF-8 / one a proper prefix of another, "
    "1-2 dispatchers (prefix or none, strict or not), a script of publish actions (any of the 12 document names, nested "
    "documents with numpy arrays, bytes, NaN, strings containing spaces) and raw malformed frames (no space, one space, "
    "undecodable name, unknown document name, truncated pickle), burst size, whether recv yields). Non-trivial: at "
    "least two documents of an accepted publisher and either a prefix-filtering dispatcher facing a foreign publisher's "
    "document or a malformed frame followed by a later accepted document. Distinct = distinct canonical JSON."
)
ASSUMPTIONS = [
    "frames arrive complete, in publication order, exactly once (in-memory hub)",
    "a prefix selects the publisher whose prefix is equal to it (not merely starts with it)",
    "strict mode: any exception out of start() counts as 'raise'; a malformed frame that is not addressed to a "
    "prefix-filtering dispatcher may be skipped or raise",
    "documents are dicts of picklable values; document names are the 12 DocumentNames",
]
ENGINE = "E3"

DOC_NAMES = [
    "start",
    "stop",
    "descriptor",
    "event",
    "datum",
    "resource",
    "event_page",
    "datum_page",
    "stream_resource",
    "stream_datum",
    "bulk_datum",
    "bulk_events",
]

# ------------------------------------------------------------------------------------------
# in-memory zmq stand-ins


class _Hub:
    """The 'proxy': forwards every frame sent by a PUB socket to every connected SUB socket whose
    subscriptions (byte prefixes of the frame, as libzmq does) match."""

    def __init__(self, actions, burst):
        self.subs = []
        self.actions = deque(actions)  # callables executed lazily while a dispatcher is listening
        self.burst = max(1, int(burst))
        self.log = []

    def route(self, frame):
        frame = bytes(frame)
        self.log.append(frame)
        for s in self.subs:
            if s.connected and not s.closed and any(frame.startswith(p) for p in s.filters):
                s.queue.append(frame)

    def step(self):
        if not self.actions:
            return False
        for _ in range(self.burst):
            if not self.actions:
                break
            self.actions.popleft()()
        return True


class _PubSocket:
    def __init__(self, hub):
        self.hub = hub
        self.connected = False
        self.closed = False

    def connect(self, url):
        self.connected = True

    def send(self, message, *a, **k):
        if self.closed or not self.connected:
            raise RuntimeError("send on a closed / unconnected PUB socket")
        self.hub.route(message)

    def close(self, *a, **k):
        self.closed = True


class _SubSocket:
    def __init__(self, hub, yields):
        self.hub = hub
        self.queue = deque()
        self.filters = []
        self.connected = False
        self.closed = False
        self.yields = yields
        self.handed = []  # frames handed to the dispatcher, in order
        hub.subs.append(self)

    def connect(self, url):
        self.connected = True

    def setsockopt_string(self, opt, value):
        if opt == "SUBSCRIBE":
            self.filters.append(value.encode())

    def setsockopt(self, opt, value):
        if opt == "SUBSCRIBE":
            self.filters.append(bytes(value))

    async def recv(self, *a, **k):
        if self.yields:
            await asyncio.sleep(0)
        while not self.queue:
            if not self.hub.step():
                # nothing more will ever arrive: end the poll task the way production ends it
                # (the task is cancelled while it waits in recv)
                raise asyncio.CancelledError()
        frame = self.queue.popleft()
        self.handed.append(frame)
        return frame

    def close(self, *a, **k):
        self.closed = True


class _Context:
    def __init__(self, hub, asyncio_flavour, yields):
        self.hub = hub
        self.aio = asyncio_flavour
        self.yields = yields
        self.sockets = []

    def socket(self, kind):
        s = _PubSocket(self.hub) if kind == "PUB" else _SubSocket(self.hub, self.yields)
        self.sockets.append(s)
        return s

    def destroy(self, *a, **k):
        for s in self.sockets:
            s.close()

    term = destroy


def _fake_modules(hub, yields):
    zmq = SimpleNamespace(PUB="PUB", SUB="SUB", SUBSCRIBE="SUBSCRIBE", Context=lambda *a, **k: _Context(hub, False, yields))
    zmq_asyncio = SimpleNamespace(Context=lambda *a, **k: _Context(hub, True, yields))
    return zmq, zmq_asyncio


# ------------------------------------------------------------------------------------------
# reference


def _deep_eq(a, b):
    import numpy as np

    if type(a) is not type(b):
        return False
    if isinstance(a, dict):
        return list(a) == list(b) and all(_deep_eq(a[k], b[k]) for k in a)
    if isinstance(a, (list, tuple)):
        return len(a) == len(b) and all(_deep_eq(x, y) for x, y in zip(a, b))
    if isinstance(a, float):
        return a == b or (a != a and b != b)
    if isinstance(a, np.ndarray):
        if a.dtype != b.dtype or a.shape != b.shape:
            return False
        return bool(np.array_equal(a, b, equal_nan=a.dtype.kind in "fc"))
    if isinstance(a, np.generic):
        return a.dtype == b.dtype and bool(a == b or (a != a and b != b))
    return a == b


def _classify(frame, dprefix):
    """Protocol-level reading of one frame for a dispatcher with prefix ``dprefix``.

    Returns (verdict, info): verdict in deliver / ignore / malformed_addressed / malformed_unaddressed;
    info = (name, doc) for deliver, else the malformation kind."""
    parts = frame.split(b" ", 2)
    addressed = (not dprefix) or frame.startswith(dprefix + b" ")
    mal = "malformed_addressed" if addressed else "malformed_unaddressed"
    if len(parts) < 3:
        return mal, ("no_space" if len(parts) == 1 else "one_space")
    prefix, name, payload = parts
    try:
        name_s = name.decode()
    except UnicodeDecodeError:
        return mal, "undecodable_name"
    if not addressed:
        # a foreign publisher's frame: never delivered; its payload is none of this dispatcher's business
        return "ignore", None
    try:
        doc = pickle.loads(payload)
    except Exception:
        return mal, "bad_payload"
    if name_s not in DOC_NAMES:
        return mal, "unknown_name"
    return "deliver", (name_s, doc)


def _run_one(case, dcfg, res, feats):
    from bluesky.callbacks.zmq import Publisher, RemoteDispatcher

    pub_prefixes = [unjson(p["prefix"]) for p in case["publishers"]]
    dprefix = unjson(dcfg["prefix"])
    strict = bool(dcfg["strict"])
    yields = bool(case.get("yield", True))

    pubs = []
    actions = []
    hub = _Hub([], case.get("burst", 1))
    fz, fza = _fake_modules(hub, yields)
    for p in pub_prefixes:
        try:
            pubs.append(Publisher(("localhost", 5567), prefix=p, zmq=fz))
        except Exception as e:
            return res.fail("publisher_ctor_raised", f"Publisher(prefix={p!r}) raised {type(e).__name__}: {e}", **feats)
    try:
        d = RemoteDispatcher(("localhost", 5568), prefix=dprefix, strict=strict, zmq=fz, zmq_asyncio=fza)
    except Exception as e:
        return res.fail("dispatcher_ctor_raised", f"RemoteDispatcher(prefix={dprefix!r}) raised {type(e).__name__}: {e}", **feats)

    pub_errors = []
    for act in case["script"]:
        if act["op"] == "pub":
            pub, name, doc = pubs[act["p"]], act["name"], unjson(act["doc"])

            def a(pub=pub, name=name, doc=doc):
                try:
                    pub(name, doc)
                except Exception as e:  # must not kill the dispatcher's loop: report separately
                    pub_errors.append(f"Publisher({pub._prefix!r})({name!r}, ...) raised {type(e).__name__}: {e}")

            actions.append(a)
        else:
            frame = unjson(act["frame"])
            actions.append(lambda frame=frame: hub.route(frame))
    hub.actions = deque(actions)

    got = []

    def cb(name, doc):
        got.append((name, doc))

    d.subscribe(cb)
    outcome, exc = "returned", None
    try:
        d.start()
    except asyncio.CancelledError:
        outcome = "drained"
    except Exception as e:
        outcome, exc = "raised", e
    finally:
        asyncio.set_event_loop(None)
        if not d.loop.is_closed():
            d.loop.close()
    who = f"dispatcher(prefix={dprefix!r}, strict={strict})"

    sock = d._socket
    handed = list(sock.handed) if sock is not None else []
    while hub.step():  # run what is left of the script so that the whole frame stream is known
        pass
    for p in pubs:
        with contextlib.suppress(Exception):
            p.close()
    stream = list(hub.log)
    if pub_errors:
        return res.fail("publisher_call_raised", pub_errors[0], **feats)
    if len(stream) != len(case["script"]):
        return res.fail(
            "frame_count",
            f"{len(case['script'])} script actions (one frame each) produced {len(stream)} frames on the wire",
            **feats,
        )
    if handed != stream[: len(handed)]:
        return res.fail(
            "frames_lost_before_dispatch",
            f"{who}: the SUB socket was handed {len(handed)} frames that are not the first {len(handed)} frames on the wire "
            "(dispatcher did not connect / subscribe to everything)",
            **feats,
        )

    # (1) the publishers' own frames, read at protocol level ("prefix name payload" separated by b' '), must
    #     carry exactly the (name, doc) pairs of the script
    for i, frame in enumerate(stream):
        act = case["script"][i]
        if act["op"] != "pub":
            continue
        pp = pub_prefixes[act["p"]]
        verdict, info = _classify(frame, pp)
        if verdict != "deliver":
            return res.fail("publisher_frame_malformed", f"frame {frame[:80]!r} of Publisher(prefix={pp!r}) does not parse: {verdict}/{info}", **feats)
        if info[0] != act["name"] or not _deep_eq(info[1], unjson(act["doc"])):
            return res.fail("publisher_frame_differs", f"frame of Publisher(prefix={pp!r}) carries {info!r}, published ({act['name']!r}, {unjson(act['doc'])!r})", **feats)
        if frame.split(b" ", 1)[0] != pp:
            return res.fail("publisher_prefix_wrong", f"frame {frame[:40]!r} of Publisher(prefix={pp!r}) has a different first field", **feats)

    # (2) reference reading of the stream for this dispatcher
    verdicts = [_classify(f, dprefix) for f in stream]
    must_raise_at = None
    if strict:
        for i, (v, _info) in enumerate(verdicts):
            if v == "malformed_addressed":
                must_raise_at = i
                break
    r = len(handed) - 1  # frame being handled when start() ended
    last = f"{verdicts[r][0]}/{verdicts[r][1] if verdicts[r][0] != 'deliver' else verdicts[r][1][0]}" if handed else "none"
    last_kind = (verdicts[r][1] if verdicts[r][0].startswith("malformed") else verdicts[r][0]) if handed else "none"

    if outcome == "returned":
        return res.fail("start_returned", f"{who}: start() returned normally after {len(handed)} of {len(stream)} frames (last: {last})", **feats)
    upto = len(stream)
    if not strict:
        if outcome == "raised":
            return res.fail(
                f"nonstrict_raised_on_{last_kind}",
                f"{who}: start() raised {exc!r} while handling frame #{r} of {len(stream)} ({stream[r][:60]!r}: {last}); "
                "in non-strict mode malformed frames are dropped and delivery of later frames continues",
                **feats,
            )
    else:
        if outcome == "raised":
            ok_here = r == must_raise_at or (verdicts[r][0] == "malformed_unaddressed" and (must_raise_at is None or r < must_raise_at))
            if not ok_here:
                return res.fail(
                    f"strict_raised_on_{last_kind}",
                    f"{who}: start() raised {exc!r} while handling frame #{r} ({last}); first frame that must raise: {must_raise_at}",
                    **feats,
                )
            res.classes.append(f"strict_raise/{last_kind}/{type(exc).__name__}")
            upto = r
        elif must_raise_at is not None:
            return res.fail(
                "strict_did_not_raise",
                f"{who}: frame #{must_raise_at} {stream[must_raise_at][:60]!r} is malformed ({verdicts[must_raise_at][1]}) but start() did not raise",
                **feats,
            )
    expected = [info for v, info in verdicts[:upto] if v == "deliver"]
    # the same expectation straight from the script (independent of any frame parsing)
    script_expected = [
        (a["name"], unjson(a["doc"]))
        for a in case["script"][:upto]
        if a["op"] == "pub" and ((not dprefix) or pub_prefixes[a["p"]] == dprefix)
    ]
    if len(script_expected) != len(expected) or not all(x[0] == y[0] and _deep_eq(x[1], y[1]) for x, y in zip(script_expected, expected)):
        # only raw frames may add to / differ from the script's documents, and the generator only injects malformed ones
        if all(a["op"] == "pub" for a in case["script"]):
            return res.fail("reference_disagreement", f"{who}: stream reading {len(expected)} vs script {len(script_expected)} documents", **feats)

    # both directions: nothing lost, nothing invented, order kept, content equal
    if len(got) != len(expected):
        kind = "missing_deliveries" if len(got) < len(expected) else "extra_deliveries"
        return res.fail(
            kind,
            f"{who} publishers={pub_prefixes!r}: delivered {len(got)} documents {[g[0] for g in got][:12]}, expected {len(expected)} "
            f"{[e[0] for e in expected][:12]}",
            **feats,
        )
    for i, (g, e) in enumerate(zip(got, expected)):
        if g[0] != e[0]:
            return res.fail("wrong_name_or_order", f"{who}: delivery #{i} is {g[0]!r}, expected {e[0]!r}", **feats)
        if not _deep_eq(g[1], e[1]):
            return res.fail("document_differs", f"{who}: delivery #{i} ({g[0]}) is {g[1]!r}, published {e[1]!r}", **feats)
    return res


def check_case(case) -> Result:
    res = Result()
    pub_prefixes = [unjson(p["prefix"]) for p in case["publishers"]]
    script = case["script"]
    kinds = [a.get("kind", "raw") for a in script if a["op"] == "raw"]
    feats = {"raw_kinds": sorted(set(kinds)), "n_dispatchers": len(case["dispatchers"])}
    nontrivial = False
    labels = set()
    for dcfg in case["dispatchers"]:
        dp = unjson(dcfg["prefix"])
        acc = [i for i, a in enumerate(script) if a["op"] == "pub" and ((not dp) or pub_prefixes[a["p"]] == dp)]
        foreign = [i for i, a in enumerate(script) if a["op"] == "pub" and dp and pub_prefixes[a["p"]] != dp]
        raws = [i for i, a in enumerate(script) if a["op"] == "raw"]
        if len(acc) >= 2 and (foreign or (raws and acc[-1] > raws[0])):
            nontrivial = True
        labels.add("strict" if dcfg["strict"] else "nonstrict")
        labels.add("dispatcher_prefix" if dp else "dispatcher_no_prefix")
        if dp and any(p != dp and (p.startswith(dp) or dp.startswith(p)) for p in pub_prefixes):
            labels.add("related_prefixes")
    for p in pub_prefixes:
        try:
            p.decode()
        except UnicodeDecodeError:
            labels.add("non_utf8_prefix")
        if not p:
            labels.add("empty_publisher_prefix")
    for k in set(kinds):
        labels.add(f"raw/{k}")
    if any(a["op"] == "pub" and b" " in pickle.dumps(unjson(a["doc"])) for a in script):
        labels.add("payload_contains_space_byte")
    res.nontrivial = nontrivial
    res.klass = f"pubs={len(pub_prefixes)}/disp={len(case['dispatchers'])}"
    res.classes.extend(sorted(labels))

    sink = io.StringIO()
    with contextlib.redirect_stdout(sink), warnings.catch_warnings():
        warnings.simplefilter("ignore")
        for dcfg in case["dispatchers"]:
            dp = unjson(dcfg["prefix"])
            f = dict(
                feats,
                strict=bool(dcfg["strict"]),
                unknown_name_frame_addressed=any(
                    a["op"] == "raw" and _classify(unjson(a["frame"]), dp) == ("malformed_addressed", "unknown_name") for a in script
                ),
            )
            _run_one(case, dcfg, res, f)
            if res.failures:
                break
    return res


# ------------------------------------------------------------------------------------------
# generator


def _strategy():
    import numpy as np
    from hypothesis import strategies as st

    pool = [b"", b"a", b"ab", b"abc", b"RE1", b"RE10", b"\xff", b"\xff\xfe", b"\x00", b"\n", b"b"]
    prefix = st.one_of(st.sampled_from(pool), st.sampled_from(pool), st.binary(max_size=5).map(lambda b: b.replace(b" ", b"_")))

    arrays = st.one_of(
        st.lists(st.integers(-(2**40), 2**40), max_size=4).map(lambda v: np.array(v, dtype="int64")),
        st.lists(st.floats(allow_nan=True, width=64), max_size=4).map(lambda v: np.array(v, dtype="float64")),
        st.lists(st.integers(0, 255), max_size=6).map(lambda v: np.array(v, dtype="uint8")),
        st.lists(st.lists(st.integers(0, 40), min_size=2, max_size=2), max_size=3).map(lambda v: np.array(v, dtype="int64").reshape(len(v), 2)),
        st.lists(st.booleans(), max_size=3).map(lambda v: np.array(v, dtype="bool")),
    )
    scalars = st.one_of(
        st.none(),
        st.booleans(),
        st.integers(-(2**70), 2**70),
        st.sampled_from([32, 0x2020, 8224, 0, -1]),
        st.floats(allow_nan=True, allow_infinity=True, width=64),
        st.text(max_size=8),
        st.sampled_from(["a b", " ", "  x  ", "event", "ü ñ", ""]),
        st.binary(max_size=6),
        st.sampled_from([b" ", b"a b c"]),
        arrays,
        st.floats(allow_nan=True, width=64).map(np.float64),
        st.integers(-100, 100).map(np.int32),
    )
    keys = st.one_of(st.sampled_from(["uid", "time", "data", "timestamps", "seq_num", "a b", "descriptor", ""]), st.text(max_size=5)).filter(
        lambda k: not k.startswith("__")
    )
    values = st.recursive(scalars, lambda ch: st.one_of(st.lists(ch, max_size=3), st.dictionaries(keys, ch, max_size=3)), max_leaves=4)
    gen_docs = st.dictionaries(keys, values, max_size=4)
    # most documents come from a fixed diverse pool (one draw each: generation cost is dominated by the number of
    # draws); the dispatcher's logic depends on the payload only through its bytes (b' ' inside, length)
    doc_pool = [
        {},
        {"uid": "a"},
        {"uid": "a b", "time": 1.5},
        {"uid": "3f2a", "time": 1700000000.25, "scan_id": 32, "plan_name": "count", "detectors": ["det 1", "det2"]},
        {"uid": "s", "exit_status": "success", "num_events": {"primary": 3}, "reason": ""},
        {"data": {"det": 1.0, "motor": float("nan")}, "timestamps": {"det": 1.0, "motor": 2.0}, "seq_num": 1, "filled": {}},
        {"data": {"img": np.arange(6, dtype="int64").reshape(2, 3)}, "seq_num": 8224, "descriptor": "d 1"},
        {"data": {"x": np.array([1.5, float("nan"), float("inf")])}, "u8": np.array([32, 32, 0], dtype="uint8")},
        {"data_keys": {"det": {"dtype": "number", "shape": [], "source": "PV:a b"}}, "name": "primary", "run_start": "r"},
        {"datum_id": "res/0", "datum_kwargs": {"frame": 0}, "resource": "res"},
        {"spec": "AD_HDF5", "root": "/", "resource_path": "a b/c.h5", "resource_kwargs": {"frame_per_point": 1}, "path_semantics": "posix"},
        {"b": b"raw bytes \x00\xff", "none": None, "t": True, "big": 2**70, "neg": -(2**40), "f32": np.float32(0.5)},
        {"seq_num": [1, 2, 3], "data": {"det": [1.0, 2.0, 3.0]}, "time": [0.0, 1.0, 2.0], "empty": np.array([], dtype="float64")},
        {" ": " ", "": "", "ü ñ": "ü ñ \U0001F600"},
        {"nested": {"a": {"b": {"c": [{"d": [1, [2, [3]]]}]}}}},
        {"mask": np.array([True, False]), "scalar": np.float64(2.0), "i32": np.int32(-7)},
    ]
    docs = st.one_of(st.sampled_from(doc_pool), st.sampled_from(doc_pool), st.sampled_from(doc_pool), gen_docs)

    @st.composite
    def cases(draw):
        npub = draw(st.integers(1, 3))
        pubs = [draw(prefix) for _ in range(npub)]
        ndisp = draw(st.sampled_from([1, 1, 2]))
        disps = []
        for _ in range(ndisp):
            dp = draw(st.one_of(st.sampled_from(pubs), st.sampled_from(pubs), st.just(b""), prefix))
            if dp and draw(st.integers(0, 7)) == 0:
                dp = dp[: max(1, len(dp) - 1)]  # a proper prefix of a publisher's prefix
            disps.append({"prefix": dp, "strict": draw(st.sampled_from([False, False, True]))})
        n = draw(st.integers(2, 10))
        script = []
        raw_budget = draw(st.sampled_from([0, 0, 1, 1, 2, 3]))
        addr = [d["prefix"] for d in disps] + pubs
        for _ in range(n):
            if raw_budget and draw(st.integers(0, 2)) == 0:
                raw_budget -= 1
                kind = draw(st.sampled_from(["no_space", "one_space", "undecodable_name", "unknown_name", "bad_payload"]))
                pfx = draw(st.sampled_from(addr))
                payload = pickle.dumps(draw(docs))
                if kind == "no_space":
                    frame = pfx + draw(st.binary(max_size=6)).replace(b" ", b"")
                elif kind == "one_space":
                    frame = pfx + b" " + draw(st.sampled_from([b"event", b"", b"start"]))
                elif kind == "undecodable_name":
                    frame = pfx + b" " + draw(st.sampled_from([b"\xff\xfe", b"event\xff", b"\xc3"])) + b" " + payload
                elif kind == "unknown_name":
                    frame = pfx + b" " + draw(st.sampled_from([b"notadoc", b"Event", b"", b"events", b"all"])) + b" " + payload
                else:
                    cut = draw(st.integers(0, len(payload) - 1))
                    frame = pfx + b" " + draw(st.sampled_from([b"event", b"start", b"stop"])) + b" " + payload[:cut]
                script.append({"op": "raw", "kind": kind, "frame": frame})
            else:
                script.append({"op": "pub", "p": draw(st.integers(0, npub - 1)), "name": draw(st.sampled_from(DOC_NAMES)), "doc": draw(docs)})
        case = {
            "publishers": [{"prefix": p} for p in pubs],
            "dispatchers": disps,
            "script": script,
            "burst": draw(st.sampled_from([1, 1, 2, 3, 10])),
            "yield": draw(st.booleans()),
        }
        return jsonable(case)

    return cases()


def run(ctx):
    # several moderate Hypothesis runs instead of one huge one: per-example cost grows with the size of a run
    for r in range(ctx.pick(1, 5)):
        ctx.hyp(_strategy, check_case, max_examples=ctx.pick(5000, 24000), tag=f"r{r}" if r else "")


def replay(case):
    return check_case(case)
