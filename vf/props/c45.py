"""C45 Collected stream assets line up with the stream's event numbering."""

from __future__ import annotations

import warnings

from ..core import Result, use_repo

use_repo()

from ..engine.harness import run_case  # noqa: E402
from ..engine.oracles import check_docs  # noqa: E402
from ..engine.planlang import D, DS, M, SEQ  # noqa: E402

warnings.filterwarnings("ignore", message="coroutine .* was never awaited")

ID = "C45"
ENGINE = "E1"
DESIGN_REF = "DESIGN.md §8 C45"
TECHNIQUE = (
    "Hypothesis-generated fly scans on the real RunEngine with 1-3 fake stream-asset detectors (generated written-frame "
    "progressions, 1-2 data keys, sync/async protocol methods, optional event pages) declared into one or two streams and "
    "collected together/alone at generated cadences (explicit collect, collect_while_completing), interleaved with "
    "trigger_and_read of the same detectors in a second stream; emitted stream_resource/stream_datum/event/stop documents "
    "compared with a reference model computed from the case"
)
LEVEL_TEXT = (
    "Each generated plan runs uninterrupted on the real engine. From the frame progressions and the executed collect "
    "messages an independent model computes, per stream and data key, the stream_datum documents that are due (indices "
    "[published, min index) and seq_nums continuing at the stream's next number); the emitted documents must equal it: "
    "one stream_resource per key before its first datum, indices tiling [0, F) and seq_nums tiling [1, F+1) in emission "
    "order, every detector of a joint collect asked for exactly the minimum of the reported indices, event pages numbered "
    "1..F, and num_events[stream] == F (also for the step-scanned second stream)."
)
LEVEL_NOTE = (
    "Detectors are fakes modelled on ophyd-async's StandardDetector (publish [published, index) when asked to collect up "
    "to index); file contents, Tiled and real hardware timing are outside. Interruptions are C05's business."
)
RULE = (
    "case = (per-detector frame progressions, key counts, sync/async, detector grouping into 1-2 collect streams, sequence "
    "of collect / trigger_and_read actions, final explicit collect or collect_while_completing(flush_period, complete "
    "delay)). Non-trivial: some stream received at least two non-empty collects, or a joint collect whose detectors "
    "reported different indices. Distinct = canonical JSON."
    ' Also the same detectors collected into two declared streams, interleaved (per-stream seq_num tiling from 1, per-key index tiling from 0).'
)
ASSUMPTIONS = [
    "stream detectors publish [published, index) on collect_asset_docs(index) like ophyd-async's StandardDetector",
    "every detector belongs to exactly one collect stream (a stream's object set is fixed by declare_stream)",
    "virtual time: the number of collect_while_completing iterations is read from the executed messages",
]

STREAM_OF = {"G1": "fly", "G2": "fly2"}


def _names(msg):
    return [getattr(o, "name", None) for o in (msg.obj,) + tuple(msg.args)]


def model(case, obs):
    """Expected documents per collect stream, computed from the case and the executed collect messages."""
    specs = case["devices"]["streamdets"]
    state = {n: {"pos": 0, "published": 0, "res": False} for n in specs}

    def query(n):
        fr = specs[n].get("frames") or []
        st = state[n]
        if not fr:
            return 0
        v = fr[min(st["pos"], len(fr) - 1)]
        st["pos"] += 1
        return v

    def keys(n):
        return list(specs[n].get("keys") or [f"{n}_fly"])

    exp = {}  # stream -> {"datums": [(key, i0, i1, s0, s1)], "resources": [key], "counter": next seq, "asked": [(det, index)], "collects": n, "nonempty": n, "differ": bool}
    for h in obs.hook:
        m = h["msg"]
        if m.command != "collect":
            continue
        dets = _names(m)
        stream = m.kwargs.get("name")
        e = exp.setdefault(stream, {"datums": [], "resources": [], "counter": 1, "asked": [], "collects": 0, "nonempty": 0, "differ": False, "pages": []})
        e["collects"] += 1
        if len(dets) > 1:
            vals = [query(n) for n in dets]
            idx = min(vals)
            if len(set(vals)) > 1:
                e["differ"] = True
            targets = [(n, idx, idx) for n in dets]
        else:
            idx = query(dets[0])
            targets = [(dets[0], None, idx)]
        width = None
        for n, asked, index in targets:
            e["asked"].append((n, asked))
            st = state[n]
            if index > 0 and not st["res"]:
                st["res"] = True
                e["resources"] += keys(n)
            if index > st["published"]:
                w = index - st["published"]
                for k in keys(n):
                    e["datums"].append((k, st["published"], index, e["counter"], e["counter"] + w))
                st["published"] = index
                width = w if width is None else width
        if width:
            e["nonempty"] += 1
            if len(dets) == 1 and specs[dets[0]].get("pages"):
                e["pages"].append(list(range(e["counter"], e["counter"] + width)))
            e["counter"] += width
    return exp


def oracle(case, obs, res):
    feats = dict(case.get("_feat") or {})
    call = obs.calls[0]
    if obs.stuck or call.get("outcome") != "return":
        exc = call.get("exc")
        res.fail("plan_did_not_complete", f"RE(plan) -> {call.get('outcome')} {type(exc).__name__ if exc is not None else ''}: {exc}", **feats)
        return res
    runs, problems = check_docs(obs.docs, idle=True, validate=True)
    for kind, detail in problems:
        res.fail("doc_" + kind, detail, **feats)
    if len(runs) != 1:
        res.fail("run_count", f"{len(runs)} runs", **feats)
        return res
    run = next(iter(runs.values()))
    ne = (run.stop or {}).get("num_events") or {}
    exp = model(case, obs)
    desc_name = {u: d["name"] for u, d in run.descriptors.items()}
    got = {}  # stream -> [(key, i0, i1, s0, s1)]
    res_order = {}  # stream -> [key] in emission order (via first use)
    res_pos = {}
    order_of = {}
    for order, item in enumerate(obs.docs):
        order_of[id(item[1])] = order
    for uid, r in run.stream_resources.items():
        res_pos[uid] = order_of.get(id(r), -1)
    for sd in run.stream_datums:
        r = run.stream_resources[sd["stream_resource"]]
        stream = desc_name.get(sd["descriptor"])
        got.setdefault(stream, []).append((r["data_key"], sd["indices"]["start"], sd["indices"]["stop"], sd["seq_nums"]["start"], sd["seq_nums"]["stop"]))
        if res_pos[sd["stream_resource"]] > sd["_vf_order"]:
            res.fail("resource_after_datum", f"stream_resource {sd['stream_resource']} emitted after a stream_datum referring to it", **feats)
    by_stream = run.events_by_stream()

    for stream, e in sorted(exp.items(), key=repr):
        g = got.get(stream, [])
        want = e["datums"]
        F = e["counter"] - 1
        if g != want:
            res.fail(
                "stream_datums_differ_from_model",
                f"stream {stream}: emitted (key, indices, seq_nums) {g} but the frame progressions and collect cadence give {want}",
                **feats,
            )
        # the statement's clauses, directly on the emitted documents
        per_key = {}
        for k, i0, i1, s0, s1 in g:
            per_key.setdefault(k, []).append((i0, i1, s0, s1))
        for k, rows in per_key.items():
            ni, ns = 0, 1
            for i0, i1, s0, s1 in rows:
                if i0 != ni or s0 != ns or i1 <= i0 or (s1 - s0) != (i1 - i0):
                    res.fail("ranges_not_contiguous", f"stream {stream} key {k}: (indices, seq_nums) rows {rows} do not tile from 0 / 1", **feats)
                    break
                ni, ns = i1, s1
            else:
                if ns - 1 != ne.get(stream, 0):
                    res.fail("num_events_vs_frames", f"stream {stream} key {k}: {ns - 1} frames declared by stream datums, num_events={ne.get(stream, 0)}", **feats)
        if ne.get(stream, 0) != F:
            res.fail("num_events_vs_model", f"stream {stream}: num_events={ne.get(stream, 0)}, frames due {F}", **feats)
        # resources: exactly one per key
        rk = sorted(r["data_key"] for r in run.stream_resources.values() if r["data_key"] in set(e["resources"]) | {k for k, *_ in want})
        if rk != sorted(e["resources"]):
            res.fail("stream_resources_differ", f"stream {stream}: stream_resource data_keys {rk}, expected one each of {sorted(e['resources'])}", **feats)
        # event pages of a page-collectable detector
        seqs = [ev["seq_num"] for ev in by_stream.get(stream, [])]
        want_seqs = [s for page in e["pages"] for s in page]
        if seqs != want_seqs:
            res.fail("page_seq_nums", f"stream {stream}: event seq_nums {seqs}, expected {want_seqs}", **feats)

    # every detector of a joint collect was asked for the minimum index (device ledger vs model)
    asked_got = {}
    for _, dev, op, info in obs.world.ledger:
        if op == "collect_asset_docs" and info and info[0] == "fly":
            asked_got.setdefault(dev, []).append(info[1])
    asked_want = {}
    for e in exp.values():
        for n, a in e["asked"]:
            asked_want.setdefault(n, []).append(a)
    if asked_got != asked_want:
        res.fail("asked_index_not_minimum", f"collect_asset_docs(index) calls per detector {asked_got}, expected {asked_want}", **feats)

    # second (step-scanned) stream
    n_tar = sum(1 for h in obs.hook if h["msg"].command == "save")
    if n_tar or "primary" in by_stream:
        seqs = [ev["seq_num"] for ev in by_stream.get("primary", [])]
        if seqs != list(range(1, n_tar + 1)) or ne.get("primary", 0) != n_tar:
            res.fail("step_stream_numbering", f"primary: event seq_nums {seqs}, num_events={ne.get('primary', 0)}, {n_tar} points taken", **feats)
        per_key = {}
        for k, i0, i1, s0, s1 in got.get("primary", []):
            per_key.setdefault(k, []).append((i0, i1, s0, s1))
        want_rows = [(j, j + 1, j + 1, j + 2) for j in range(n_tar)]
        for k in sorted(case.get("_step_keys") or []):
            if per_key.get(k, []) != want_rows:
                res.fail("step_stream_datums", f"primary key {k}: (indices, seq_nums) {per_key.get(k, [])}, expected {want_rows}", **feats)
        extra = set(per_key) - set(case.get("_step_keys") or [])
        if extra:
            res.fail("step_stream_datums", f"primary: stream datums for unexpected keys {sorted(extra)}", **feats)
    unknown = set(got) - set(exp) - {"primary"}
    if unknown:
        res.fail("datum_in_unknown_stream", f"stream datums in streams {sorted(map(str, unknown))}", **feats)

    res.nontrivial = any(e["nonempty"] >= 2 or e["differ"] for e in exp.values())
    for stream, e in exp.items():
        res.classes.append(f"{stream}:collects={min(e['collects'], 6)}:nonempty={min(e['nonempty'], 4)}")
    if any(e["differ"] for e in exp.values()):
        res.classes.append("joint_collect_indices_differ")
    if any(e["pages"] for e in exp.values()):
        res.classes.append("pages")
    if any(e["collects"] > e["nonempty"] for e in exp.values()):
        res.classes.append("empty_collect")
    if n_tar:
        res.classes.append("second_stream")
    return res


def check_case(case):
    obs = run_case(case)
    res = Result()
    f = case.get("_feat") or {}
    res.klass = f"g1={f.get('n_g1')}|g2={f.get('g2')}|{f.get('ending')}"
    return oracle(case, obs, res)


# ------------------------------------------------------------------------------------------


def build_case(g1, g2, actions, ending, flush, dets, tar_devs):
    """g1: detector names of stream 'fly'; g2: [] or [name] for stream 'fly2'; actions: list of
    "c1" | "c2" | "tar"; ending: "collect" | "cwc"; dets: {name: StreamDet kwargs}."""

    def coll(g, name):
        return M("collect", g[0], *[D(o) for o in g[1:]], name=name)

    nodes = [M("open_run"), M("declare_stream", None, *[D(o) for o in g1], name="fly", collect=True)]
    if g2:
        nodes.append(M("declare_stream", None, *[D(o) for o in g2], name="fly2", collect=True))
    for o in g1 + g2:
        nodes.append(M("kickoff", o, group="k"))
    nodes.append(M("wait", None, group="k"))
    for a in actions:
        if a == "c1":
            nodes.append(coll(g1, "fly"))
        elif a == "c2" and g2:
            nodes.append(coll(g2, "fly2"))
        elif a == "tar" and tar_devs:
            nodes.append(["builtin", "trigger_and_read", {"args": [DS(*tar_devs)], "kwargs": {"name": "primary"}}])
    if ending == "cwc":
        nodes.append(["builtin", "collect_while_completing", {"args": [DS(*g1), DS(*g1)], "kwargs": {"flush_period": flush, "stream_name": "fly"}}])
    else:
        for o in g1:
            nodes.append(M("complete", o, group="c"))
        nodes.append(M("wait", None, group="c"))
        nodes.append(coll(g1, "fly"))
    if g2:
        nodes.append(M("complete", g2[0], group="c2"))
        nodes.append(M("wait", None, group="c2"))
        nodes.append(coll(g2, "fly2"))
    nodes.append(M("close_run"))
    step_keys = [f"{o}_step" for o in tar_devs if o in dets]
    return {
        "name": "gen:c45",
        "plan": SEQ(*nodes),
        "devices": {"dets": {"d1": {}}, "motors": {}, "sigs": {}, "flyers": {}, "streamdets": dets},
        "stages": [{"do": "call"}],
        "_feat": {"n_g1": len(g1), "g2": ("pages" if g2 and dets[g2[0]].get("pages") else "plain") if g2 else "none", "ending": ending},
        "_step_keys": step_keys,
    }


def cases():
    from hypothesis import strategies as st

    @st.composite
    def progression(draw):
        n = draw(st.integers(1, 7))
        v = 0
        out = []
        for _ in range(n):
            v += draw(st.sampled_from([0, 0, 1, 1, 2, 3, 5]))
            out.append(v)
        return out

    @st.composite
    def gen(draw):
        n1 = draw(st.integers(1, 3))
        g1 = ["x1", "x2", "x3"][:n1]
        has_g2 = draw(st.integers(0, 2)) == 0
        g2 = ["y1"] if has_g2 else []
        dets = {}
        for o in g1:
            kw = {"frames": draw(progression()), "delay": draw(st.sampled_from([0.0, 0.5, 1.0]))}
            if draw(st.booleans()):
                kw["keys"] = [f"{o}_a", f"{o}_b"]
            if draw(st.integers(0, 2)) == 0:
                kw["async_"] = True
            if draw(st.booleans()):
                kw["scalar"] = True
            dets[o] = kw
        if g2:
            kw = {"frames": draw(progression())}
            if draw(st.booleans()):
                kw["pages"] = True
            dets["y1"] = kw
        actions = draw(st.lists(st.sampled_from(["c1", "c1", "c1", "c2", "tar"]), min_size=0, max_size=8))
        ending = draw(st.sampled_from(["collect", "cwc"]))
        flush = draw(st.sampled_from([0.2, 0.3, 0.45, 2.0]))
        tar_pool = g1 + g2 + ["d1"]
        tar_devs = draw(st.lists(st.sampled_from(tar_pool), min_size=1, max_size=3, unique=True)) if "tar" in actions else []
        return build_case(g1, g2, actions, ending, flush, dets, sorted(tar_devs))

    return gen()


FIXED = [
    # the progressions of the repository test style, hand-checked
    (["x1", "x2"], [], ["c1", "c1", "tar", "c1"], "collect", 0.3, {"x1": {"frames": [2, 3, 5, 7]}, "x2": {"frames": [1, 4, 4, 7], "keys": ["x2_a", "x2_b"], "async_": True}}, ["x1"]),
    (["x1"], ["y1"], ["c1", "c2", "c1", "c2", "tar"], "cwc", 0.3, {"x1": {"frames": [0, 2, 2, 5], "delay": 1.0}, "y1": {"frames": [1, 1, 4], "pages": True}}, ["d1", "y1"]),
    (["x1", "x2", "x3"], [], ["c1", "c1", "c1"], "cwc", 0.2, {"x1": {"frames": [3, 3, 9], "delay": 0.5}, "x2": {"frames": [1, 2, 9], "delay": 1.0}, "x3": {"frames": [0, 5, 9]}}, []),
]


# ------------------------------------------------------------------------------------------
# the same detectors collected into two declared streams, interleaved (the flats / projections / flats pattern of the
# repository's own tomography test).  A detector's indices then run on across the streams, so of the statement's
# clauses only these apply: per stream and key the seq_num ranges tile from 1 with the width of their index range
# and end at the stream's num_events; per key the index ranges tile from 0 in emission order.


def shared_cases():
    from hypothesis import strategies as st

    @st.composite
    def gen(draw):
        n = draw(st.integers(1, 2))
        g = ["x1", "x2"][:n]
        dets = {}
        for o in g:
            k = draw(st.integers(2, 6))
            v, fr = 0, []
            for _ in range(k):
                v += draw(st.sampled_from([0, 1, 1, 2, 3]))
                fr.append(v)
            dets[o] = {"frames": fr}
            if draw(st.booleans()):
                dets[o]["keys"] = [f"{o}_a", f"{o}_b"]
        seq = draw(st.lists(st.sampled_from(["fly", "fly2"]), min_size=2, max_size=6))
        nodes = [M("open_run")]
        for name in ("fly", "fly2"):
            nodes.append(M("declare_stream", None, *[D(o) for o in g], name=name, collect=True))
        for o in g:
            nodes.append(M("kickoff", o, group="k"))
        nodes.append(M("wait", None, group="k"))
        for name in seq:
            nodes.append(M("collect", g[0], *[D(o) for o in g[1:]], name=name))
        for o in g:
            nodes.append(M("complete", o, group="c"))
        nodes.append(M("wait", None, group="c"))
        nodes.append(M("collect", g[0], *[D(o) for o in g[1:]], name=seq[-1]))
        nodes.append(M("close_run"))
        return {
            "name": "gen:c45:shared",
            "plan": SEQ(*nodes),
            "devices": {"dets": {"d1": {}}, "motors": {}, "sigs": {}, "flyers": {}, "streamdets": dets},
            "stages": [{"do": "call"}],
            "shared": True,
        }

    return gen()


def check_shared(case):
    obs = run_case(case)
    res = Result()
    res.klass = "shared_detectors"
    call = obs.calls[0]
    if obs.stuck or call.get("outcome") != "return":
        exc = call.get("exc")
        res.fail("plan_did_not_complete", f"RE(plan) -> {call.get('outcome')} {type(exc).__name__ if exc is not None else ''}: {exc}", shared=True)
        return res
    runs, problems = check_docs(obs.docs, idle=True, validate=True)
    for kind, detail in problems:
        res.fail("doc_" + kind, detail, shared=True)
    if len(runs) != 1:
        return res
    run = next(iter(runs.values()))
    ne = (run.stop or {}).get("num_events") or {}
    desc_name = {u: d["name"] for u, d in run.descriptors.items()}
    per = {}  # (stream, key) -> rows ; per key -> rows in emission order
    per_key = {}
    for sd in run.stream_datums:
        r = run.stream_resources[sd["stream_resource"]]
        row = (sd["indices"]["start"], sd["indices"]["stop"], sd["seq_nums"]["start"], sd["seq_nums"]["stop"])
        per.setdefault((desc_name.get(sd["descriptor"]), r["data_key"]), []).append(row)
        per_key.setdefault(r["data_key"], []).append(row)
    streams_used = {s for (s, _k) in per}
    res.nontrivial = len(streams_used) == 2
    for (stream, k), rows in sorted(per.items(), key=repr):
        ns = 1
        for i0, i1, s0, s1 in rows:
            if s0 != ns or i1 <= i0 or (s1 - s0) != (i1 - i0):
                res.fail("seq_nums_not_contiguous_from_one", f"stream {stream} key {k}: (indices, seq_nums) rows {rows} (all rows of the key, both streams: {per_key[k]})", shared=True)
                break
            ns = s1
        else:
            if ns - 1 != ne.get(stream, 0):
                res.fail("num_events_vs_frames", f"stream {stream} key {k}: {ns - 1} frames declared by its stream datums, num_events={ne.get(stream, 0)}", shared=True)
    for k, rows in sorted(per_key.items()):
        ni = 0
        for i0, i1, _s0, _s1 in rows:
            if i0 != ni:
                res.fail("indices_not_contiguous", f"key {k}: index ranges {[(a, b) for a, b, _, _ in rows]} do not tile from 0", shared=True)
                break
            ni = i1
    return res


def check_any(case):
    return check_shared(case) if case.get("shared") else check_case(case)


def run(ctx):
    ctx.sweep([build_case(*f) for f in FIXED], check_case)
    ctx.hyp(cases, check_case, max_examples=ctx.pick(1500, 40000), tag="c45")
    ctx.hyp(shared_cases, check_shared, max_examples=ctx.pick(300, 8000), tag="shared")


def replay(case):
    return check_any(case)
