"""C23 Paired-action wrappers always undo what they did."""

from __future__ import annotations

from .. import gendrv as G
from ..core import Result, use_repo

use_repo()

ID = "C23"
DESIGN_REF = "DESIGN.md §8 C23, §2.2"
TECHNIQUE = (
    "generated wrapped plan programs (succeeding, failing, handling or not handling thrown errors / RequestStop / "
    "RequestAbort / PlanHalt / close) under run_wrapper, stage_wrapper, lazily_stage_wrapper, subs_wrapper, "
    "suspend_wrapper, monitor_during_wrapper, fly_during_wrapper and SupplementalData; trace predicates evaluated on "
    "the messages the wrapper emits and the responses a scripted engine gives"
)
LEVEL_TEXT = (
    "Trace predicates per wrapper: one close_run per answered open_run, right after the wrapped plan ends, with "
    "exit_status/reason matching how it ended and none after close(); every device whose stage was answered is "
    "unstaged afterwards, in reverse order, never before the plan ended, never more than it was staged; unsubscribed "
    "tokens = tokens handed out; every installed suspender removed once; at every close_run reaching the engine no "
    "signal of the wrapper is still monitored and every kicked-off flyer has been completed, waited for and collected; "
    "the wrapped plan's own messages, responses, return value / exception pass through."
)
LEVEL_NOTE = (
    "Exploration on the generator level (no RunEngine): the engine is a scripted responder (stage -> list with or "
    "without descendants / None / [] / Status; subscribe -> fresh token; open_run -> uid). Obligations end when a "
    "second exception or a close() hits the wrapper's own cleanup messages. open_run/close_run message objects are "
    "not re-yielded by the generated plans (plan_mutator skips message objects it has already seen; the repo's tests "
    "document that limitation)."
)
RULE = (
    "case = (wrapper, its arguments (device lists with shared ancestors, subs forms, suspenders, signals, flyers), "
    "stage response mode, wrapped program, script of engine events). The script is drawn while stepping the wrapped "
    "stack itself (the finished script is part of the case), so events land inside the plan's try clauses and on the "
    "wrapper's own set-up / cleanup messages; sends are answered by the scripted engine. Non-trivial: the wrapper performed at least one paired action (an answered "
    "open_run / stage / subscribe / install_suspender / monitor / kickoff) and the wrapped plan was started. "
    "Distinct = distinct canonical JSON of the case."
)
ASSUMPTIONS = [
    "devices are plain objects with name/parent; read/set/trigger/kickoff messages always carry a device",
    "tokens returned for subscribe are unique; suspenders, signals and flyers of one case are distinct objects",
    "KeyboardInterrupt/SystemExit are never thrown; programs never yield None",
]
ENGINE = "E2"

WRAPPERS = ["run", "stage", "lazy", "subs", "suspend", "monitor", "fly", "sd"]
STAGE_CMDS = ("read", "set", "trigger", "kickoff")

# device forest: name -> parent name
FOREST = {"A": None, "A.x": "A", "A.y": "A", "A.x.z": "A.x", "B": None, "B.x": "B", "C": None}


class Dev:
    def __init__(self, name, parent=None):
        self.name = name
        self.parent = parent
        self.children = []

    def __repr__(self):
        return f"Dev({self.name})"


class FakeStatus:
    """Conforms to bluesky.protocols.Status (what ophyd-async devices return from stage())."""

    done = True
    success = True
    name = "status"

    def add_callback(self, callback):
        callback(self)

    def exception(self, timeout=0.0):
        return None


def _objs():
    objs = {}
    for n, p in FOREST.items():
        objs[n] = Dev(n, objs[p] if p else None)
        if p:
            objs[p].children.append(objs[n])
    for n in ("s0", "s1", "fl0", "fl1", "su0", "su1"):
        objs[n] = Dev(n)
    return objs


def _root(d):
    while d.parent is not None:
        d = d.parent
    return d


def _descendants(d):
    out = []
    for c in d.children:
        out.append(c)
        out += _descendants(c)
    return out


# ------------------------------------------------------------------------------------------


def _spy(gen, rec, env):
    """Transparent layer recording how (and at which driver step) the wrapped plan ended."""
    try:
        ret = yield from gen
    except GeneratorExit:
        rec.append(("closed", None, env.steps))
        raise
    except BaseException as e:
        rec.append(("raised", e, env.steps))
        raise
    rec.append(("returned", ret, env.steps))
    return ret


def _subs_arg(form, fns):
    if form == "single":
        return fns[0]
    if form == "list":
        return list(fns)
    return {"event": [fns[0]], "all": list(fns[1:]) or [fns[0]]}


def _n_subs(form, nf):
    return 1 if form == "single" else (nf if form == "list" else 1 + max(1, nf - 1))


def _build(case, env, which, state):
    rec = []
    plan = env.instantiate(case["plan"], "plan")
    if which == "ref":  # only used to aim the script: the bare program
        return plan, rec
    import bluesky.preprocessors as bpp

    plan = _spy(plan, rec, env)
    w = case["wrapper"]
    o = env.objs
    if w == "run":
        return bpp.run_wrapper(plan, md=dict(case.get("md") or {})), rec
    if w == "stage":
        return bpp.stage_wrapper(plan, [o[n] for n in case["devices"]]), rec
    if w == "lazy":
        return bpp.lazily_stage_wrapper(plan), rec
    if w == "subs":
        fns = []
        for i in range(case["nfuncs"]):

            def f(name, doc, _i=i):
                return None

            f.__name__ = f"cb{i}"
            fns.append(f)
        state["fns"] = fns
        return bpp.subs_wrapper(plan, _subs_arg(case["subs_form"], fns)), rec
    if w == "suspend":
        sus = [o[n] for n in case["suspenders"]]
        return bpp.suspend_wrapper(plan, sus[0] if case.get("single") else sus), rec
    if w == "monitor":
        return bpp.monitor_during_wrapper(plan, [o[n] for n in case["signals"]]), rec
    if w == "fly":
        return bpp.fly_during_wrapper(plan, [o[n] for n in case["flyers"]]), rec
    if w == "sd":
        sd = bpp.SupplementalData(monitors=[o[n] for n in case["signals"]], flyers=[o[n] for n in case["flyers"]])
        return sd(plan), rec
    raise ValueError(w)


def _responder(case, env, state):
    mode = case.get("stage_resp", "list_self")
    counter = [0]

    def respond(msg):
        cmd = getattr(msg, "command", None)
        if cmd == "stage":
            if mode == "none":
                return None
            if mode == "empty":
                return []
            if mode == "status":
                return FakeStatus()
            if mode == "list_children":
                return [msg.obj] + _descendants(msg.obj)
            return [msg.obj]
        if cmd == "subscribe":
            counter[0] += 1
            return 100 + counter[0]
        if cmd == "open_run":
            counter[0] += 1
            return f"uid-{counter[0]}"
        return None

    return respond


def _run(case, which):
    env = G.Env(_objs())
    state = {"d": None}
    gen, rec = _build(case, env, which, state)
    d = G.Driver(gen, env, cap=400)
    state["d"] = d
    d.responder = _responder(case, env, state)
    d.run(case["script"])
    return env, d, rec, state


# ------------------------------------------------------------------------------------------
# predicates


def _steps(env, d):
    """[(index, msg, source ctx or 'w', answer)] for every message that reached the driver;
    answer = ('send', value) | ('throw', name) | ('close',) | None (never answered)."""
    out = []
    n = len(d.trace)
    for i in range(n):
        m = d.yielded[i]
        if m is None:
            continue
        mid = d.trace[i][1][1]
        src = mid[0] if mid[0] in env.ctxs else "w"
        ans = None
        if i + 1 < n:
            a = d.trace[i + 1][0]
            if a[0] == "send":
                ans = ("send", d.sent[i + 1])
            elif a[0] == "throw":
                ans = ("throw", a[1])
            else:
                ans = ("close",)
        out.append((i, m, src, ans))
    return out


def _is_halt(ans):
    return ans is not None and (ans[0] == "close" or (ans[0] == "throw" and G.is_genexit_name(ans[1])))


def _check(case, env, d, rec, state, res, feats):
    from bluesky.utils import RunEngineControlException

    w = case["wrapper"]
    steps = _steps(env, d)
    def fail(kind, detail, **kw):
        return res.fail(kind, detail, **{**feats, **kw})

    how, hval, hidx = rec[0] if rec else (None, None, None)
    if hidx is not None:
        hidx -= 1  # index of the trace entry whose action ended the plan; messages from there on come after it
    last = d.trace[-1][1]
    did = 0

    # the wrapped plan passes through: its final outcome is preserved (every wrapper but run returns the plan's value)
    if how == "returned" and last[0] == "return" and w != "run":
        if last[1] != env.val(hval):
            fail("return_value_changed", f"plan returned {env.val(hval)!r}, wrapper returned {last[1]!r}")

    cleanup_cmds = {
        "run": {"close_run"},
        "stage": {"unstage", "wait"},
        "lazy": {"unstage", "wait"},
        "subs": {"unsubscribe"},
        "suspend": {"remove_suspender"},
    }.get(w, set())
    # was the wrapper's own cleanup hit by a second exception / close?  (obligations end there)
    interrupted = False
    in_cleanup = False
    for i, m, src, ans in steps:
        if src != "w":
            continue
        if m.command in cleanup_cmds - {"wait"}:
            in_cleanup = True
        if in_cleanup and m.command in cleanup_cmds and ans is not None and ans[0] != "send":
            interrupted = True
    halted = any(a[0] == "close" or (a[0] == "throw" and G.is_genexit_name(a[1])) for a, _ in d.trace)
    # closed / halted while the wrapped plan (or the wrapper's set-up) was active: no cleanup may follow
    closed_active = how == "closed" or (how is None and halted and not in_cleanup)

    if w == "run":
        opens = [s for s in steps if s[2] == "w" and s[1].command == "open_run"]
        closes = [s for s in steps if s[2] == "w" and s[1].command == "close_run"]
        if not opens or steps[0][1].command != "open_run":
            if steps:
                fail("no_open_run_first", f"first message is {steps[0][1]}")
            return 0
        if dict(opens[0][1].kwargs) != dict(case.get("md") or {}):
            fail("open_run_md", f"open_run kwargs {dict(opens[0][1].kwargs)} != md")
        if len(opens) > 1:
            fail("open_run_twice", "more than one open_run emitted")
        if opens[0][3] is None or opens[0][3][0] != "send":
            if closes:
                fail("close_run_without_open", "open_run was not answered but close_run was emitted")
            return 0
        did = 1
        uid = opens[0][3][1]
        if how in ("returned", "raised"):
            if len(closes) != 1:
                fail("close_run_count", f"plan {how}: expected exactly one close_run, saw {len(closes)}")
                return did
            ci, cm, _, cans = closes[0]
            nxt = [s for s in steps if s[0] >= hidx]
            if not nxt or nxt[0][0] != ci:
                fail("close_run_not_immediately", "close_run is not the first message after the plan ended")
            kw = dict(cm.kwargs)
            if how == "returned":
                if kw.get("exit_status") not in (None, "success") or kw.get("reason") not in (None, ""):
                    fail("close_run_status", f"plan returned but close_run has {kw}")
            elif isinstance(hval, RunEngineControlException):
                if kw.get("exit_status") != hval.exit_status:
                    fail("close_run_status", f"plan ended with {type(hval).__name__} (exit_status {hval.exit_status!r}) but close_run has {kw}")
            else:
                if kw.get("exit_status") != "fail" or kw.get("reason") != str(hval):
                    fail("close_run_status", f"plan raised {hval!r} but close_run has {kw}")
            if cans is not None and cans[0] == "send":
                if how == "returned" and last != ["return", env.val(uid)]:
                    fail("run_return", f"expected the run uid {uid!r} to be returned, outcome {last}")
                if how == "raised" and not (last[0] == "raise" and d.final_exc is hval):
                    fail("exception_not_preserved", f"plan raised {hval!r} but wrapper outcome is {last}")
        else:
            if closes:
                fail("close_run_after_close", f"plan was closed/halted while active but {len(closes)} close_run emitted")
        return did

    if w in ("stage", "lazy"):
        stage_msgs = [s for s in steps if s[2] == "w" and s[1].command == "stage"]
        unstage_msgs = [s for s in steps if s[2] == "w" and s[1].command == "unstage"]
        staged = []  # devices reported staged, in order
        for i, m, src, ans in stage_msgs:
            if ans is not None and ans[0] == "send":
                r = ans[1]
                if w == "stage":
                    staged.append(m.obj)
                elif r is None or isinstance(r, FakeStatus):
                    staged.append(m.obj)
                else:
                    staged.extend(r)
        did = len(staged)
        if w == "stage":
            roots = []
            for n in case["devices"]:
                r = _root(env.objs[n])
                if r not in roots:
                    roots.append(r)
            got = [m.obj for _, m, _, _ in stage_msgs]
            if got != roots[: len(got)]:
                fail("stage_order", f"stage messages for {got}, expected a prefix of {roots}")
        else:
            # every device message of the plan is preceded by an answered stage of its root
            ok_roots = set()
            attempted = set()
            for i, m, src, ans in steps:
                if src == "w" and m.command == "stage":
                    attempted.add(id(m.obj))
                    if ans is not None and ans[0] == "send":
                        ok_roots.add(id(m.obj))
                if src == "plan" and m.command in STAGE_CMDS:
                    r = _root(m.obj)
                    if id(r) not in attempted:
                        fail("device_used_unstaged", f"{m.command} on {m.obj} reached the engine but {r} was never staged")
                        break
        unstaged = [m.obj for _, m, _, _ in unstage_msgs]
        if unstage_msgs and hidx is not None and unstage_msgs[0][0] < hidx:
            fail("unstage_before_plan_end", "an unstage was emitted before the wrapped plan ended")
        if closed_active:
            if unstaged:
                fail("unstage_after_close", f"plan was closed/halted while active but unstage emitted for {unstaged}")
            return did
        # nothing invented
        allowed = list(staged)
        if w == "stage":
            allowed = roots
            for x in unstaged:
                if x not in allowed:
                    fail("unstage_invented", f"unstage of {x}, which the wrapper does not manage")
            if len(set(map(id, unstaged))) != len(unstaged):
                fail("unstaged_more_than_once", f"unstage sequence {unstaged}")
        else:
            pool = list(staged)
            for x in unstaged:
                if x in pool:
                    pool.remove(x)
                else:
                    fail("unstage_invented", f"unstage of {x} without a matching stage report (staged {staged})")
                    break
            dup = [x for x in set(staged) if staged.count(x) > 1]
            if dup:
                res.classes.append("device_reported_staged_twice")
                touched = [m.obj for _, m, src, _ in steps if src == "plan" and m.command in STAGE_CMDS]
                fail(
                    "device_staged_and_unstaged_more_than_once",
                    f"{dup} staged {[staged.count(x) for x in dup]} times (stage sequence {[m.obj for _, m, _, _ in stage_msgs]})",
                    **{"stage_response_omits_descendants": case.get("stage_resp") in ("list_self", "none", "status", "empty") and any(x.parent is not None for x in touched)},
                )
        if interrupted:
            return did
        # nothing lost, reverse order
        if w == "stage":
            want = [x for x in reversed(roots) if x in staged]
            gotr = [x for x in unstaged if x in staged]
        else:
            want = list(reversed(staged))
            gotr = unstaged
        if gotr != want:
            fail("unstage_mismatch", f"staged {staged}; expected unstage order {want}, got {unstaged}", stage_resp=case.get("stage_resp"))
        return did

    if w == "subs":
        installed = [ans[1] for _, m, src, ans in steps if src == "w" and m.command == "subscribe" and ans and ans[0] == "send"]
        removed = [m.kwargs.get("token") for _, m, src, _ in steps if src == "w" and m.command == "unsubscribe"]
        did = len(installed)
        nsub = sum(1 for _, m, src, _ in steps if src == "w" and m.command == "subscribe")
        if nsub > _n_subs(case["subs_form"], case["nfuncs"]):
            fail("subscribe_invented", f"{nsub} subscribe messages")
        if closed_active:
            if removed:
                fail("unsubscribe_after_close", f"closed while active but unsubscribe emitted: {removed}")
            return did
        for t in removed:
            if t not in installed or removed.count(t) > 1:
                fail("unsubscribe_invented", f"unsubscribe tokens {removed}, installed {installed}")
                break
        if not interrupted and sorted(removed) != sorted(installed):
            fail("subscription_leaked", f"installed tokens {installed}, unsubscribed {removed}")
        return did

    if w == "suspend":
        installed = [m.args[0] for _, m, src, ans in steps if src == "w" and m.command == "install_suspender" and ans and ans[0] == "send"]
        removed = [m.args[0] for _, m, src, _ in steps if src == "w" and m.command == "remove_suspender"]
        did = len(installed)
        conf = [env.objs[n] for n in case["suspenders"]][: 1 if case.get("single") else None]
        if closed_active:
            if removed:
                fail("remove_after_close", "closed while active but remove_suspender emitted")
            return did
        for x in removed:
            if x not in conf or removed.count(x) > 1:
                fail("remove_invented", f"removed {removed}, configured {conf}")
                break
        if not interrupted and any(x not in removed for x in installed):
            fail("suspender_leaked", f"installed {installed}, removed {removed}")
        return did

    # monitor / fly / sd : state machine over everything that reached the engine
    sigs = [env.objs[n] for n in case.get("signals", [])] if w in ("monitor", "sd") else []
    flyers = [env.objs[n] for n in case.get("flyers", [])] if w in ("fly", "sd") else []
    monitored = []
    fly = {}  # flyer -> state
    complete_groups = set()
    expect_after_open = None
    for i, m, src, ans in steps:
        ok = ans is not None and ans[0] == "send"
        if m.command == "close_run":
            if monitored:
                fail("close_run_with_active_monitors", f"close_run reached the engine while {monitored} still monitored")
                break
            bad = {f: st for f, st in fly.items() if st != "collected"}
            if bad:
                fail("close_run_with_uncollected_flyers", f"close_run reached the engine with flyers {bad}")
                break
            fly.clear()
        if src == "w":
            if m.command == "monitor" and ok:
                monitored.append(m.obj)
                did += 1
            elif m.command == "unmonitor" and ok:
                if m.obj in monitored:
                    monitored.remove(m.obj)
                else:
                    res.classes.append("unmonitor_of_unmonitored")
            elif m.command == "kickoff" and ok:
                fly[m.obj] = "kicked"
                did += 1
            elif m.command == "complete" and ok and fly.get(m.obj) == "kicked":
                fly[m.obj] = "completed"
                complete_groups.add(m.kwargs.get("group"))
            elif m.command == "wait" and ok and m.kwargs.get("group") in complete_groups:
                for f, st in fly.items():
                    if st == "completed":
                        fly[f] = "waited"
            elif m.command == "collect" and ok:
                if fly.get(m.obj) == "waited":
                    fly[m.obj] = "collected"
                elif fly.get(m.obj) == "collected":
                    res.classes.append("collected_again")
                elif m.obj in fly:
                    fail("collect_before_complete_and_wait", f"collect of {m.obj} in state {fly[m.obj]}")
                    break
    # what they did: an answered open_run of the plan is followed by the monitors / kickoffs
    for k, (i, m, src, ans) in enumerate(steps):
        if src == "plan" and m.command == "open_run" and ans and ans[0] == "send":
            want = [("monitor", s) for s in sigs] + [("kickoff", f) for f in flyers]
            got = []
            for j in range(k + 1, len(steps)):
                _, m2, src2, ans2 = steps[j]
                if src2 != "w":
                    break
                if m2.command in ("monitor", "kickoff"):
                    got.append((m2.command, m2.obj))
                if ans2 is None or ans2[0] != "send":
                    got = None
                    break
            if got is not None and got != want:
                fail("after_open_run", f"after open_run expected {want}, got {got}")
                break
    return did


def check_case(case) -> Result:
    res = Result()
    env, d, rec, state = _run(case, "code")
    w = case["wrapper"]
    labs = []
    for (a, out), wh in zip(d.trace, d.where):
        if a[0] == "send":
            continue
        kind = a[0]
        if kind == "throw":
            kind = "halt" if G.is_genexit_name(a[1]) else ("ctl" if a[1] in G.THROWABLE_CONTROL else "throw")
        where = "unstarted" if wh is None else f"{wh[0]}:{G.pos_label(wh)}"
        labs.append(f"{kind}@{where}")
    how = rec[0][0] if rec else ("not_started" if env.ctxs["plan"].starts == 0 else "unfinished")
    res.classes = sorted(set(labs)) + [f"plan_{how}", f"wrapper:{w}"]
    feats = {"wrapper": w, "plan_end": how, "stage_resp": case.get("stage_resp")}
    if any(o == ["runaway"] for _, o in d.trace):
        return res.fail("runaway", f"wrapper still yielding after {d.cap} steps", **feats)
    # programs that yield / raise while being closed are outside the statement
    if G.misbehaved_on_genexit(d.logs):
        res.klass = "unspecified:yield_or_raise_while_closing"
        return res
    last = d.trace[-1][1]
    if last[0] == "raise" and not d.final_exc_known:
        exc = d.final_exc
        feats2 = dict(feats)
        if w == "lazy":
            feats2["stage_answered_with_status"] = case.get("stage_resp") == "status"
        res.fail("internal_error", f"{w} wrapper raised {type(exc).__name__}: {exc}", **feats2)
    did = _check(case, env, d, rec, state, res, feats)
    res.nontrivial = bool(did) and env.ctxs["plan"].starts > 0
    res.klass = f"{w}/{how}"
    return res


# ------------------------------------------------------------------------------------------


def _strategy():
    from hypothesis import strategies as st

    devs = list(FOREST)

    @st.composite
    def cases(draw):
        w = draw(st.sampled_from(WRAPPERS))
        case = {"wrapper": w, "script": []}
        budget = draw(st.sampled_from([2, 4, 6, 9]))
        if w == "lazy":
            case["stage_resp"] = draw(st.sampled_from(["list_self", "list_children", "list_children", "none", "status", "empty"]))
            pool = [{"cmd": draw(st.sampled_from(STAGE_CMDS)), "obj": draw(st.sampled_from(devs)), "args": [i]} for i in range(3)]
            pool.append({"cmd": "null", "obj": None, "args": []})

            def fresh(draw, k):
                if draw(st.integers(0, 4)) == 0:
                    return {"cmd": "checkpoint", "obj": None, "args": []}
                return {"cmd": draw(st.sampled_from(STAGE_CMDS)), "obj": draw(st.sampled_from(devs)), "args": [f"f{k}"]}

            case["plan"] = G.draw_program(draw, st, budget=budget, pool_specs=pool, fresh_spec=fresh)
        elif w in ("monitor", "fly", "sd"):
            pool = [{"cmd": "null", "obj": None, "args": [i]} for i in range(2)]

            def fresh(draw, k):
                return {"cmd": draw(st.sampled_from(["null", "checkpoint"])), "obj": None, "args": [f"f{k}"]}

            # well-formed-ish runs are the common case: open ... close, repeated
            nruns = draw(st.integers(1, 2))
            parts = []
            for r in range(nruns):
                parts.append({"op": "yf", "spec": {"cmd": "open_run", "obj": None, "args": []}})
                parts.append(G.draw_program(draw, st, budget=max(1, budget // 2), pool_specs=pool, fresh_spec=fresh, allow_ret=False)["body"])
                parts.append({"op": "yf", "spec": {"cmd": "close_run", "obj": None, "args": []}})
            body = {"op": "seq", "body": parts}
            if draw(st.booleans()):
                body = {"op": "try", "body": body, "handlers": [{"exc": [draw(st.sampled_from(["Exception", "ValueError", "RunEngineControlException"]))], "body": {"op": "yf", "spec": {"cmd": "close_run", "obj": None, "args": []}}, "reraise": draw(st.booleans())}], "else": None, "finally": None}
            case["plan"] = {"pool": pool, "body": body}
            if w in ("monitor", "sd"):
                case["signals"] = ["s0", "s1"][: draw(st.integers(0 if w == "sd" else 1, 2))]
            if w in ("fly", "sd"):
                case["flyers"] = ["fl0", "fl1"][: draw(st.integers(0, 2))]
        else:
            case["plan"] = G.draw_program(draw, st, budget=budget)
            if w == "run":
                case["md"] = draw(st.sampled_from([{}, {"k": 1}]))
            if w == "stage":
                case["devices"] = draw(st.lists(st.sampled_from(devs), min_size=0, max_size=4))
                case["stage_resp"] = draw(st.sampled_from(["list_self", "list_children", "status", "none"]))
            if w == "subs":
                case["subs_form"] = draw(st.sampled_from(["single", "list", "dict"]))
                case["nfuncs"] = draw(st.integers(1, 3))
            if w == "suspend":
                case["suspenders"] = ["su0", "su1"][: draw(st.integers(1, 2))]
                case["single"] = draw(st.booleans())

        def make(env):
            return _build(case, env, "code", {})[0]

        case["script"] = G.draw_script(
            draw, st, make, objs=_objs(), max_len=16, resp_values=("auto",), responder=lambda env: _responder(case, env, {})
        )
        return case

    return cases()


def run(ctx):
    ctx.hyp(_strategy, check_case, max_examples=ctx.pick(6000, 200000))


def replay(case):
    return check_case(case)
