"""C19 Callbacks see every document once, in order, and errors follow policy."""

from __future__ import annotations

import sys

from ..core import HarnessError, Result, use_repo

use_repo()

ID = "C19"
DESIGN_REF = "DESIGN.md §8 C19"
ENGINE = "E1"
TECHNIQUE = "Hypothesis-generated plans x 2-4 callbacks with raise schedules x both exception policies on a real RunEngine, global invocation log compared with the expected delivery matrix"
LEVEL_TEXT = (
    "Model-based check on a real RunEngine: one global invocation log over a never-raising first subscriber (spy) and "
    "2-4 callbacks subscribed to 'all' or one kind, each raising at its j-th document (once or from then on). Per emitted "
    "document the invoked callbacks must be exactly the matching ones in subscription order (policy ignore), or exactly "
    "those up to the raiser (policy propagate), documents in emission order, nothing twice; RE(...) outcome, the point at "
    "which the plan ends and the failed RunStop are checked against the policy."
)
LEVEL_NOTE = (
    "Exploration, not proof. Under propagate nothing is asserted about callbacks subscribed after the raiser for the "
    "document on which it raised (DESIGN guard); a raise on a RunStop document itself is observed and labelled only."
)
RULE = (
    "case = (ignore flag, callbacks [(kind, subscription mode perm|list|plan, raise_at j|None, raise_sticky)], plan ops "
    "open/ev(stream)/close over 1-3 runs). Non-trivial: a callback actually raised AND (ignore: a later-subscribed callback "
    "matches the same document and more documents follow; propagate: the plan had documents left to emit). Distinct = "
    "distinct canonical JSON of the case."
    ' Callbacks are drawn as plain functions, functools.partial objects, objects with __call__ and bound methods.'
)
ASSUMPTIONS = [
    "callbacks raise Exception subclasses only (the registry does not intercept BaseException)",
    "the spy is subscribed first via RE.subscribe and never raises; its view defines the emission order",
    "subscription order = permanent subscriptions in RE.subscribe order, then the per-call list in list order, then in-plan 'subscribe' messages in plan order",
    "plans do not catch the exception thrown in at the failing message",
]

KINDS = ["start", "descriptor", "event", "stop"]


class _CbError(Exception):
    pass


class _Det:
    parent = None

    def __init__(self, name):
        self.name = name

    def read(self):
        return {self.name: {"value": 1, "timestamp": 0.0}}

    def describe(self):
        return {self.name: {"source": "sim", "dtype": "number", "shape": []}}


def _stop_engine(RE):
    RE.loop.call_soon_threadsafe(RE.loop.stop)
    RE._th.join(10)
    if RE._th.is_alive():
        raise HarnessError("RunEngine loop thread did not stop")
    try:
        RE.loop.close()
    except Exception:
        pass


def _matches(name, kind):
    return name == "all" or name == kind


def _model_docs(plan_ops):
    """Expected document kinds, in order, with the plan-op index that produces each; normalises the
    op list the same way the plan does (skips ops that make no sense in the current state)."""
    out = []
    run_open = False
    streams = set()
    for i, op in enumerate(plan_ops):
        if op["op"] == "open":
            if run_open:
                continue
            run_open, streams = True, set()
            out.append(("start", i))
        elif op["op"] == "ev":
            if not run_open:
                continue
            if op["stream"] not in streams:
                streams.add(op["stream"])
                out.append(("descriptor", i))
            out.append(("event", i))
        elif op["op"] == "close":
            if not run_open:
                continue
            run_open = False
            out.append(("stop", i))
    if run_open:
        out.append(("stop", len(plan_ops)))
    return out


def check_case(case) -> Result:
    import logging
    import warnings

    from bluesky.run_engine import RunEngine
    from bluesky.utils import DuringTask, Msg

    logging.getLogger("bluesky").setLevel(logging.CRITICAL + 1)
    sys.setswitchinterval(0.0005)
    res = Result()
    RE = RunEngine({}, context_managers=[], during_task=DuringTask())
    try:
        with warnings.catch_warnings():
            warnings.simplefilter("ignore")
            _drive(case, RE, Msg, res)
    finally:
        _stop_engine(RE)
    return res


def _drive(case, RE, Msg, res):
    ignore = bool(case["ignore"])
    cbs = case["callbacks"]
    plan_ops = case["plan"]
    RE.ignore_callback_exceptions = ignore
    if bool(RE.ignore_callback_exceptions) != ignore:
        res.fail("policy_not_stored", "ignore_callback_exceptions does not read back what was set")
        return

    log = []  # (position, kind, uid, raised)
    docs_by_uid = {}
    raised_excs = []

    def spy(name, doc):
        docs_by_uid[doc["uid"]] = dict(doc)
        log.append((0, name, doc["uid"], False))

    keepalive = []  # the registry holds bound methods weakly

    def make_cb(pos, spec):
        state = {"n": 0}

        def cb(name, doc):
            j = state["n"]
            state["n"] += 1
            ra = spec.get("raise_at")
            fire = ra is not None and (j == ra or (spec.get("sticky") and j > ra))
            log.append((pos, name, doc["uid"], bool(fire)))
            if fire:
                e = _CbError(f"callback {pos} at its document #{j}")
                raised_excs.append(e)
                raise e

        cb.__name__ = f"cb{pos}"
        # the same behaviour in the shapes users subscribe: plain function, functools.partial, an object with
        # __call__ (CallbackBase instances are such objects), a bound method
        shape = spec.get("shape", "function")
        if shape == "partial":
            import functools

            return functools.partial(lambda tag, name, doc: cb(name, doc), pos)
        if shape == "object":

            class _Obj:
                def __call__(self, name, doc):
                    return cb(name, doc)

            return _Obj()
        if shape == "method":

            class _Holder:
                def handle(self, name, doc):
                    return cb(name, doc)

            h = _Holder()
            keepalive.append(h)
            return h.handle
        return cb

    # subscription order: perm (in order), then per-call list (in order), then in-plan (in order)
    order = [i for i, c in enumerate(cbs) if c["mode"] == "perm"]
    order += [i for i, c in enumerate(cbs) if c["mode"] == "list" and c["name"] == "all"]
    order += [i for i, c in enumerate(cbs) if not (c["mode"] == "perm" or (c["mode"] == "list" and c["name"] == "all"))]
    names = {0: "all"}
    funcs = {}
    for pos, i in enumerate(order, start=1):
        names[pos] = cbs[i]["name"]
        funcs[pos] = make_cb(pos, cbs[i])
    mode_of = {}
    for pos, i in enumerate(order, start=1):
        m = cbs[i]["mode"]
        mode_of[pos] = m if (m == "perm" or (m == "list" and cbs[i]["name"] == "all")) else "plan"

    RE.subscribe(spy)
    for pos in sorted(funcs):
        if mode_of[pos] == "perm":
            RE.subscribe(funcs[pos], names[pos])
    subs_list = [funcs[pos] for pos in sorted(funcs) if mode_of[pos] == "list"]

    progress = {"last_op": None, "exc": None, "completed": False}
    dets = {"primary": _Det("det1"), "baseline": _Det("det2")}

    def plan():
        try:
            for pos in sorted(funcs):
                if mode_of[pos] == "plan":
                    yield Msg("subscribe", None, funcs[pos], names[pos])
            run_open = False
            for i, op in enumerate(plan_ops):
                if op["op"] == "open":
                    if run_open:
                        continue
                    progress["last_op"] = i
                    yield Msg("open_run")
                    run_open = True
                elif op["op"] == "ev":
                    if not run_open:
                        continue
                    yield Msg("create", name=op["stream"])
                    yield Msg("read", dets[op["stream"]])
                    progress["last_op"] = i
                    yield Msg("save")
                elif op["op"] == "close":
                    if not run_open:
                        continue
                    progress["last_op"] = i
                    yield Msg("close_run")
                    run_open = False
            if run_open:
                progress["last_op"] = len(plan_ops)
                yield Msg("close_run")
            progress["completed"] = True
        except BaseException as e:
            progress["exc"] = e
            raise

    call_exc = None
    try:
        RE(plan(), subs_list or None)
    except Exception as e:
        call_exc = e
    if RE.state != "idle":
        raise HarnessError(f"RunEngine left in state {RE.state}")

    # ---- analyse -------------------------------------------------------------------------
    model = _model_docs(plan_ops)
    spy_docs = [(k, uid) for p, k, uid, _ in log if p == 0]
    positions = [0] + sorted(funcs)
    feats = {"ignore": ignore}

    # group the global log by document, in order of first appearance
    groups = []
    index = {}
    for entry in log:
        uid = entry[2]
        if uid not in index:
            index[uid] = len(groups)
            groups.append([])
        elif index[uid] != len(groups) - 1:
            res.fail(
                "interleaved_delivery",
                f"document {entry[1]} {uid[:8]} delivered to callback {entry[0]} after a later document had started delivery",
                **feats,
            )
            return
        groups[index[uid]].append(entry)
    if [g[0][2] for g in groups] != [uid for _, uid in spy_docs]:
        res.fail("spy_missed_document", "some document reached a later callback but not the first subscriber", **feats)
        return

    first_raise = None  # (doc index, position)
    for di, g in enumerate(groups):
        kind = g[0][1]
        L = [p for p in positions if _matches(names[p], kind)]
        A = [e[0] for e in g]
        if any(e[1] != kind for e in g):
            res.fail("kind_mismatch", f"document {di}: callbacks were told different kinds {[e[1] for e in g]}", **feats)
            return
        r = next((j for j, e in enumerate(g) if e[3]), None)
        if r is not None and first_raise is None:
            first_raise = (di, g[r][0])
        if ignore or r is None:
            if A != L:
                res.fail(
                    "delivery_mismatch",
                    f"document {di} ({kind}): invoked callbacks {A}, expected {L} (subscription order, each exactly once); "
                    f"raised at {[e[0] for e in g if e[3]]}",
                    raiser_in_group=r is not None,
                    **feats,
                )
                return
        else:
            if A[: r + 1] != L[: r + 1]:
                res.fail(
                    "delivery_mismatch_before_raiser",
                    f"document {di} ({kind}): invoked {A}, expected {L[: r + 1]} up to the raiser",
                    **feats,
                )
                return
            rest, it = A[r + 1 :], iter(L[r + 1 :])
            if not all(any(x == y for y in it) for x in rest):  # guard: presence not asserted, order/duplicates are
                res.fail("delivery_order_after_raiser", f"document {di} ({kind}): invoked {A}, matching {L}", **feats)
                return

    got_kinds = [k for k, _ in spy_docs]
    model_kinds = [k for k, _ in model]
    fired = first_raise is not None
    if ignore or not fired:
        # the plan must run to completion, every document emitted once
        if call_exc is not None:
            res.fail("call_raised", f"RE(...) raised {call_exc!r} although no callback exception may propagate", fired=fired, **feats)
            return
        if not progress["completed"]:
            res.fail("plan_not_completed", f"the plan stopped at op {progress['last_op']} ({progress['exc']!r})", fired=fired, **feats)
            return
        if got_kinds != model_kinds:
            res.fail("emission_mismatch", f"emitted kinds {got_kinds}, plan implies {model_kinds}", fired=fired, **feats)
            return
        for _, uid in spy_docs:
            d = docs_by_uid[uid]
            if "exit_status" in d and d["exit_status"] != "success":
                res.fail("run_not_successful", f"stop document has exit_status {d['exit_status']!r}", fired=fired, **feats)
                return
    else:
        di, rpos = first_raise
        dkind = got_kinds[di]
        res.classes.append(f"propagate_raise_on={dkind}")
        exc0 = raised_excs[0]

        def same(e):
            return type(e) is _CbError and e.args == exc0.args

        if got_kinds[: di + 1] != model_kinds[: di + 1]:
            res.fail("emission_mismatch", f"emitted kinds {got_kinds[: di + 1]}, plan implies {model_kinds[: di + 1]}", raise_on=dkind, **feats)
            return
        if not same(call_exc):
            res.fail("call_did_not_raise_callback_exception", f"RE(...) outcome {call_exc!r}, expected {exc0!r}", raise_on=dkind, **feats)
            return
        if not same(progress["exc"]):
            res.fail("plan_did_not_receive_exception", f"plan saw {progress['exc']!r}, expected {exc0!r}", raise_on=dkind, **feats)
            return
        if progress["completed"] or progress["last_op"] != model[di][1]:
            res.fail(
                "plan_continued_after_exception",
                f"plan's last document-producing op is {progress['last_op']}, the raise happened at op {model[di][1]}",
                raise_on=dkind,
                **feats,
            )
            return
        tail = spy_docs[di + 1 :]
        if dkind != "stop":
            # a run is open: it must be closed as failed, and nothing else may be emitted
            if len(tail) != 1 or tail[0][0] != "stop":
                res.fail("failed_run_not_closed", f"after the failing {dkind} document the first subscriber saw {[k for k, _ in tail]}", raise_on=dkind, **feats)
                return
            stop = docs_by_uid[tail[0][1]]
            start_uid = [uid for k, uid in spy_docs[: di + 1] if k == "start"][-1]
            if stop.get("exit_status") != "fail" or stop.get("run_start") != start_uid:
                res.fail(
                    "stop_not_failed",
                    f"closing stop has exit_status={stop.get('exit_status')!r} run_start matches={stop.get('run_start') == start_uid}",
                    raise_on=dkind,
                    **feats,
                )
                return
        else:
            # observation only: a callback raised on the RunStop document itself
            res.classes.append(f"raise_on_stop_then_saw={[k for k, _ in tail]}")

    # ---- labels --------------------------------------------------------------------------
    nontrivial = False
    if fired:
        di, rpos = first_raise
        kind = got_kinds[di]
        later = [p for p in positions if p > rpos and _matches(names[p], kind)]
        if ignore:
            nontrivial = bool(later) and di < len(model) - 1
        else:
            nontrivial = di < len(model) - 1
        res.classes.append("raiser_has_later_subscribers" if later else "raiser_is_last_for_kind")
        res.classes.append(f"n_raises={min(len(raised_excs), 3)}")
    res.nontrivial = nontrivial
    res.klass = f"ignore={ignore}/{'raised' if fired else 'no_raise'}"
    res.classes.append(f"callbacks={len(cbs)}")
    res.classes.append("modes=" + "+".join(sorted(set(mode_of.values()))))
    return res


# ------------------------------------------------------------------------------------------


def _strategy():
    from hypothesis import strategies as st

    cb = st.fixed_dictionaries(
        {
            "name": st.sampled_from(["all", "all", "all", "event", "start", "descriptor", "stop"]),
            "mode": st.sampled_from(["perm", "perm", "list", "plan"]),
            "raise_at": st.one_of(st.none(), st.integers(0, 6), st.integers(0, 3)),
            "sticky": st.booleans(),
            "shape": st.sampled_from(["function", "function", "partial", "object", "method"]),
        }
    )
    op = st.one_of(
        st.just({"op": "open"}),
        st.fixed_dictionaries({"op": st.just("ev"), "stream": st.sampled_from(["primary", "primary", "baseline"])}),
        st.fixed_dictionaries({"op": st.just("ev"), "stream": st.sampled_from(["primary", "primary", "baseline"])}),
        st.just({"op": "close"}),
    )
    plan = st.lists(op, min_size=0, max_size=10).map(lambda ops: [{"op": "open"}] + ops)
    return st.fixed_dictionaries({"ignore": st.booleans(), "callbacks": st.lists(cb, min_size=2, max_size=4), "plan": plan})


def run(ctx):
    ctx.hyp(_strategy, check_case, max_examples=ctx.pick(2500, 50000))


def replay(case):
    return check_case(case)
