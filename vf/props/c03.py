"""C03 Pause/resume and suspend/release do not change the recorded data."""

from __future__ import annotations

import copy

from ..core import Result, use_repo

use_repo()

from ..engine import corpus, e1common, e1oracles  # noqa: E402
from ..engine.harness import run_case  # noqa: E402

ID = "C03"
ENGINE = "E1"
DESIGN_REF = "DESIGN.md §8 C03"
TECHNIQUE = "differential: interrupted execution (pause/resume, suspend/release at every loop-callback boundary; generated plans) vs the uninterrupted execution of the same plan with deterministic fake devices"
LEVEL_TEXT = (
    "Each case is executed twice on the real RunEngine: uninterrupted and with 1-3 interruptions. For every run and "
    "bundled stream the last event per seq_num must carry the same data, num_events must agree, and every resume() "
    "must complete without an error."
)
LEVEL_NOTE = "Device readings are pure functions of commanded motor setpoints; monitor/flyer/interruption streams are judged by C05/C40/C41, not here."
RULE = (
    "case = (plan, stages, injections). Sweep: pause+resume and suspend+release at every callback boundary of the step "
    "plans of the corpus; Hypothesis: generated checkpointed plans with 1-3 interruptions. Non-trivial: the replay "
    "after at least one interruption was non-empty and a run was open. Distinct = canonical JSON."
    ' Also pairs of interruptions inside one checkpoint interval (second request j callbacks into the resume; pause/pause, pause/suspend, suspend/pause).'
)
ASSUMPTIONS = ["deterministic fake devices", "requests arrive at boundaries between event-loop callbacks"]

_REF = {}


def check_case(case):
    ref_case = copy.deepcopy(case)
    ref_case["stages"] = [{"do": "call"}]
    ref_case.pop("probe", None)
    key = repr((ref_case["plan"], ref_case.get("devices"), ref_case.get("re")))
    ref = _REF.get(key)
    if ref is None:
        ref = run_case(ref_case)
        if len(_REF) > 50:
            _REF.clear()
        _REF[key] = ref
    obs = run_case(case)
    res = Result()
    res.klass = e1common.klass_of(case, obs)
    res.classes.append("landing:" + e1common.landing(obs))
    if ref.calls[0].get("outcome") != "return":
        res.classes.append("reference_did_not_complete")
        return res
    return e1oracles.oracle_c03(case, obs, res, ref)


def repeated_interruption_cases(names, step, js):
    """An interruption at callback k of the call, then a second one j callbacks into the resume (i.e. while the
    first rewind is being replayed or shortly after it, usually inside the same checkpoint interval)."""
    for name in names:
        n = corpus.n_handles(name)
        for k in range(0, n, step):
            for j in js:
                for first, second in (("pause", "pause"), ("pause", "suspend"), ("suspend", "pause")):
                    c = corpus.base_case(name)
                    c.pop("probe", None)
                    i1 = {"at": k, "do": first}
                    i2 = {"at": j, "do": second}
                    for i in (i1, i2):
                        if i["do"] == "suspend":
                            i["release_after"] = 0.3
                    if first == "pause":
                        c["stages"] = [{"do": "call", "inj": [i1]}, {"do": "resume", "inj": [i2]}, {"do": "resume"}, {"do": "resume"}]
                    else:
                        # the suspension releases by itself; the pause lands j callbacks after the suspension request
                        i2["at"] = k + 4 + j
                        c["stages"] = [{"do": "call", "inj": [i1, i2]}, {"do": "resume"}, {"do": "resume"}]
                    yield c


def run(ctx):
    skip = ("nonresumable", "engine_closes", "nonresumable_toggles", "pause_msg", "pause_msg_nonresumable", "defer_msg", "defer_msg_nonresumable")
    names = [n for n in corpus.corpus_names(ctx.tier) if n not in skip]
    cases = list(corpus.single_request_cases(names, ("pause", "suspend", "defer"), decisions=("resume",), probe=False))
    if ctx.quick:
        cases = [c for i, c in enumerate(cases) if i % 2 == ctx.seed % 2]
    rep = list(repeated_interruption_cases(["count2", "custom_ck"] if ctx.quick else ["count2", "custom_ck", "scan3", "nested_keys"], ctx.pick(3, 1), ctx.pick((2, 5, 9, 14), tuple(range(0, 24, 2)))))
    if ctx.quick:
        rep = [c for i, c in enumerate(rep) if i % 2 == ctx.seed % 2]
    cases += rep
    ctx.sweep(cases, check_case)
    ctx.extra["sweep_cases"] = len(cases)
    ctx.extra["repeated_interruption_cases"] = len(rep)
    e1common.generated(ctx, check_case, n=ctx.pick(500, 20000), profile="replay_data")


def replay(case):
    return check_case(case)
