"""C14 Concurrent runs with different run keys stay independent."""

from __future__ import annotations

from ..core import use_repo

use_repo()

from ..engine import corpus, e1common, e1oracles  # noqa: E402

ID = "C14"
ENGINE = "E1"
DESIGN_REF = "DESIGN.md §8 C14"
TECHNIQUE = "Hypothesis-generated plans with 2-3 interleaved keyed runs (also the None key, duplicate open_run on an open key) under pause/suspend schedules + schedule sweep of a nested-keys corpus plan; per-run document model, key->run attribution of every emitted document, numbering model"
LEVEL_TEXT = (
    "Plans keeping several runs open at once are executed on the real RunEngine; every document emitted while a message "
    "with run key K executed must belong to the run K denotes at that moment, each run's documents must satisfy the "
    "lifecycle/referential/schema model and the 1..N numbering on their own, and a duplicate open_run on an open key must "
    "raise IllegalMessageSequence at that yield, emit nothing and leave the other runs undisturbed."
)
LEVEL_NOTE = "Numbering after rewinds of non-bundled streams is owned by C05 (known findings F5/F6 would also surface here)."
RULE = (
    "case = (plan with keyed runs, stages, injections). Hypothesis profile 'keys' (+ duplicate opens guarded by try/except) "
    "and a pause/suspend sweep over the 'nested_keys' corpus plan. Non-trivial: at least two runs were open simultaneously "
    "and events were emitted into at least two runs. Distinct = canonical JSON."
    " Run keys include the falsy keys 0 and ''; keyed runs may sit under a default-key set_run_key_wrapper; two differently tagged runs must never reach the engine under one key."
)
ASSUMPTIONS = ["requests arrive at boundaries between event-loop callbacks"]

_REF = {}


def check_case(case):
    """C14 oracle + differential against the uninterrupted execution of the same plan (per run and stream the
    same final data and num_events, every resume completes): a message applied to the wrong run after a
    rewind shows up as a moved or lost event."""
    import copy

    from ..core import Result
    from ..engine.harness import run_case

    obs = run_case(case)
    res = Result()
    res.klass = e1common.klass_of(case, obs)
    res.classes.append("landing:" + e1common.landing(obs))
    e1oracles.oracle_c14(case, obs, res)
    has_fault = bool(case.get("faults"))
    interrupted_only = all(i["inj"]["do"] in ("pause", "suspend", "defer") for i in obs.injected) and all(
        s["do"] in ("call", "resume") for s in case.get("stages", [])
    )
    if obs.injected and interrupted_only and not has_fault and not res.failures:
        ref_case = copy.deepcopy(case)
        ref_case["stages"] = [{"do": "call"}]
        ref_case.pop("probe", None)
        key = repr((ref_case["plan"], ref_case.get("devices"), ref_case.get("re")))
        ref = _REF.get(key)
        if ref is None:
            ref = run_case(ref_case)
            if len(_REF) > 50:
                _REF.clear()
            _REF[key] = ref
        if ref.calls[0].get("outcome") == "return":
            nt = res.nontrivial
            e1oracles.oracle_c03(case, obs, res, ref)
            res.nontrivial = nt
            res.classes.append("differential")
    return res


def run(ctx):
    cases = list(corpus.single_request_cases(["nested_keys"], ("pause", "suspend", "abort", "stop"), decisions=("resume", "abort")))
    cases += list(corpus.single_request_cases(["nested_keys"], ("pause", "suspend"), decisions=("resume",), probe=False))
    ctx.sweep(cases, check_case)
    ctx.extra["sweep_cases"] = len(cases)
    e1common.generated(ctx, check_case, n=ctx.pick(1500, 30000), profile="keys")


def replay(case):
    return check_case(case)
