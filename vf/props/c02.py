"""C02 Exit status, reason and raised exception reflect how the run ended."""

from __future__ import annotations

from ..core import use_repo

use_repo()

from ..engine import corpus, e1common, e1oracles  # noqa: E402

ID = "C02"
ENGINE = "E1"
DESIGN_REF = "DESIGN.md §8 C02"
TECHNIQUE = "schedule enumeration (stop/abort/halt/pause/suspend at every loop-callback boundary, decisions after pause) + Hypothesis-generated plans with device faults and plan errors; single-cause cases judged against a cause->(exit_status, reason, raised exception) table"
LEVEL_TEXT = (
    "For every explored execution with exactly one terminating cause (none, stop, abort, halt, failed pause in a "
    "non-resumable section, unhandled plan/device error or failed status) every RunStop emitted by the engine itself or by "
    "a wrapper's close_run must carry the status the property assigns to that cause ('fail' with reason == str(exception)), "
    "and the blocking call must raise RunEngineInterrupted resp. the very exception object that left the plan "
    "(FailedStatus chained to the device's exception)."
)
LEVEL_NOTE = "Cases with several causes are classified and not judged. Runs the plan closed itself with an explicit status keep the plan's status. The cause is determined from the schedule, the fault plan and the plan-side log, not from engine internals."
RULE = (
    "case = (plan, faults, stages, injections). Sweep: stop/abort/halt/pause/suspend at every callback boundary of the "
    "corpus x decisions; Hypothesis profile 'general' (faults: raise / failing status at the n-th device call; plan "
    "errors; handlers). Non-trivial: exactly one cause and at least one RunStop was emitted by the engine or a wrapper "
    "after it. Distinct = canonical JSON."
)
ASSUMPTIONS = ["requests arrive at boundaries between event-loop callbacks"]
KINDS = ("pause", "suspend", "abort", "stop", "halt")

check_case = e1common.make_check(e1oracles.oracle_c02)


def run(ctx):
    names = corpus.corpus_names(ctx.tier)
    cases = list(corpus.single_request_cases(names, KINDS, decisions=("abort", "stop", "halt", "resume"), probe=False))
    if ctx.quick:
        cases = [c for i, c in enumerate(cases) if i % 3 == ctx.seed % 3]
    cases += list(corpus.single_fault_cases(names, kinds=("raise", "status_fail"), probe=False))
    # a device fault after an earlier pause+resume or suspension in the same call (the failure must surface all the same)
    both = []
    for name in ("custom_ck", "scan3") if ctx.quick else ("custom_ck", "scan3", "sleepy", "nested_keys"):
        n = corpus.n_handles(name)
        faults = [c["faults"][0] for c in corpus.single_fault_cases([name], kinds=("raise", "status_fail"), dts=(0.0, 0.3), probe=False)]
        for k in range(1, n, ctx.pick(5, 2)):
            for f in faults:
                if f["op"] not in ("set", "trigger", "read"):
                    continue
                for kind in ("pause", "suspend"):
                    c = corpus.base_case(name)
                    c.pop("probe", None)
                    inj = {"at": k, "do": kind}
                    if kind == "suspend":
                        inj["release_after"] = 0.3
                    c["stages"] = [{"do": "call", "inj": [inj]}, {"do": "resume"}]
                    c["faults"] = [dict(f)]
                    both.append(c)
    if ctx.quick:
        both = [c for i, c in enumerate(both) if i % 3 == ctx.seed % 3]
    cases += both
    ctx.extra["fault_after_interruption_cases"] = len(both)
    ctx.sweep(cases, check_case)
    ctx.extra["sweep_cases"] = len(cases)
    e1common.generated(ctx, check_case, n=ctx.pick(800, 30000), profile="general")


def replay(case):
    return check_case(case)
