"""C22 Cleanup wrappers run their cleanup exactly once on every exit path."""

from __future__ import annotations

from .. import gendrv as G
from ..core import Result, use_repo

use_repo()

ID = "C22"
DESIGN_REF = "DESIGN.md §8 C22, §2.2"
TECHNIQUE = (
    "generated wrapped / except / else / cleanup plan programs driven by send/throw/close scripts built against a "
    "hand-written try/except/else/finally reference; differential oracle plus exactly-once and not-on-close predicates"
)
LEVEL_TEXT = (
    "Differential check of finalize_wrapper, finalize_decorator and contingency_wrapper (all combinations of "
    "except/else/final plans, auto_raise, pause_for_debug; final plan given as generator function, generator "
    "instance or list) against an independent reference that relays the wrapped plan by hand and uses a plain "
    "Python try/finally for the cleanup. Compared: driver trace (messages by identity, return value, raised "
    "exception object), what each program saw, the exception handed to except_plan; plus the predicates 'cleanup "
    "started exactly once iff the wrapped plan ended by return / exception / control exception' and 'never started "
    "when close() or PlanHalt arrived while the wrapped plan was active'."
)
LEVEL_NOTE = (
    "Exploration. close()/PlanHalt arriving after the wrapped plan has ended (during pause_for_debug, except, else or "
    "final plan) follows Python's try/finally (the cleanup is entered and a yield there makes close() raise "
    "RuntimeError); those cases are compared with the reference only when no program yields or raises while being "
    "closed."
)
RULE = (
    "case = (wrapper, options, wrapped program, except/else/final programs, script). Scripts are drawn while stepping "
    "the reference so that throws (errors, RequestStop/RequestAbort, PlanHalt) and closes land inside the wrapped plan's "
    "try clauses and inside the except / else / cleanup plans. Non-trivial: the wrapped plan was started and either "
    "ended (return, own exception, thrown exception, control exception) with a cleanup/except/else plan configured, "
    "or was closed/halted while active. Distinct = distinct canonical JSON of the case."
    ' finalize_decorator cases may reuse one decorated plan function (a warm-up invocation is run to completion first).'
)
ASSUMPTIONS = [
    "KeyboardInterrupt/SystemExit are never thrown; programs never yield None nor raise non-Exception BaseExceptions",
    "except_plan is a generator function of the exception; else_plan / final_plan generator functions of no argument "
    "(finalize_wrapper also gets instances and lists, as documented)",
]
ENGINE = "E2"


# ------------------------------------------------------------------------------------------
# reference (plain Python)


def _outcome_relay(gen, rec):
    """Relay ``gen`` by hand; returns ("return", value) or ("raise", exc).  close()/GeneratorExit
    subclasses close the plan and propagate (no outcome)."""
    try:
        m = gen.send(None)
    except StopIteration as s:
        rec.append("returned")
        return "return", s.value
    except Exception as e:  # noqa: BLE001
        rec.append("raised")
        return "raise", e
    while True:
        try:
            r = yield m
        except GeneratorExit:
            rec.append("closed")
            gen.close()
            raise
        except BaseException as e:  # noqa: BLE001
            try:
                m = gen.throw(e)
            except StopIteration as s:
                rec.append("returned")
                return "return", s.value
            except Exception as e2:  # noqa: BLE001
                rec.append("raised")
                return "raise", e2
        else:
            try:
                m = gen.send(r)
            except StopIteration as s:
                rec.append("returned")
                return "return", s.value
            except Exception as e2:  # noqa: BLE001
                rec.append("raised")
                return "raise", e2


def _pause_msg():
    return G.Msg("pause", None, defer=False)


def ref_wrapper(plan, rec, *, except_plan=None, else_plan=None, final_plan=None, auto_raise=True, pause=False):
    """try/except/else/finally with the documented deviation: no cleanup when closed while the
    wrapped plan is active."""
    ended = False
    try:
        kind, val = yield from _outcome_relay(plan, rec)
        ended = True
        if kind == "raise":
            if pause:
                yield _pause_msg()
            if except_plan is not None:
                ret = yield from except_plan(val)
                if auto_raise:
                    raise val
                return ret
            raise val
        if else_plan is not None:
            yield from else_plan()
        ret = val
    finally:
        if ended and final_plan is not None:
            yield from final_plan()
    return ret


# ------------------------------------------------------------------------------------------


def _spy(gen, rec):
    """Transparent layer recording how the wrapped plan ended (for the predicates on the code run)."""
    try:
        ret = yield from gen
    except GeneratorExit:
        rec.append("closed")
        raise
    except BaseException:
        rec.append("raised")
        raise
    rec.append("returned")
    return ret


def _build(case, env, which):
    """Return (generator under drive, rec)."""
    from bluesky.utils import ensure_generator

    rec = []
    plan = env.instantiate(case["plan"], "plan")
    cfin = env.ctx("final")
    cexc = env.ctx("except")

    def mk_final():
        return env.instantiate(case["final"], "final")

    def mk_else():
        return env.instantiate(case["else"], "else")

    def mk_except(e):
        cexc.log.append(["called_with", env.eid(e)])
        return env.instantiate(case["except"], "except")

    w = case["wrapper"]
    pause = bool(case.get("pause"))
    has_final = case.get("final") is not None
    if which == "ref":
        if w in ("finalize", "finalize_dec"):
            form = case.get("final_form", "callable")
            if form == "list":
                # a list of messages: made once, relayed by a plain generator
                msgs = [cfin.mk(s) for s in case["final_list"]]

                def list_plan():
                    for m in msgs:
                        yield m

                return ref_wrapper(plan, rec, final_plan=list_plan, pause=pause and w == "finalize"), rec
            return ref_wrapper(plan, rec, final_plan=mk_final, pause=pause and w == "finalize"), rec
        return (
            ref_wrapper(
                plan,
                rec,
                except_plan=mk_except if case.get("except") is not None else None,
                else_plan=mk_else if case.get("else") is not None else None,
                final_plan=mk_final if has_final else None,
                auto_raise=bool(case.get("auto_raise", True)),
                pause=pause,
            ),
            rec,
        )
    from bluesky.preprocessors import contingency_wrapper, finalize_decorator, finalize_wrapper

    plan = _spy(plan, rec)
    if w == "finalize":
        form = case.get("final_form", "callable")
        if form == "callable":
            fp = mk_final
        elif form == "instance":
            fp = mk_final()
        else:
            fp = [cfin.mk(s) for s in case["final_list"]]
        return finalize_wrapper(plan, fp, pause_for_debug=pause), rec
    if w == "finalize_dec":
        if not case.get("reuse"):
            return finalize_decorator(mk_final)(lambda: plan)(), rec
        # the decorated plan function is used twice ("final_plan ... can be used multiple times"): a warm-up
        # invocation with a trivial plan and a trivial cleanup is run to completion first
        phase = {"warm": True}

        def warm_gen():
            yield object()

        def final_factory():
            return warm_gen() if phase["warm"] else mk_final()

        decorated = finalize_decorator(final_factory)(lambda: warm_gen() if phase["warm"] else plan)
        g0 = decorated()
        try:
            while True:
                g0.send(None)
        except StopIteration:
            pass
        phase["warm"] = False
        return decorated(), rec
    return (
        contingency_wrapper(
            plan,
            except_plan=mk_except if case.get("except") is not None else None,
            else_plan=mk_else if case.get("else") is not None else None,
            final_plan=mk_final if has_final else None,
            pause_for_debug=pause,
            auto_raise=bool(case.get("auto_raise", True)),
        ),
        rec,
    )


def _run(case, which):
    env = G.Env()
    gen, rec = _build(case, env, which)
    d = G.Driver(gen, env, cap=250)
    d.run(case["script"])
    return env, d, rec


def _final_started(env, d):
    log = d.logs.get("final", [])
    n = sum(1 for e in log if e[0] == "start")
    return n


def check_case(case) -> Result:
    res = Result()
    env0, d0, rec0 = _run(case, "ref")
    if any(o == ["runaway"] for _, o in d0.trace):
        raise RuntimeError("reference hit the runaway cap")
    ref = G.observation(env0, d0)
    labs = []
    for (a, out), w in zip(d0.trace, d0.where):
        if a[0] == "send":
            continue
        kind = a[0]
        if kind == "throw":
            kind = "halt" if G.is_genexit_name(a[1]) else ("ctl" if a[1] in G.THROWABLE_CONTROL else "throw")
        where = "unstarted" if w is None else f"{w[0]}:{G.pos_label(w)}"
        labs.append(f"{kind}@{where}")
    plan_started = env0.ctxs["plan"].starts > 0
    how = rec0[0] if rec0 else ("not_started" if not plan_started else "unfinished")
    has_extra = any(case.get(k) is not None for k in ("final", "except", "else")) or case.get("final_form") == "list"
    res.nontrivial = plan_started and has_extra and how in ("returned", "raised", "closed")
    res.classes = sorted(set(labs)) + [f"plan_{how}", "wrapper:" + case["wrapper"]]
    messy = bool(G.misbehaved_on_genexit(d0.logs))
    # a close/halt after the plan has ended is Python-try/finally territory: compare only if tidy
    late_close = any(
        (a[0] == "close" or (a[0] == "throw" and G.is_genexit_name(a[1]))) and w is not None and w[0] != "plan"
        for (a, _), w in zip(d0.trace, d0.where)
    )
    if late_close:
        res.classes.append("close_after_plan_ended")
    res.klass = "unspecified:yield_or_raise_while_closing" if messy else f"{case['wrapper']}/{how}"
    feats = {"wrapper": case["wrapper"], "plan_end": how, "events": sorted(set(labs))}

    env, d, rec = _run(case, "code")
    if any(o == ["runaway"] for _, o in d.trace):
        return res.fail("runaway", f"wrapper still yielding after {d.cap} steps", **feats)

    # predicates on the code run (independent of the reference)
    if case.get("final") is not None or case.get("final_form") == "list":
        if case.get("final_form") == "list":
            fin_msgs = [m for m in env.ctxs["final"].msgs]
            firsts = sum(1 for a, o in d.trace if o[0] == "yield" and o[1] == ["final", 0]) if fin_msgs else 0
            started = firsts
        else:
            started = _final_started(env, d)
        how_code = rec[0] if rec else None
        if how_code in ("returned", "raised") and not late_close and not messy:
            if started != 1:
                res.fail("cleanup_not_exactly_once", f"wrapped plan {how_code} but cleanup plan was started {started} times", **feats)
        if how_code == "closed" and started != 0:
            res.fail("cleanup_ran_on_close", f"wrapped plan was closed/halted while active but cleanup plan was started {started} times", **feats)
        if started > 1:
            res.fail("cleanup_not_exactly_once", f"cleanup plan was started {started} times", **feats)
    if messy:
        return res
    got = G.observation(env, d)
    if got != ref:
        res.fail("differs_from_try_finally", f"{G.first_diff(ref, got)} (left=reference, right={case['wrapper']})", **feats)
    if rec != rec0:
        res.fail("plan_end_differs", f"wrapped plan ended {rec0} under the reference, {rec} under {case['wrapper']}", **feats)
    return res


# ------------------------------------------------------------------------------------------


def _strategy():
    from hypothesis import strategies as st

    def small(draw, tag, budget_choices=(1, 2, 4)):
        pool = [{"cmd": tag, "obj": None, "args": [f"{tag}{i}"]} for i in range(2)]
        return G.draw_program(draw, st, budget=draw(st.sampled_from(list(budget_choices))), pool_specs=pool)

    @st.composite
    def cases(draw):
        w = draw(st.sampled_from(["finalize", "finalize_dec", "contingency", "contingency", "contingency"]))
        case = {"wrapper": w, "plan": small(draw, "m", (2, 4, 6, 8)), "script": []}
        if w == "finalize":
            case["pause"] = draw(st.integers(0, 3)) == 0
            case["final_form"] = draw(st.sampled_from(["callable", "instance", "list"]))
            if case["final_form"] == "list":
                case["final_list"] = [{"cmd": "fin", "obj": None, "args": [i]} for i in range(draw(st.integers(1, 2)))]
            else:
                case["final"] = small(draw, "fin")
        elif w == "finalize_dec":
            case["final"] = small(draw, "fin")
            case["reuse"] = draw(st.booleans())
        else:
            case["pause"] = draw(st.integers(0, 4)) == 0
            case["auto_raise"] = draw(st.booleans())
            case["except"] = small(draw, "exc") if draw(st.integers(0, 3)) != 0 else None
            case["else"] = small(draw, "els") if draw(st.booleans()) else None
            case["final"] = small(draw, "fin") if draw(st.integers(0, 3)) != 0 else None

        def make(env):
            return _build(case, env, "ref")[0]

        case["script"] = G.draw_script(draw, st, make, max_len=12)
        return case

    return cases()


def run(ctx):
    ctx.hyp(_strategy, check_case, max_examples=ctx.pick(5000, 150000))


def replay(case):
    return check_case(case)
