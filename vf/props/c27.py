"""C27 Spiral patterns stay in bounds and square spirals cover the grid."""

from __future__ import annotations

import math

from ..core import Result, use_repo

use_repo()

ID = "C27"
DESIGN_REF = "DESIGN.md §8 C27"
TECHNIQUE = (
    "exhaustive enumeration of square-spiral grid sizes + Hypothesis-generated spiral / fermat parameters against "
    "independently stated geometric predicates"
)
LEVEL_TEXT = (
    "Every generated point of spiral / spiral_fermat is tested against the requested rectangle (sheared by the tilt) "
    "computed from the arguments only; spiral_square_pattern's points are decoded to grid indices and compared, as a "
    "multiset, with the full x_num x y_num grid. Complete for all grid sizes in the stated bound (one geometry per "
    "size), random for geometries and for the two round spirals."
)
LEVEL_NOTE = (
    "Exploration, not proof. For tilt != 0 the 'tilted rectangle' is read as the parallelogram with y-extent "
    "+-y_range/2 whose x-edges are sheared by tan(tilt) per unit of y/aspect (the convention shared by both round "
    "spirals); for tilt == 0 the oracle is the plain rectangle of the statement. Float tolerance 1e-9*range plus a "
    "few ulps of |centre|+range."
)
RULE = (
    "case = (function, centre, ranges, dr, nth|factor, dr_y|None, tilt) for the round spirals, or (centre, ranges, "
    "x_num, y_num) for the square spiral. Square: every (x_num, y_num) in the bound once with a geometry derived "
    "from the sizes, plus Hypothesis-drawn geometries; round: Hypothesis-drawn, sized so that the candidate spiral "
    "always extends past the rectangle. Non-trivial: round spiral that produced >= 3 points (so clipping at the "
    "rectangle was exercised on a non-empty pattern); square spiral with x_num, y_num >= 2 and x_num*y_num >= 6. "
    "Distinct = distinct canonical JSON of the case."
)
ASSUMPTIONS = [
    "ranges, dr, dr_y, nth, factor are positive finite numbers; tilt in (-1.5, 1.5) rad; x_num, y_num >= 2 "
    "(x_num or y_num = 1 divides by zero in the code and is outside the domain)",
    "the grid of the square spiral is linspace(centre - range/2, centre + range/2, num) on each axis",
    "the property only bounds the points (nothing is asserted about how densely the round spirals fill the rectangle)",
]
ENGINE = "E3"

_EPS = 2.220446049250313e-16


def _tol(center, rng):
    return 1e-9 * rng + 16 * _EPS * (abs(center) + rng)


def _check_round(case, res):
    from bluesky import plan_patterns

    fn = case["fn"]
    xc, yc, xr, yr = case["xc"], case["yc"], case["xr"], case["yr"]
    dr, n, dr_y, tilt = case["dr"], case["n"], case["dr_y"], case["tilt"]
    aspect = 1.0 if dr_y is None else dr_y / dr
    aspect_class = "none" if dr_y is None else ("lt1" if dr_y < dr else ("gt1" if dr_y > dr else "eq1"))
    res.klass = f"{fn}/aspect={aspect_class}/tilt={'0' if tilt == 0 else 'nz'}"
    feats = {"fn": fn, "aspect_class": aspect_class, "tilted": tilt != 0}
    try:
        if fn == "spiral":
            cyc = plan_patterns.spiral("x", "y", xc, yc, xr, yr, dr, n, dr_y=dr_y, tilt=tilt)
        else:
            cyc = plan_patterns.spiral_fermat("x", "y", xc, yc, xr, yr, dr, n, dr_y=dr_y, tilt=tilt)
        pts = [(float(p["x"]), float(p["y"])) for p in cyc]
    except StopIteration:
        # no candidate point fell inside the rectangle: cycler cannot add two empty cyclers and raises
        # StopIteration.  An empty pattern has no point outside the rectangle; the statement is silent on it.
        res.klass = f"{fn}/empty-pattern(StopIteration)"
        return res
    except Exception as e:
        return res.fail("construction_raised", f"{type(e).__name__}: {e}", **feats)
    res.nontrivial = len(pts) >= 3
    res.obs = {"n_points": len(pts)}
    tol_x = _tol(xc, xr)
    tol_y = _tol(yc, yr)
    t = math.tan(tilt)
    tol_shear = tol_x + abs(t) / aspect * tol_y + 1e-9 * abs(t) / aspect * yr
    worst_y = None
    worst_x = None
    for x, y in pts:
        dx = x - xc
        dy = y - yc
        if not (math.isfinite(dx) and math.isfinite(dy)):
            return res.fail("non_finite_point", f"point ({x}, {y}) is not finite", **feats)
        ey = abs(dy) - yr / 2
        if ey > tol_y and (worst_y is None or ey > worst_y[0]):
            worst_y = (ey, x, y)
        ex = abs(dx + (dy / aspect) * t) - xr / 2
        if ex > tol_shear and (worst_x is None or ex > worst_x[0]):
            worst_x = (ex, x, y)
    if worst_y is not None:
        ey, x, y = worst_y
        res.fail(
            "y_out_of_bounds",
            f"{fn}: point ({x!r}, {y!r}) has |y - y_start| = {abs(y - yc)!r} > y_range/2 = {yr / 2!r} "
            f"(excess {ey!r}, tol {tol_y!r}); dr={dr!r} dr_y={dr_y!r} tilt={tilt!r}",
            **feats,
        )
    if worst_x is not None:
        ex, x, y = worst_x
        res.fail(
            "x_out_of_bounds",
            f"{fn}: point ({x!r}, {y!r}) lies {ex!r} outside the (sheared) x bound x_range/2 = {xr / 2!r} "
            f"(tol {tol_shear!r}); dr={dr!r} dr_y={dr_y!r} tilt={tilt!r}",
            **feats,
        )
    return res


def _check_square(case, res):
    from bluesky import plan_patterns

    xc, yc, xr, yr = case["xc"], case["yc"], case["xr"], case["yr"]
    xn, yn = case["xn"], case["yn"]
    parity = f"{'e' if xn % 2 == 0 else 'o'}{'e' if yn % 2 == 0 else 'o'}"
    shape = "square" if xn == yn else ("wide" if xn > yn else "tall")
    res.klass = f"square/{parity}/{shape}"
    res.nontrivial = xn >= 2 and yn >= 2 and xn * yn >= 6
    feats = {"fn": "square", "parity": parity, "shape": shape}
    try:
        cyc = plan_patterns.spiral_square_pattern("x", "y", xc, yc, xr, yr, xn, yn)
        pts = [(float(p["x"]), float(p["y"])) for p in cyc]
    except Exception as e:
        return res.fail("construction_raised", f"{type(e).__name__}: {e}", **feats)
    dx = xr / (xn - 1)
    dy = yr / (yn - 1)
    x0 = xc - xr / 2
    y0 = yc - yr / 2
    seen = {}
    for k, (x, y) in enumerate(pts):
        gx = (x - x0) / dx
        gy = (y - y0) / dy
        ix, iy = round(gx), round(gy)
        if abs(gx - ix) > 1e-6 or abs(gy - iy) > 1e-6:
            return res.fail("off_grid_point", f"point #{k} ({x!r}, {y!r}) is not on the {xn}x{yn} grid (index {gx!r}, {gy!r})", **feats)
        if not (0 <= ix < xn and 0 <= iy < yn):
            return res.fail("outside_grid", f"point #{k} ({x!r}, {y!r}) has grid index ({ix}, {iy}) outside {xn}x{yn}", **feats)
        if (ix, iy) in seen:
            return res.fail("duplicate_point", f"grid point ({ix}, {iy}) produced twice (#{seen[(ix, iy)]} and #{k}) for {xn}x{yn}", **feats)
        seen[(ix, iy)] = k
    if len(seen) != xn * yn:
        missing = [(i, j) for i in range(xn) for j in range(yn) if (i, j) not in seen]
        return res.fail("missing_points", f"{xn}x{yn}: {len(missing)} grid points never produced, e.g. {missing[:5]}", **feats)
    return res


def check_case(case) -> Result:
    res = Result()
    if case["fn"] == "square":
        return _check_square(case, res)
    return _check_round(case, res)


# ------------------------------------------------------------------------------------------


def _square_cases(lo, hi):
    out = []
    for xn in range(lo, hi + 1):
        for yn in range(lo, hi + 1):
            # geometry derived from the sizes (deterministic, varied)
            xr = [1.0, 0.3, 7.0, 2.5][(xn + 2 * yn) % 4]
            yr = [1.0, 4.0, 0.7, 12.0][(3 * xn + yn) % 4]
            xc = [0.0, -3.25, 10.1][(xn * yn) % 3]
            yc = [0.0, 5.5, -0.125][(xn + yn) % 3]
            out.append({"fn": "square", "xc": xc, "yc": yc, "xr": xr, "yr": yr, "xn": xn, "yn": yn})
    return out


def _strategy():
    from hypothesis import strategies as st

    pos = st.floats(1e-3, 1e3, allow_nan=False, allow_infinity=False)
    centre = st.one_of(st.just(0.0), st.floats(-1e4, 1e4, allow_nan=False, allow_infinity=False))

    @st.composite
    def round_case(draw):
        fn = draw(st.sampled_from(["spiral", "spiral_fermat"]))
        xr = draw(pos)
        ratio = draw(st.floats(0.1, 10.0))
        yr = min(max(xr * ratio, 1e-3), 1e3)
        k = draw(st.one_of(st.floats(1.5, 25.0), st.floats(0.3, 25.0)))  # smaller range / dr
        dr = min(xr, yr) / k
        has_aspect = draw(st.booleans())
        dr_y = None
        aspect = 1.0
        if has_aspect:
            aspect = draw(st.one_of(st.floats(0.2, 1.0), st.floats(1.0, 5.0)))
            dr_y = dr * aspect
            aspect = dr_y / dr
        tilt = draw(st.one_of(st.just(0.0), st.floats(-1.5, 1.5)))
        if fn == "spiral":
            n = draw(st.one_of(st.integers(1, 8), st.floats(1.0, 8.0)))
        else:
            n = draw(st.one_of(st.integers(1, 3), st.floats(0.5, 3.0)))
        # bound the work: predict the number of candidate points and coarsen dr if needed
        half_x = xr / 2
        half_y = yr / (2 * aspect)
        diag = math.hypot(half_x, half_y)
        if fn == "spiral":
            rings = 2 + diag / dr
            pred = n * rings * rings / 2
            cap = 8000
            if pred > cap:
                dr = dr * math.sqrt(pred / cap) * 1.05
        else:
            pred = (1.5 * diag * n / dr) ** 2
            cap = 12000
            if pred > cap:
                dr = dr * math.sqrt(pred / cap) * 1.05
        if dr_y is not None:
            dr_y = dr * aspect
        return {
            "fn": fn,
            "xc": draw(centre),
            "yc": draw(centre),
            "xr": xr,
            "yr": yr,
            "dr": dr,
            "n": n,
            "dr_y": dr_y,
            "tilt": tilt,
        }

    @st.composite
    def square_case(draw):
        c = st.one_of(st.just(0.0), st.floats(-1e3, 1e3, allow_nan=False, allow_infinity=False))
        r = st.floats(1e-2, 1e3, allow_nan=False, allow_infinity=False)
        return {
            "fn": "square",
            "xc": draw(c),
            "yc": draw(c),
            "xr": draw(r),
            "yr": draw(r),
            "xn": draw(st.integers(2, 45)),
            "yn": draw(st.integers(2, 45)),
        }

    return st.one_of(round_case(), round_case(), round_case(), square_case())


def run(ctx):
    hi = ctx.pick(40, 70)
    cases = _square_cases(2, hi)
    ctx.sweep(cases, check_case)
    ctx.exhaustive = True
    ctx.bound = (
        f"spiral_square_pattern: every (x_num, y_num) in 2..{hi} (one geometry per size); geometries and round "
        "spirals are sampled, not exhaustive"
    )
    ctx.extra["exhaustive_part"] = len(cases)
    ctx.hyp(_strategy, check_case, max_examples=ctx.pick(3000, 60000))


def replay(case):
    return check_case(case)
