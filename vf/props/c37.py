"""C37 File-name templates expand exactly like printf."""

from __future__ import annotations

import itertools

from ..core import HarnessError, Result, use_repo

use_repo()

ID = "C37"
DESIGN_REF = "DESIGN.md §8 C37"
TECHNIQUE = (
    "exhaustive enumeration of the %[flags][width][.precision]d grammar (bounded) + Hypothesis-generated templates, "
    "differential against an independent C-printf reference (cross-checked with Python's % operator)"
)
LEVEL_TEXT = (
    "For every template of the bounded grammar a TIFF/JPEG multi-file consolidator is built the way the repo's tests "
    "do and get_datum_uri(i) (and the uris registered by consume_stream_datum) are compared with uri + printf(template, "
    "i) for a set of frame indices. Complete for the stated bound; random beyond it."
)
LEVEL_NOTE = (
    "Exploration, not proof. The C reference is a 20-line re-implementation of %d for non-negative/negative ints with "
    "flags - + space 0 #, asserted equal to Python's printf-style operator on every case (they agree inside the "
    "domain precision >= width, precision >= 1). The %s -> filename substitution convention is taken from the code."
)
RULE = (
    "case = (flags string, width|None, precision|None, literal prefix, extension, filename parameter, frame indices). "
    "Enumerated: every ordered sequence of <= 2 distinct flags from '-+ 0#', width in {none,1..W}, precision in {none} "
    "or width..W (>= 1), two embeddings; then Hypothesis with repeated flags, widths/precisions up to 40 and indices "
    "up to 10**12. Non-trivial: the conversion changes the text of at least one index relative to str(index) "
    "(padding, sign or zero fill really happens). Distinct = distinct canonical JSON of the case."
)
ASSUMPTIONS = [
    "domain reading: flags, width and precision are each optional; when both width and precision are present, "
    "precision >= width; precision >= 1 (C prints nothing for '%.0d' of 0, Python prints '0')",
    "frame indices are non-negative integers",
    "'#' has no effect on a d conversion (glibc and Python; formally undefined in ISO C)",
    "literal parts of the template contain no '%', '{' or '}'",
]
ENGINE = "E3"

URI = "file://localhost/test/file/path/"

_MIME = {
    ".tif": "multipart/related;type=image/tiff",
    ".tiff": "multipart/related;type=image/tiff",
    ".jpg": "multipart/related;type=image/jpeg",
    ".jpeg": "multipart/related;type=image/jpeg",
}


def c_printf_d(flags, width, precision, value):
    """Independent reference for C's %[flags][width][.precision]d."""
    digits = str(abs(value))
    if precision is not None:
        if precision == 0 and value == 0:
            digits = ""
        digits = digits.zfill(precision)
    if value < 0:
        sign = "-"
    elif "+" in flags:
        sign = "+"
    elif " " in flags:
        sign = " "
    else:
        sign = ""
    body = sign + digits
    if width is not None and len(body) < width:
        if "-" in flags:
            body = body.ljust(width)
        elif "0" in flags and precision is None:
            body = sign + digits.zfill(width - len(sign))
        else:
            body = body.rjust(width)
    return body


def _conv(case):
    w = "" if case["width"] is None else str(case["width"])
    p = "" if case["precision"] is None else "." + str(case["precision"])
    return "%" + case["flags"] + w + p + "d"


def _f9_class(flags, width, precision):
    """Classification of the template alone (outcome independent), used to match the listed findings."""
    if precision is not None and width is None:
        return "precision_without_width"
    if precision is not None and width is not None:
        if "+" in flags or " " in flags:
            return "wp_sign_flag"
        if int(max(str(precision), str(width))) != max(precision, width):
            return "wp_string_max"
        return "none"
    if width is not None and "-" in flags and "0" in flags:
        return "minus_and_zero_flags_with_width"
    return "none"


def check_case(case) -> Result:
    from bluesky.consolidators import consolidator_factory

    flags, width, precision = case["flags"], case["width"], case["precision"]
    prefix, ext, filename = case["prefix"], case["ext"], case["filename"]
    indices = list(case["indices"])
    if precision is not None and (precision < 1 or (width is not None and precision < width)):
        raise HarnessError(f"case outside the domain: {case}")
    conv = _conv(case)
    template = prefix + conv + ext
    shape = ("w" if width is not None else "") + ("p" if precision is not None else "") or "bare"
    res = Result(klass=f"{shape}/flags={''.join(sorted(set(flags))) or 'none'}")
    f9 = _f9_class(flags, width, precision)
    feats = {
        "f9_class": f9,
        "has_width": width is not None,
        "has_precision": precision is not None,
        "flags": "".join(sorted(set(flags))),
    }

    # expected names (reference), cross-checked against Python's printf-style operator
    literal = prefix.replace("%s", filename, 1).replace("%s", "")
    expected = {}
    for i in indices:
        ref = c_printf_d(flags, width, precision, i)
        if ref != conv % i:
            raise HarnessError(f"reference disagrees with Python's % for {conv!r} % {i}: {ref!r} vs {conv % i!r}")
        expected[i] = URI + literal + ref + ext
    res.nontrivial = any(c_printf_d(flags, width, precision, i) != str(i) for i in indices)

    descriptor = {
        "data_keys": {
            "img": {
                "shape": [1, 4, 5],
                "dtype": "array",
                "dtype_numpy": "<f8",
                "external": "STREAM:",
                "object_name": "det",
            }
        },
        "uid": "descriptor-uid",
    }
    params = {"chunk_shape": (1,), "template": template}
    if filename:
        params["filename"] = filename
    sres = {"data_key": "img", "mimetype": _MIME[ext], "uri": URI, "parameters": params, "uid": "sres-uid"}
    try:
        cons = consolidator_factory(sres, descriptor)
    except Exception as e:
        return res.fail("construction_raised", f"template {template!r}: {type(e).__name__}: {e}", **feats)

    for i in indices:
        try:
            got = cons.get_datum_uri(i)
        except Exception as e:
            return res.fail(
                "format_raises",
                f"template {template!r} (normalised to {cons.template!r}): get_datum_uri({i}) raised "
                f"{type(e).__name__}: {e}; printf gives {expected[i]!r}",
                **feats,
            )
        if got != expected[i]:
            return res.fail(
                "differs_from_printf",
                f"template {template!r} (normalised to {cons.template!r}), index {i}: got {got!r}, printf gives {expected[i]!r}",
                **feats,
            )

    # the uris registered for a stream datum are the same names, in index order
    start = case.get("datum_start")
    if start is not None:
        stop = start + 3
        doc = {
            "seq_nums": {"start": start + 1, "stop": stop + 1},
            "indices": {"start": start, "stop": stop},
            "descriptor": "descriptor-uid",
            "stream_resource": "sres-uid",
            "uid": "sres-uid/0",
        }
        want = [URI + literal + c_printf_d(flags, width, precision, i) + ext for i in range(start, stop)]
        try:
            cons.consume_stream_datum(doc)
            got = list(cons.data_uris)
            got_assets = [a.data_uri for a in cons.assets]
        except Exception as e:
            return res.fail("format_raises", f"template {template!r}: consume_stream_datum raised {type(e).__name__}: {e}", **feats)
        if got != want or got_assets != want:
            return res.fail(
                "differs_from_printf",
                f"template {template!r}: consume_stream_datum({start}..{stop}) registered {got!r} / assets {got_assets!r}, printf gives {want!r}",
                **feats,
            )
    return res


# ------------------------------------------------------------------------------------------

_FLAGS = "-+ 0#"
_INDICES = [0, 1, 7, 10, 99, 12345, 10**9]


def _exhaustive_cases(max_wp, max_flags, embeddings):
    flag_strings = [""]
    for n in range(1, max_flags + 1):
        flag_strings += ["".join(t) for t in itertools.permutations(_FLAGS, n)]
    out = []
    for flags in flag_strings:
        for width in [None] + list(range(1, max_wp + 1)):
            precs = [None] + list(range(max(width or 1, 1), max_wp + 1))
            for precision in precs:
                for k, (prefix, ext, filename) in enumerate(embeddings):
                    out.append(
                        {
                            "flags": flags,
                            "width": width,
                            "precision": precision,
                            "prefix": prefix,
                            "ext": ext,
                            "filename": filename,
                            "indices": _INDICES,
                            "datum_start": [0, 9, 98, 999][(len(out) + k) % 4],
                        }
                    )
    return out


def _strategy():
    from hypothesis import strategies as st

    safe = st.text(alphabet="abcXYZ019_-. ", min_size=0, max_size=6)

    @st.composite
    def cases(draw):
        flags = draw(st.text(alphabet=_FLAGS, min_size=0, max_size=4))
        width = draw(st.one_of(st.none(), st.integers(1, 30)))
        if draw(st.booleans()):
            precision = draw(st.integers(max(width or 1, 1), 40))
        else:
            precision = None
        n_s = draw(st.integers(0, 2))
        prefix = draw(safe) + "%s" * n_s + draw(safe)
        ext = draw(st.sampled_from([".tif", ".tiff", ".jpg", ".jpeg"]))
        filename = draw(st.one_of(st.just(""), st.text(alphabet="abcXYZ019_-", min_size=1, max_size=6)))
        idx = st.one_of(st.integers(0, 1000), st.integers(0, 10**12), st.sampled_from([9, 10, 99, 100, 999999, 1000000]))
        indices = draw(st.lists(idx, min_size=1, max_size=5, unique=True))
        return {
            "flags": flags,
            "width": width,
            "precision": precision,
            "prefix": prefix,
            "ext": ext,
            "filename": filename,
            "indices": indices,
            "datum_start": draw(st.one_of(st.none(), st.integers(0, 10**6))),
        }

    return cases()


def run(ctx):
    import bluesky.consolidators  # noqa: F401  (import once in the parent; forked workers inherit it)

    if ctx.quick:
        W, F = 12, 2
        emb = [("%s%s_", ".tif", "scan"), ("%s%s_", ".tiff", "scan")]
    else:
        W, F = 20, 3
        emb = [("%s%s_", ".tif", "scan"), ("%s%s_", ".tiff", "scan"), ("img_", ".jpg", ""), ("%s_", ".jpeg", "a-b")]
    cases = _exhaustive_cases(W, F, emb)
    # cases cost microseconds: a few workers are faster than 16 forks of a process that has tiled imported
    ctx.sweep(cases, check_case, procs=ctx.pick(4, 8))
    ctx.exhaustive = True
    ctx.bound = (
        f"every ordered sequence of <= {F} distinct flags from '-+ 0#', width in none/1..{W}, precision in none or "
        f"max(width,1)..{W}, {len(emb)} embeddings, indices {_INDICES}"
    )
    ctx.extra["exhaustive_part"] = len(cases)
    ctx.hyp(_strategy, check_case, max_examples=ctx.pick(4000, 100000), shards=ctx.pick(4, 16))


def replay(case):
    return check_case(case)
