"""C40 Interruption records are complete and uniquely numbered."""

from __future__ import annotations

import copy

from ..core import use_repo

use_repo()

from ..engine import corpus, e1common, e1oracles  # noqa: E402
from ..engine.oracles import doc_name, replay_model  # noqa: E402
from ..engine.planlang import M, SEQ  # noqa: E402

ID = "C40"
ENGINE = "E1"
DESIGN_REF = "DESIGN.md §8 C40"
TECHNIQUE = (
    "Hypothesis-generated plans (checkpoints at generated positions, 1-2 sequential or nested runs, in-plan pauses) x "
    "1-4 pauses/deferred pauses/suspensions injected at generated loop-callback positions x resume decisions, plus a "
    "schedule sweep of the plan corpus, on the real RunEngine; the interruptions stream of every run is compared with "
    "an independent count of the pauses, suspensions and resumes that fell into the run's open interval"
)
LEVEL_TEXT = (
    "Pauses (transitions into 'paused'), suspensions (executed _start_suspender messages) and resumes (RE.resume() calls "
    "made in the paused state) are counted from the state history, the message trace and the call record, and assigned "
    "to the runs that were open at that moment (positions of the start/stop documents). With recording enabled every "
    "run's 'interruptions' stream must hold exactly those records in order ('pause'/'resume'/other), numbered 1..M "
    "without repetition, and RunStop.num_events['interruptions'] must be M; with recording disabled no run may have "
    "such a descriptor or event."
)
LEVEL_NOTE = (
    "The end of a suspension is not counted as a 'resume' (the statement names RE-level pause, suspension, resume; the "
    "code records nothing at release). A pause request that was accepted but never reached 'paused' makes its record "
    "optional. Record contents are compared only by class (pause / resume / anything else = suspension)."
)
RULE = (
    "case = (record_interruptions, plan, stages, injections). Plans: open_run [checkpoint] body close_run checkpoint with "
    "checkpoints, data points, sleeps, motor moves and in-plan (deferred) pauses at generated positions, one run, two "
    "sequential runs or two nested keyed runs; 0-3 foreign pause/defer/suspend requests at generated callback positions "
    "(also during resume stages); every pause is resumed. Sweep: pause/defer/suspend at every callback boundary of the "
    "corpus plans and pairs of pauses on a two-point plan with/without a checkpoint after open_run. Non-trivial: at "
    "least two interruption records were due in one run. Distinct = canonical JSON."
)
ASSUMPTIONS = [
    "requests arrive at boundaries between event-loop callbacks",
    "a run is open from the emission of its start document to the emission of its stop document",
    "no clear_checkpoint / device faults in this property's domain (every pause request leads to 'paused')",
]

DEVICES = {
    "dets": {"d1": {"trigger_delay": 0.05}, "d2": {"keys": ["d2a", "d2b"], "salt": 7.0}},
    "motors": {"m1": {"delay": 0.1}, "m2": {"pos": 1.0}},
    "sigs": {},
    "flyers": {},
}

# ------------------------------------------------------------------------------------------ oracle


def happenings(obs):
    """Chronological list of {"kind": pause|resume|susp, "pos": hook position, "optional": bool}.

    pos p means: after message p-1 was hooked and before message p (for suspensions p is the index
    of the _start_suspender message itself)."""
    out = []
    # pauses: 'pausing' transitions; real when followed by 'paused'
    for j, ((new, old, hi), meta) in enumerate(zip(obs.states, obs.state_meta)):
        if new == "pausing":
            nxt = obs.states[j + 1][0] if j + 1 < len(obs.states) else None
            out.append({"kind": "pause", "pos": hi, "optional": nxt != "paused", "key": (meta["seg"], hi, 0, j)})
    # suspensions: executed _start_suspender messages
    for hi, h in enumerate(obs.hook):
        if h["msg"].command == "_start_suspender":
            out.append({"kind": "susp", "pos": hi, "optional": False, "key": (h["seg"], hi + 0.5, 0, hi)})
    # resumes: RE.resume() calls made while paused (record_interruption runs before anything else)
    for ci, c in enumerate(obs.calls):
        if c.get("do") == "resume" and c.get("outcome") in ("return", "raise", "stuck") and c.get("state_before") == "paused":
            out.append({"kind": "resume", "pos": c.get("hook_start", len(obs.hook)), "optional": False, "key": (ci, -1, 0, 0)})
    out.sort(key=lambda x: x["key"])
    return out


def run_table(obs):
    """Per run: start/stop positions, the stop document, interruptions descriptors and events."""
    runs = {}
    desc_run = {}
    order = []
    for name, doc, hi in obs.docs:
        name = doc_name(name)
        if name == "start":
            opener = obs.hook[hi - 1]["msg"] if 0 < hi <= len(obs.hook) else None
            runs[doc["uid"]] = {
                "uid": doc["uid"],
                "start": hi,
                "stop": None,
                "stop_doc": None,
                "closed_by_msg": False,
                "key": opener.run if opener is not None and opener.command == "open_run" else "?",
                "descs": [],
                "events": [],
                "tag": doc.get("tag"),
            }
            order.append(doc["uid"])
        elif name == "stop":
            r = runs.get(doc.get("run_start"))
            if r is not None and r["stop"] is None:
                r["stop"] = hi
                r["stop_doc"] = doc
                closer = obs.hook[hi - 1]["msg"] if 0 < hi <= len(obs.hook) else None
                # emitted while a close_run message of this run executed (atomically, in the callback that hooked
                # it); otherwise the engine closed the run in its final cleanup, after every state change
                r["closed_by_msg"] = closer is not None and closer.command == "close_run" and closer.run == r["key"]
        elif name == "descriptor":
            r = runs.get(doc.get("run_start"))
            if r is not None and doc.get("name") == "interruptions":
                r["descs"].append(doc["uid"])
                desc_run[doc["uid"]] = r
        elif name == "event":
            r = desc_run.get(doc.get("descriptor"))
            if r is not None:
                r["events"].append((doc.get("seq_num"), (doc.get("data") or {}).get("interruption"), hi))
    return [runs[u] for u in order]


def _open_at(run, h):
    """Was the run open when something happened at hook position ``h["pos"]``?

    A position p stands for "after message p-1 was hooked, before message p" (state changes, resume calls) or for
    "while message p executed" (suspensions).  open_run/close_run emit their documents atomically in the loop
    callback that hooked them, so a state change with the same position came later; a stop emitted by the engine's
    final cleanup comes after every state change of the call."""
    pos = h["pos"]
    if pos < run["start"]:
        return False
    if run["stop"] is None or run["stop"] > pos:
        return True
    return run["stop"] == pos and h["kind"] != "susp" and not run["closed_by_msg"]


def _klass(content):
    return content if content in ("pause", "resume") else "susp"


def oracle(case, obs, res):
    rec = bool((case.get("re") or {}).get("record_interruptions"))
    res.classes.append("record:" + ("on" if rec else "off"))
    if obs.stuck:
        res.classes.append("stuck(C07)")
        return res
    haps = happenings(obs)
    runs = run_table(obs)
    _, info = replay_model(obs)
    ifeat = e1oracles.interruption_features(obs)

    # outcome-independent: did a rewind with a non-empty message cache happen while a recording run was open?
    # (model cache non-empty, or close_run since the last checkpoint = the engine's cache is non-empty, F1)
    def nonempty_rewind_in(run):
        for it in info["interruptions"]:
            if it["kind"] not in ("pause", "suspend"):
                continue
            if not _open_at(run, {"pos": it["hook_index"], "kind": "susp" if it["kind"] == "suspend" else "pause"}):
                continue
            if it["cache_len"] > 0 or "close_run" in e1oracles._cmds_since_checkpoint(obs, it["hook_index"]):
                return True
        return False

    rewound = rec and any(nonempty_rewind_in(r) for r in runs)
    F = lambda **kw: dict(e1common.features(case, obs), **ifeat, record=rec, rewind_nonempty_with_recording_run_open=rewound, **kw)  # noqa: E731

    max_due = 0
    for ri, run in enumerate(runs):
        due = [h for h in haps if _open_at(run, h)]
        req = [h for h in due if not h["optional"]]
        n_min, n_max = len(req), len(due)
        max_due = max(max_due, n_min)
        evs = run["events"]
        what = f"run#{ri}(tag={run['tag']}, open over hook positions [{run['start']},{run['stop']}))"
        if not rec:
            if run["descs"] or evs:
                res.fail(
                    "stream_exists_while_disabled",
                    f"{what}: recording is disabled but an 'interruptions' descriptor/event was emitted ({len(run['descs'])} descriptors, {len(evs)} events)",
                    **F(),
                )
            if run["stop_doc"] is not None and "interruptions" in (run["stop_doc"].get("num_events") or {}):
                res.fail("stream_exists_while_disabled", f"{what}: RunStop.num_events names 'interruptions' with recording disabled", **F())
            continue
        expect = [h["kind"] for h in due]
        got = [c for (_, c, _) in evs]
        seqs = [s for (s, _, _) in evs]
        if len(run["descs"]) > 1:
            res.fail("several_interruption_descriptors", f"{what}: {len(run['descs'])} descriptors named 'interruptions'", **F())
        if not (n_min <= len(evs) <= n_max):
            res.fail(
                "event_count_mismatch",
                f"{what}: {n_min if n_min == n_max else (n_min, n_max)} records due ({expect}) but the interruptions stream holds {len(evs)} events {got} (seq_nums {seqs})",
                **F(),
            )
        elif n_min == n_max and [_klass(c) for c in got] != expect:
            res.fail("content_mismatch", f"{what}: records due {expect} but the stream holds {got}", **F())
        if len(set(seqs)) != len(seqs):
            res.fail("duplicate_seq_num", f"{what}: interruptions events carry seq_nums {seqs} (contents {got})", **F())
        elif seqs != list(range(1, len(seqs) + 1)):
            res.fail("seq_not_1_to_M", f"{what}: interruptions events carry seq_nums {seqs}, expected 1..{len(seqs)} in order", **F())
        if run["stop_doc"] is not None:
            n = (run["stop_doc"].get("num_events") or {}).get("interruptions", 0)
            if not (n_min <= n <= n_max) or n != len(evs):
                res.fail(
                    "num_events_mismatch",
                    f"{what}: RunStop.num_events['interruptions']={(run['stop_doc'].get('num_events') or {}).get('interruptions', 'missing')} "
                    f"but {n_min if n_min == n_max else (n_min, n_max)} records were due ({expect}); stream holds {len(evs)} events",
                    **F(),
                )
    # histogram
    n_h = len([h for h in haps if any(_open_at(r, h) for r in runs)])
    res.classes.append(f"records_due:{min(n_h, 6)}")
    if rec:
        res.classes.append("rewound_nonempty" if rewound else "all_rewinds_empty")
    ck_between = False
    for run in runs:
        due = [h for h in haps if _open_at(run, h)]
        for a, b in zip(due, due[1:]):
            lo, hi = int(a["pos"]), int(b["pos"] + 0.5)
            if any(h["msg"].command == "checkpoint" for h in obs.hook[lo:hi]):
                ck_between = True
    if ck_between:
        res.classes.append("checkpoint_between_records")
    for run in runs:
        nxt = obs.hook[run["start"]]["msg"].command if run["start"] < len(obs.hook) else None
        res.classes.append("ck_after_open:" + ("yes" if nxt == "checkpoint" else "no"))
    res.nontrivial = max_due >= 2
    return res


check_case = e1common.make_check(oracle)

# ------------------------------------------------------------------------------------------ generator


def _pt(dets=("d1",), run=None, stream="primary", g="g"):
    nodes = [M("trigger", d, group=g) for d in dets]
    nodes.append(M("wait", None, group=g))
    nodes.append(M("create", None, name=stream, run=run))
    nodes += [M("read", d, run=run) for d in dets]
    nodes.append(M("save", None, run=run))
    return nodes


def _body(draw, st, n, run, state):
    """n items out of: checkpoint, data point, null, sleep, motor move, in-plan pause (often right
    after a checkpoint so that the message cache is empty), deferred in-plan pause."""
    nodes = []
    for _ in range(n):
        o = draw(st.sampled_from(["ck", "pt", "pt", "null", "sleep", "set", "pause", "ck_pause", "dpause"]))
        state["g"] += 1
        g = f"g{state['g']}"
        if o == "ck":
            nodes.append(M("checkpoint"))
        elif o == "pt":
            if draw(st.booleans()):
                nodes.append(M("checkpoint"))
            nodes += _pt(("d1",) if draw(st.booleans()) else ("d1", "d2"), run=run, stream="primary" if run is None else f"primary_{run}", g=g)
        elif o == "null":
            nodes.append(M("null", None, state["g"]))
        elif o == "sleep":
            nodes.append(M("sleep", None, draw(st.sampled_from([0.0, 0.2, 0.6]))))
        elif o == "set":
            nodes += [M("set", "m1", float(draw(st.integers(-2, 2))), group=g), M("wait", None, group=g)]
        elif o in ("pause", "ck_pause", "dpause") and state["pauses"] < 3:
            state["pauses"] += 1
            if o == "ck_pause":
                nodes += [M("checkpoint"), M("pause")]
            elif o == "dpause":
                nodes += [M("pause", None, defer=True)]
            else:
                nodes.append(M("pause"))
        else:
            nodes.append(M("null", None, state["g"]))
    return nodes


def _inj(draw, st, n_msgs, kinds=("pause", "pause", "defer", "suspend")):
    kind = draw(st.sampled_from(kinds))
    inj = {"at_msg": draw(st.integers(0, n_msgs + 1)), "plus": draw(st.integers(0, 4)), "do": kind}
    if kind == "suspend":
        inj["release_after"] = draw(st.sampled_from([0.05, 0.3, 1.0]))
        v = draw(st.integers(0, 2))
        if v == 1:
            inj["just"] = "beam dump"
        elif v == 2:
            inj["pre"] = SEQ(M("null", None, "pre"))
            inj["post"] = SEQ(M("null", None, "post"))
            inj["just"] = "shutter"
    return inj


def cases():
    from hypothesis import strategies as st

    @st.composite
    def gen(draw):
        state = {"g": 0, "pauses": 0}
        layout = draw(st.sampled_from(["single", "single", "two_seq", "nested"]))
        nodes = []
        if draw(st.integers(0, 3)) == 0:
            nodes += [M("checkpoint"), M("null", None, "pre")] if draw(st.booleans()) else [M("null", None, "pre")]
        if layout in ("single", "two_seq"):
            for i in range(1 if layout == "single" else 2):
                nodes.append(M("open_run", None, tag=f"r{i}"))
                if draw(st.integers(0, 9)) < 6:
                    nodes.append(M("checkpoint"))
                nodes += _body(draw, st, draw(st.integers(1, 5)), None, state)
                nodes.append(M("close_run"))
                if draw(st.integers(0, 9)) < 8:
                    nodes.append(M("checkpoint"))
                if draw(st.integers(0, 3)) == 0:
                    # between / after runs: interruptions here belong to no run
                    nodes += _body(draw, st, draw(st.integers(1, 2)), None, state)
        else:
            nodes.append(M("open_run", None, run="A", tag="A"))
            if draw(st.booleans()):
                nodes.append(M("checkpoint"))
            nodes += _body(draw, st, draw(st.integers(0, 2)), "A", state)
            nodes.append(M("open_run", None, run="B", tag="B"))
            if draw(st.booleans()):
                nodes.append(M("checkpoint"))
            for _ in range(draw(st.integers(1, 3))):
                nodes += _body(draw, st, 1, draw(st.sampled_from(["A", "B"])), state)
            first = draw(st.sampled_from(["A", "B"]))
            second = "B" if first == "A" else "A"
            nodes += [M("close_run", None, run=first), M("checkpoint")]
            nodes += _body(draw, st, draw(st.integers(0, 2)), second, state)
            nodes += [M("close_run", None, run=second), M("checkpoint")]
        # data points outside a run are illegal: between/after-run bodies keep only run-free commands
        nodes = _strip_points_outside_runs(nodes)
        n_msgs = len(nodes)
        rec = draw(st.integers(0, 4)) != 0
        n_inj = draw(st.integers(0 if state["pauses"] else 1, 3))
        injs = [_inj(draw, st, n_msgs) for _ in range(n_inj)]
        stages = [{"do": "call", "inj": injs}]
        for _ in range(state["pauses"] + n_inj + 2):
            s = {"do": "resume"}
            if draw(st.integers(0, 3)) == 0:
                s["inj"] = [_inj(draw, st, 12, kinds=("pause", "suspend", "defer"))]
            stages.append(s)
        return {
            "name": "gen:c40:" + layout,
            "plan": SEQ(*nodes),
            "devices": copy.deepcopy(DEVICES),
            "re": {"record_interruptions": rec},
            "stages": stages,
            "probe": True,
        }

    return gen()


def _strip_points_outside_runs(nodes):
    out = []
    open_runs = set()
    for n in nodes:
        cmd = n[1]
        key = (n[5] or {}).get("run")
        if cmd == "open_run":
            open_runs.add(key)
        if cmd in ("create", "read", "save") and key not in open_runs:
            continue
        out.append(n)
        if cmd == "close_run":
            open_runs.discard(key)
    return out


# ------------------------------------------------------------------------------------------ sweep


def _two_point_plan(ck_after_open):
    nodes = [M("open_run")]
    if ck_after_open:
        nodes.append(M("checkpoint"))
    nodes += _pt(g="a") + [M("checkpoint")] + _pt(g="b") + [M("checkpoint"), M("null", None, "tail"), M("close_run"), M("checkpoint")]
    return SEQ(*nodes)


_N2 = {}


def pair_cases(seed):
    """pause (or suspend) at every boundary k1 of a two-point plan, then a second pause during the
    resume stage at a few offsets; with and without a checkpoint right after open_run."""
    from ..engine.harness import run_case

    for ck in (True, False):
        base = {"name": f"two_points:ck_after_open={ck}", "plan": _two_point_plan(ck), "devices": copy.deepcopy(DEVICES)}
        if ck not in _N2:
            _N2[ck] = run_case(dict(base, stages=[{"do": "call"}])).calls[0]["handles"]
        n = _N2[ck]
        for k1 in range(0, n + 2):
            for first in ("pause", "suspend"):
                for k2 in (1, 3, 6, 10, 15, 21):
                    if (k1 + k2) % 2 != seed % 2:
                        continue
                    c = copy.deepcopy(base)
                    i1 = {"at": k1, "do": first}
                    if first == "suspend":
                        i1["release_after"] = 0.3
                    second = {"at": k2, "do": "pause"}
                    if first == "pause":
                        c["stages"] = [{"do": "call", "inj": [i1]}, {"do": "resume", "inj": [second]}, {"do": "resume"}, {"do": "resume"}]
                    else:
                        c["stages"] = [{"do": "call", "inj": [i1, {"at": k1 + k2 + 4, "do": "pause"}]}, {"do": "resume"}, {"do": "resume"}]
                    c["re"] = {"record_interruptions": True}
                    c["probe"] = True
                    yield c


def run(ctx):
    names = [n for n in corpus.corpus_names(ctx.tier) if n not in ("nonresumable",)]
    sweep = list(corpus.single_request_cases(names, ("pause", "defer", "suspend"), decisions=("resume",), re={"record_interruptions": True}))
    if ctx.quick:
        sweep = [c for i, c in enumerate(sweep) if i % 4 == ctx.seed % 4]
    off = list(corpus.single_request_cases(["count2", "nested_keys"], ("pause", "suspend"), decisions=("resume",), re={"record_interruptions": False}))
    if ctx.quick:
        off = [c for i, c in enumerate(off) if i % 3 == ctx.seed % 3]
    pairs = list(pair_cases(ctx.seed if ctx.quick else 0)) + ([] if ctx.quick else list(pair_cases(1)))
    ctx.sweep(sweep + off + pairs, check_case)
    ctx.extra["sweep_cases"] = len(sweep) + len(off)
    ctx.extra["pair_cases"] = len(pairs)
    ctx.hyp(cases, check_case, max_examples=ctx.pick(1500, 30000), tag="c40")


def replay(case):
    return check_case(case)
