"""C32 The plan simulator replays plans faithfully."""

from __future__ import annotations

import asyncio
import threading
import warnings

from ..core import Result, jsonable, unjson, use_repo

use_repo()

# imported here (in the parent) so that the forked worker processes inherit the loaded modules
import bluesky.plan_stubs  # noqa: E402,F401
import bluesky.plans  # noqa: E402,F401
import bluesky.simulators  # noqa: E402,F401
import hypothesis.strategies  # noqa: E402,F401

ID = "C32"
DESIGN_REF = "DESIGN.md §8 C32"
TECHNIQUE = (
    "Hypothesis-generated plan programs (response-dependent branching, nested sub-plans, return values) x generated "
    "handler sets, simulate_plan compared with an independent reference drive; generated set-plans x limits for "
    "check_limits"
)
LEVEL_TEXT = (
    "Differential check of RunEngineSimulator.simulate_plan against a hand-written reference drive that answers every "
    "yield with the first matching handler of an independently maintained ordered handler list (add_handler with "
    "command lists, name/predicate filters, index 0/END/int, add_read_handler_for[_multiple], add_wait_handler, "
    "callback handlers + subscribe registration): returned messages are exactly the yielded Msg objects in order, the "
    "values the plan receives and the callbacks fired agree with the reference, return_value is the plan's return "
    "(falsy values, consecutive plans). check_limits / check_limits_async raise exactly the first out-of-limits "
    "device's error on plans built from raw messages, bps.mv and bp.scan, and never for non-checkable devices."
)
LEVEL_NOTE = (
    "The reference reimplements the documented matching rule (commands, filter, insertion index as list.insert); "
    "Reading timestamps produced by the read helpers are not compared; exploration, not proof."
)
RULE = (
    "simulate cases = (1-2 programs from the grammar y/if/seq/sub/ret over messages read/set/trigger/wait/sleep/"
    "subscribe/custom on a pool of 3 named devices or None, 0-7 handler registrations of 6 API kinds with falsy "
    "results and stateful results). Non-trivial: >= 2 handlers match the same yielded message (so precedence decides) "
    "or a response changes the program's path. limits cases = (plan form raw/mv/scan, 1-3 devices checkable "
    "sync/async or not, generated limits and targets biased to the limits). Non-trivial: a checkable device receives "
    ">= 2 sets, one of which is out of limits, or all in limits with >= 1 non-checkable device. Distinct = canonical JSON."
)
ASSUMPTIONS = [
    "plans yield bluesky.utils.Msg objects (always truthy) and handlers do not mutate the handler list",
    "an integer index means list.insert(index, handler) (as exercised by the repository's own tests)",
    "a wait message may carry its group positionally or as a keyword (the RunEngine accepts both)",
]
ENGINE = "E2"

DEVICES = ["a", "b", "c"]


# ------------------------------------------------------------------------------------------
# programs


class _Env:
    def __init__(self, tag):
        self.tag = tag
        self.devs = {}
        self.yielded = []  # Msg objects in yield order (identity)
        self.got = []  # what each yield evaluated to
        self.cb_log = []  # (callback id, document name, document)
        self.cbs = {}

    def dev(self, name):
        from .. import responder as R

        if name is None:
            return None
        if name not in self.devs:
            self.devs[name] = R.FakeDetector(name)
        return self.devs[name]

    def cb(self, cid):
        if cid not in self.cbs:

            def f(name, doc, _cid=cid):
                self.cb_log.append((_cid, name, doc))

            self.cbs[cid] = f
        return self.cbs[cid]


def _mk_msg(spec, env):
    from bluesky.utils import Msg

    cmd = spec["cmd"]
    args = list(unjson(spec.get("args", [])))
    kwargs = dict(unjson(spec.get("kwargs", {})))
    if cmd == "subscribe":
        # bps.subscribe(name, func) -> Msg('subscribe', None, func, name)
        args = [env.cb(args[0]), args[1]]
    return Msg(cmd, env.dev(spec.get("obj")), *args, **kwargs)


def _ret_value(spec, env):
    kind = spec[0]
    if kind == "const":
        return unjson(spec[1])
    if kind == "last":
        return env.got[-1] if env.got else None
    if kind == "all":
        return list(env.got)
    if kind == "count":
        return len(env.got)
    raise ValueError(kind)


def _run(prog, env):
    t = prog[0]
    if t == "y":
        m = _mk_msg(prog[1], env)
        env.yielded.append(m)
        r = yield m
        env.got.append(r)
        return None
    if t == "if":
        m = _mk_msg(prog[1], env)
        env.yielded.append(m)
        r = yield m
        env.got.append(r)
        return (yield from _run(prog[2] if r else prog[3], env))
    if t == "seq":
        for p in prog[1]:
            sig = yield from _run(p, env)
            if sig is not None:
                return sig
        return None
    if t == "sub":
        sig = yield from _run(prog[1], env)
        env.got.append(("sub-returned", sig[1] if sig else None))
        return None
    if t == "ret":
        return ("ret", _ret_value(prog[1], env))
    raise ValueError(t)


def _top(prog, env):
    sig = yield from _run(prog, env)
    return sig[1] if sig else None


def _prog_msgs(prog):
    t = prog[0]
    if t == "y":
        yield prog[1]
    elif t == "if":
        yield prog[1]
        yield from _prog_msgs(prog[2])
        yield from _prog_msgs(prog[3])
    elif t == "seq":
        for p in prog[1]:
            yield from _prog_msgs(p)
    elif t == "sub":
        yield from _prog_msgs(prog[1])


# ------------------------------------------------------------------------------------------
# handler specs -> (a) registrations on a real simulator, (b) reference handler list


def _result_fn(spec, state):
    kind = spec[0]
    if kind == "const":
        v = unjson(spec[1])
        return lambda msg: v
    if kind == "echo":
        return lambda msg: msg.args[0] if msg.args else None
    if kind == "cmd":
        return lambda msg: msg.command
    if kind == "counter":

        def f(msg):
            state["n"] = state.get("n", 0) + 1
            return state["n"]

        return f
    raise ValueError(kind)


def _pred_fn(spec):
    kind = spec[0]
    if kind == "arg0_eq":
        v = unjson(spec[1])
        return lambda msg: bool(msg.args) and msg.args[0] == v
    if kind == "has_kwarg":
        k = spec[1]
        return lambda msg: k in msg.kwargs
    if kind == "obj_none":
        return lambda msg: msg.obj is None
    if kind == "always":
        return lambda msg: True
    if kind == "never":
        return lambda msg: False
    raise ValueError(kind)


def _wait_group(msg):
    """Group of a wait message the way the RunEngine reads it."""
    if msg.args:
        return msg.args[0]
    return msg.kwargs.get("group")


def _register(sim, specs, env):
    """Apply the registrations to a real RunEngineSimulator."""
    from bluesky.simulators import END

    for h in specs:
        api = h["api"]
        if api == "add_handler":
            filt = h.get("filter")
            if filt is None:
                mf = None
            elif filt[0] == "name":
                mf = filt[1]
            else:
                mf = _pred_fn(filt[1:])
            cmds = h["commands"]
            fn = _result_fn(h["result"], {})
            idx = h.get("index")
            if idx is None:
                sim.add_handler(cmds, fn, mf)
            elif idx == "end":
                sim.add_handler(cmds, fn, mf, END)
            else:
                sim.add_handler(cmds, fn, mf, idx)
        elif api == "read_for":
            sim.add_read_handler_for(env.dev(h["obj"]), unjson(h["value"]))
        elif api == "read_multi":
            sim.add_read_handler_for_multiple(env.dev(h["obj"]), **unjson(h["values"]))
        elif api == "wait":
            fn = _result_fn(h["result"], {})
            if h["group"] == "any":
                sim.add_wait_handler(fn)
            else:
                sim.add_wait_handler(fn, h["group"])
        elif api == "callback":
            filt = h.get("filter")
            mf = None if filt is None else _pred_fn(filt)
            docs = unjson(h["docs"])
            if h.get("single"):
                sim.add_callback_handler_for(h["command"], docs[0][0][0], docs[0][0][1], mf)
            else:
                sim.add_callback_handler_for_multiple(h["command"], [[tuple(d) for d in grp] for grp in docs], mf)
        elif api == "subscribes":
            sim.add_handler_for_callback_subscribes()
        else:
            raise ValueError(api)


class _Ref:
    """Independent model: ordered handler list + subscription table."""

    def __init__(self, env):
        self.env = env
        self.handlers = []  # (match(msg) -> bool, run(msg) -> value)
        self.subs = []  # (callable, docname) in subscription order

    def _fire(self, name, doc):
        for fn, want in list(self.subs):
            if want == "all" or want == name:
                fn(name, doc)

    def register(self, specs):
        env = self.env
        for h in specs:
            api = h["api"]
            if api == "add_handler":
                cmds = h["commands"]
                cmdset = [cmds] if isinstance(cmds, str) else list(cmds)
                filt = h.get("filter")
                if filt is None:

                    def match(msg, cmdset=cmdset):
                        return msg.command in cmdset

                elif filt[0] == "name":

                    def match(msg, cmdset=cmdset, nm=filt[1]):
                        return msg.command in cmdset and msg.obj is not None and msg.obj.name == nm

                else:
                    pf = _pred_fn(filt[1:])

                    def match(msg, cmdset=cmdset, pf=pf):
                        return msg.command in cmdset and bool(pf(msg))

                entry = (match, _result_fn(h["result"], {}))
                idx = h.get("index")
                if idx is None:
                    self.handlers.insert(0, entry)
                elif idx == "end":
                    self.handlers.append(entry)
                else:
                    self.handlers.insert(idx, entry)
            elif api in ("read_for", "read_multi"):
                nm = h["obj"]
                if api == "read_for":
                    values = {nm: unjson(h["value"])}
                else:
                    values = unjson(h["values"])

                def match(msg, nm=nm):
                    return msg.command == "read" and msg.obj is not None and msg.obj.name == nm

                def run(msg, values=values):
                    return {k: (v if isinstance(v, dict) else {"value": v, "timestamp": None}) for k, v in values.items()}

                self.handlers.insert(0, (match, run))
            elif api == "wait":
                grp = h["group"]

                def match(msg, grp=grp):
                    return msg.command == "wait" and (grp == "any" or _wait_group(msg) == grp)

                self.handlers.insert(0, (match, _result_fn(h["result"], {})))
            elif api == "callback":
                filt = h.get("filter")
                pf = None if filt is None else _pred_fn(filt)
                docs = unjson(h["docs"])
                state = {"i": 0}

                def match(msg, cmd=h["command"], pf=pf):
                    return msg.command == cmd and (pf is None or bool(pf(msg)))

                def run(msg, docs=docs, state=state):
                    grp = docs[state["i"]]
                    state["i"] += 1
                    for name, doc in grp:
                        self._fire(name, doc)
                    return None

                self.handlers.insert(0, (match, run))
            elif api == "subscribes":

                def match(msg):
                    return msg.command == "subscribe"

                def run(msg):
                    self.subs.append((msg.args[0], msg.args[1]))
                    return None

                self.handlers.append((match, run))
            else:
                raise ValueError(api)

    def drive(self, gen, cap=10000):
        msgs = []
        value = None
        matched_counts = []
        try:
            while True:
                msg = gen.send(value)
                msgs.append(msg)
                if len(msgs) > cap:
                    raise RuntimeError("reference drive runaway")
                value = None
                n = sum(1 for m, _ in self.handlers if m(msg))
                matched_counts.append(n)
                for m, r in self.handlers:
                    if m(msg):
                        value = r(msg)
                        break
        except StopIteration as e:
            return msgs, e.value, matched_counts


def _same_value(a, b):
    """Equality that ignores Reading timestamps created by the read helpers (reference uses None)."""
    if isinstance(a, dict) and isinstance(b, dict):
        if set(a) != set(b):
            return False
        for k in a:
            if k == "timestamp" and (a[k] is None or b[k] is None):
                continue
            if not _same_value(a[k], b[k]):
                return False
        return True
    if isinstance(a, (list, tuple)) and isinstance(b, (list, tuple)):
        return type(a) is type(b) and len(a) == len(b) and all(_same_value(x, y) for x, y in zip(a, b))
    if callable(a) and callable(b):
        return True  # the per-environment callback objects of a subscribe message echoed back
    num = (int, float)
    if isinstance(a, num) and isinstance(b, num) and not isinstance(a, bool) and not isinstance(b, bool):
        return a == b
    if type(a) is not type(b):
        return False
    return a == b


def _sim_features(case):
    """Outcome-independent facts used to match known findings narrowly."""
    specs = case["handlers"]
    progs = case["programs"]
    msgs = [m for p in progs for m in _prog_msgs(p)]
    positional_wait = any(m["cmd"] == "wait" and m.get("args") and "group" not in m.get("kwargs", {}) for m in msgs)
    specific_wait_handler = any(h["api"] == "wait" and h["group"] != "any" for h in specs)
    # a callback handler can be asked for more document groups than it was given
    cb_short = False
    for h in specs:
        if h["api"] == "callback":
            n_match = sum(1 for m in msgs if m["cmd"] == h["command"])
            if n_match > len(h["docs"]):
                cb_short = True
    return {
        "mode": "simulate",
        "positional_wait_group": positional_wait,
        "wait_handler_specific_group": specific_wait_handler,
        "callback_docs_may_run_out": cb_short,
    }


def _check_simulate(case, res):
    from bluesky.simulators import RunEngineSimulator
    from bluesky.utils import Msg

    feats = _sim_features(case)
    specs = case["handlers"]
    progs = case["programs"]

    env_s, env_r = _Env("sim"), _Env("ref")
    sim = RunEngineSimulator()
    _register(sim, specs, env_s)
    ref = _Ref(env_r)
    ref.register(specs)

    precedence = False
    branched = False
    for pi, prog in enumerate(progs):
        # reference first (it cannot be disturbed by the code under test)
        r_start_y, r_start_g = len(env_r.yielded), len(env_r.got)
        try:
            r_msgs, r_ret, counts = ref.drive(_top(prog, env_r))
        except IndexError:
            # the reference ran out of callback documents: what the simulator should do then is not
            # documented (see finding FC32b); compare only that simulate_plan does not lose messages
            r_msgs, r_ret, counts = None, None, []
        if any(c >= 2 for c in counts):
            precedence = True
        s_start_y, s_start_g = len(env_s.yielded), len(env_s.got)
        gen = _top(prog, env_s)
        try:
            s_msgs = sim.simulate_plan(gen)
        except Exception as e:  # noqa: BLE001
            if r_msgs is None:
                # a callback handler ran out of documents: failing loudly is acceptable (undocumented)
                res.classes.append("raised_when_callback_docs_exhausted")
                return res
            return res.fail(
                "simulate_raised",
                f"program {pi}: simulate_plan raised {type(e).__name__}: {e!r} after {len(env_s.yielded) - s_start_y} messages",
                exc=type(e).__name__,
                **feats,
            )
        yielded = env_s.yielded[s_start_y:]
        got = env_s.got[s_start_g:]
        # 1. exactly the messages the plan yields, in order
        if not isinstance(s_msgs, list) or len(s_msgs) != len(yielded) or any(a is not b for a, b in zip(s_msgs, yielded)):
            return res.fail(
                "messages_differ",
                f"program {pi}: simulate_plan returned {len(s_msgs)} messages, the plan yielded {len(yielded)}",
                **feats,
            )
        if any(not isinstance(m, Msg) for m in s_msgs):
            return res.fail("not_msg", f"program {pi}: non-Msg in output", **feats)
        # 2. the plan must have run to completion (a suspended generator means yields were lost)
        if gen.gi_frame is not None:
            return res.fail(
                "plan_not_exhausted",
                f"program {pi}: simulate_plan returned after {len(s_msgs)} messages but the plan has not finished "
                f"(suspended at {gen.gi_frame.f_lineno}); return_value={sim.return_value!r}",
                **feats,
            )
        if r_msgs is None:
            # nothing further is comparable: handler state of the two sides has diverged
            res.classes.append("callback_docs_exhausted_in_reference")
            return res
        r_yielded = env_r.yielded[r_start_y:]
        r_got = env_r.got[r_start_g:]
        # 3. same path and same responses as the reference drive
        sig_s = [(m.command, m.obj.name if m.obj is not None else None, len(m.args), sorted(m.kwargs)) for m in yielded]
        sig_r = [(m.command, m.obj.name if m.obj is not None else None, len(m.args), sorted(m.kwargs)) for m in r_yielded]
        if sig_s != sig_r:
            k = next((i for i, (x, y) in enumerate(zip(sig_s, sig_r)) if x != y), min(len(sig_s), len(sig_r)))
            return res.fail(
                "path_differs",
                f"program {pi}: message #{k} differs from the reference drive: simulator path {sig_s[k:k+1]}, reference "
                f"{sig_r[k:k+1]} (lengths {len(sig_s)}/{len(sig_r)})",
                **feats,
            )
        for k, (a, b) in enumerate(zip(got, r_got)):
            if not _same_value(a, b):
                return res.fail(
                    "response_differs",
                    f"program {pi}: yield #{k} ({yielded[k] if k < len(yielded) else '?'}) received {a!r}, the first matching "
                    f"handler of the reference list gives {b!r}",
                    **feats,
                )
        # 4. return value
        if not _same_value(sim.return_value, r_ret):
            return res.fail(
                "return_value_differs", f"program {pi}: return_value={sim.return_value!r}, plan returned {r_ret!r}", **feats
            )
        if any(p[0] == "if" for p in _walk(prog)) and any(bool(g) for g in got if not isinstance(g, tuple)):
            branched = True
    # 5. callbacks fired
    if [(c, n) for c, n, d in env_s.cb_log] != [(c, n) for c, n, d in env_r.cb_log] or any(
        not _same_value(a[2], b[2]) for a, b in zip(env_s.cb_log, env_r.cb_log)
    ):
        return res.fail(
            "callbacks_differ", f"callbacks fired {env_s.cb_log!r}, reference {env_r.cb_log!r}", **feats
        )
    res.nontrivial = precedence or branched
    if precedence:
        res.classes.append("precedence_decides")
    if env_r.cb_log:
        res.classes.append("callbacks_fired")
    return res


def _walk(prog):
    yield prog
    t = prog[0]
    if t == "if":
        yield from _walk(prog[2])
        yield from _walk(prog[3])
    elif t == "seq":
        for p in prog[1]:
            yield from _walk(p)
    elif t == "sub":
        yield from _walk(prog[1])


# ------------------------------------------------------------------------------------------
# check_limits


class _PlainMotor:
    """Movable + Readable, no check_value."""

    def __init__(self, name):
        self.name = name
        self.parent = None
        self.position = 0.0

    def set(self, v):
        raise AssertionError("check_limits must not move devices")

    def read(self):
        return {self.name: {"value": self.position, "timestamp": 0.0}}

    def describe(self):
        return {self.name: {"source": "x", "dtype": "number", "shape": []}}

    @property
    def hints(self):
        return {"fields": [self.name]}

    def __repr__(self):
        return f"Plain({self.name})"


def _check_limits_case(case, res):
    import bluesky.plan_stubs as bps
    import bluesky.plans as bp
    from bluesky import simulators
    from bluesky.utils import Msg

    from .. import responder as R

    devspecs = case["devices"]
    devs = []
    for i, d in enumerate(devspecs):
        if d["kind"] == "plain":
            devs.append(_PlainMotor(f"m{i}"))
        else:
            devs.append(R.LimitedMotor(f"m{i}", d["low"], d["high"], is_async=d["kind"] == "async"))
    form = case["form"]
    sets = []  # (device index, value) in plan order, computed independently
    if form == "raw":
        msgs = []
        for step in case["steps"]:
            if step[0] == "set":
                _, di, v = step
                msgs.append(Msg("set", devs[di], v, group="g"))
                sets.append((di, v))
            elif step[0] == "other":
                _, cmd, di = step
                msgs.append(Msg(cmd, devs[di] if di is not None else None))
        plan_factory = lambda: iter(list(msgs))  # noqa: E731
        as_list = case.get("as_list", False)
        if as_list:
            plan_factory = lambda: list(msgs)  # noqa: E731
    elif form == "mv":

        def plan_factory():
            for grp in case["moves"]:
                args = []
                for di, v in grp:
                    args += [devs[di], v]
                yield from bps.mv(*args)

        for grp in case["moves"]:
            for di, v in grp:
                sets.append((di, v))
    elif form == "scan":
        di, a, b, n = case["scan"]
        det = R.FakeDetector("det")

        def plan_factory():
            return bp.scan([det], devs[di], a, b, n)

        if n == 1 or a == b:
            sets = [(di, float(a))]  # equal consecutive positions are not re-set by one_nd_step
        else:
            sets = []
            for i in range(n):
                v = a + (b - a) * i / (n - 1)
                if not sets or sets[-1][1] != v:  # (denormal spans: neighbouring points can round to one value)
                    sets.append((di, v))
    else:
        raise ValueError(form)

    # expectation: the first set on a checkable device whose value is outside its limits
    expected = None
    margin_ok = True
    for di, v in sets:
        d = devspecs[di]
        if d["kind"] == "plain":
            continue
        if form == "scan":
            # linspace rounding: skip cases where a point is within 1e-9 of a limit
            scale = max(abs(d["low"]), abs(d["high"]), abs(v), 1.0)
            if min(abs(v - d["low"]), abs(v - d["high"])) <= 1e-9 * scale:
                margin_ok = False
        if not (d["low"] <= v <= d["high"]):
            expected = (di, v)
            break
    feats = {"mode": "limits", "form": form, "sync": bool(case.get("sync"))}
    if not margin_ok:
        res.classes.append("limits/skipped_rounding_boundary")
        return res

    def run_async():
        loop = asyncio.new_event_loop()
        try:
            return loop.run_until_complete(simulators.check_limits_async(plan_factory()))
        finally:
            loop.close()

    def run_sync():
        from bluesky import run_engine as re_mod

        loop = asyncio.new_event_loop()
        running = threading.Event()

        def runner():
            loop.call_soon(running.set)
            loop.run_forever()

        t = threading.Thread(target=runner, name="vf-c32-loop", daemon=True)
        saved = re_mod.get_bluesky_event_loop()
        t.start()
        running.wait()  # check_limits refuses to run unless the loop is already running
        re_mod.set_bluesky_event_loop(loop)
        try:
            return simulators.check_limits(plan_factory())
        finally:
            re_mod.set_bluesky_event_loop(saved)
            loop.call_soon_threadsafe(loop.stop)
            t.join()
            loop.close()

    raised = None
    with warnings.catch_warnings(record=True) as wlist:
        warnings.simplefilter("always")
        try:
            (run_sync if case.get("sync") else run_async)()
        except R.LimitError as e:
            raised = e
        except Exception as e:  # noqa: BLE001
            return res.fail("limits_unexpected_exception", f"{type(e).__name__}: {e!r}", **feats)
    n_checkable_sets = sum(1 for di, v in sets if devspecs[di]["kind"] != "plain")
    res.klass = f"limits/{form}/{'sync' if case.get('sync') else 'async'}/expect={'raise' if expected else 'ok'}"
    res.nontrivial = (expected is not None and n_checkable_sets >= 2) or (
        expected is None and n_checkable_sets >= 1 and any(d["kind"] == "plain" for d in devspecs)
    )
    if expected is None:
        if raised is not None:
            return res.fail("limits_false_alarm", f"all sets within limits but raised {raised!r}", **feats)
    else:
        if raised is None:
            return res.fail(
                "limits_missed",
                f"set of m{expected[0]} to {expected[1]!r} is outside {devspecs[expected[0]]} but nothing was raised",
                **feats,
            )
        if raised.device_name != f"m{expected[0]}" or not (abs(float(raised.value) - float(expected[1])) <= 1e-9 * max(1.0, abs(expected[1]))):
            return res.fail(
                "limits_wrong_error",
                f"raised for {raised.device_name} value {raised.value!r}; first violation is m{expected[0]} value {expected[1]!r}",
                **feats,
            )
    # every set on a checkable device up to the violation was checked, nothing else
    for i, d in enumerate(devs):
        if devspecs[i]["kind"] == "plain":
            continue
        want_i = []
        for di, v in sets:
            if devspecs[di]["kind"] == "plain":
                continue
            if di == i:
                want_i.append(v)
            if expected is not None and di == expected[0] and v == expected[1]:
                break
        got_i = [float(x) for x in d.checked]
        if len(got_i) != len(want_i) or any(abs(g - float(w)) > 1e-9 * max(1.0, abs(w)) for g, w in zip(got_i, want_i)):
            return res.fail(
                "limits_checked_values", f"m{i}: check_value saw {got_i}, the plan sets {want_i} up to the violation", **feats
            )
    return res


# ------------------------------------------------------------------------------------------


def check_case(case) -> Result:
    res = Result()
    if case["mode"] == "simulate":
        res.klass = f"simulate/programs={len(case['programs'])}/handlers={min(len(case['handlers']), 4)}{'+' if len(case['handlers']) > 4 else ''}"
        return _check_simulate(case, res)
    return _check_limits_case(case, res)


def _strategy():
    from hypothesis import strategies as st

    consts = st.sampled_from([None, 0, 0.0, False, "", [], {}, 1, 7, "ok", True, [1, 2], {"k": 1}, -3.5])
    truthy_bias = st.one_of(consts, st.sampled_from([1, "yes", [0]]))

    def _msg_spec_factory():
        @st.composite
        def m(draw):
            # "stage"/"unstage", "monitor"/"unmonitor", "wait"/"wait_for": command names contained in one another
            cmd = draw(
                st.sampled_from(
                    ["read", "read", "set", "trigger", "wait", "sleep", "custom", "null", "subscribe"]
                    + ["stage", "unstage", "monitor", "unmonitor", "wait_for"]
                )
            )
            spec = {"cmd": cmd}
            if cmd in ("read", "trigger"):
                spec["obj"] = draw(st.sampled_from(DEVICES))
                if cmd == "trigger" and draw(st.booleans()):
                    spec["kwargs"] = {"group": draw(st.sampled_from(["g1", "g2"]))}
            elif cmd == "set":
                spec["obj"] = draw(st.sampled_from(DEVICES))
                spec["args"] = [draw(st.sampled_from([0, 1, 2.5, "in"]))]
                if draw(st.booleans()):
                    spec["kwargs"] = {"group": draw(st.sampled_from(["g1", "g2"]))}
            elif cmd == "wait":
                g = draw(st.sampled_from(["g1", "g2", None]))
                style = draw(st.sampled_from(["kw", "kw", "kw", "pos"]))
                if style == "kw" or g is None:
                    spec["kwargs"] = {"group": g}
                else:
                    spec["args"] = [g]
            elif cmd == "sleep":
                spec["args"] = [draw(st.sampled_from([0, 1, 2.5]))]
            elif cmd in ("custom", "stage", "unstage", "monitor", "unmonitor", "wait_for"):
                spec["obj"] = draw(st.sampled_from(DEVICES + [None]))
                spec["args"] = draw(st.lists(st.sampled_from([0, 1, "x"]), max_size=2))
            elif cmd == "subscribe":
                spec["args"] = [draw(st.integers(0, 2)), draw(st.sampled_from(["all", "start", "event"]))]
            return spec

        return m()

    _msg_spec = _msg_spec_factory()  # built once: constructing a composite inspects its source

    def msg_spec():
        return _msg_spec

    ret_spec = st.one_of(
        consts.map(lambda v: ["const", jsonable(v)]),
        st.just(["last"]),
        st.just(["all"]),
        st.just(["count"]),
    )

    _prog_cache = {}

    def prog(depth):
        if depth not in _prog_cache:
            _prog_cache[depth] = _prog(depth)
        return _prog_cache[depth]

    def _prog(depth):
        leaf = st.one_of(msg_spec().map(lambda m: ["y", m]), msg_spec().map(lambda m: ["y", m]), ret_spec.map(lambda r: ["ret", r]))
        if depth == 0:
            return leaf
        sub = prog(depth - 1)
        return st.one_of(
            leaf,
            st.tuples(msg_spec(), sub, sub).map(lambda t: ["if", t[0], t[1], t[2]]),
            st.lists(sub, min_size=1, max_size=4).map(lambda ps: ["seq", ps]),
            sub.map(lambda p: ["sub", p]),
        )

    result_spec = st.one_of(
        truthy_bias.map(lambda v: ["const", jsonable(v)]),
        st.just(["echo"]),
        st.just(["cmd"]),
        st.just(["counter"]),
    )
    pred = st.one_of(
        st.sampled_from([0, 1, 2.5, "x"]).map(lambda v: ["arg0_eq", v]),
        st.sampled_from(["group", "timeout"]).map(lambda k: ["has_kwarg", k]),
        st.just(["obj_none"]),
        st.just(["always"]),
        st.just(["never"]),
    )
    all_cmds = ["read", "set", "trigger", "wait", "sleep", "custom", "null", "subscribe", "stage", "unstage", "monitor", "unmonitor", "wait_for"]

    @st.composite
    def handler(draw, present):  # noqa: C901
        # constructive: handlers mostly name commands the programs really yield, so that they match
        cmd_names = st.sampled_from((present * 3 + all_cmds) if present else all_cmds)
        cb_cmds = [c for c in present if c not in ("wait", "subscribe")] * 3 + ["read", "set", "trigger", "sleep", "custom", "null"]
        api = draw(
            st.sampled_from(
                ["add_handler", "add_handler", "add_handler", "add_handler", "read_for", "read_multi", "wait", "callback", "subscribes"]
            )
        )
        h = {"api": api}
        if api == "add_handler":
            h["commands"] = draw(st.one_of(cmd_names, st.lists(cmd_names, min_size=1, max_size=3, unique=True)))
            h["filter"] = draw(
                st.one_of(
                    st.none(),
                    st.none(),
                    st.sampled_from(DEVICES + ["zz"]).map(lambda n: ["name", n]),
                    pred.map(lambda p: ["pred"] + p),
                )
            )
            h["result"] = draw(result_spec)
            h["index"] = draw(st.one_of(st.none(), st.none(), st.just("end"), st.integers(-3, 5)))
        elif api == "read_for":
            h["obj"] = draw(st.sampled_from(DEVICES))
            h["value"] = jsonable(draw(st.one_of(st.sampled_from([0, 5, None, "s", 2.5]), st.just({"value": 5}), st.just({"value": 0, "timestamp": 17.0}))))
        elif api == "read_multi":
            h["obj"] = draw(st.sampled_from(DEVICES))
            h["values"] = jsonable(
                draw(
                    st.dictionaries(
                        st.sampled_from(["x", "y", "a"]),
                        st.one_of(st.sampled_from([0, 11, None]), st.just({"value": 12, "timestamp": 1717071719})),
                        min_size=1,
                        max_size=2,
                    )
                )
            )
        elif api == "wait":
            h["group"] = draw(st.sampled_from(["any", "any", "g1", "g2"]))
            h["result"] = draw(result_spec)
        elif api == "callback":
            h["command"] = draw(st.sampled_from(cb_cmds))
            h["filter"] = draw(st.one_of(st.none(), pred))
            h["single"] = draw(st.booleans())
            ngroups = 1 if h["single"] else draw(st.integers(1, 4))
            docs = []
            for g in range(ngroups):
                nd = 1 if h["single"] else draw(st.integers(0, 2))
                docs.append([[draw(st.sampled_from(["start", "event", "stop"])), {"n": g * 10 + k}] for k in range(nd)])
            h["docs"] = docs
        return h

    @st.composite
    def sim_case(draw):
        nprog = draw(st.sampled_from([1, 1, 2]))
        progs = [draw(prog(3)) for _ in range(nprog)]
        present = sorted({m["cmd"] for p in progs for m in _prog_msgs(p)})
        handlers = draw(st.lists(handler(present), min_size=0, max_size=7))
        if len(handlers) < 2 and draw(st.integers(0, 3)) > 0:
            handlers += [draw(handler(present)), draw(handler(present))]
        return {"mode": "simulate", "programs": progs, "handlers": handlers}

    lim = st.one_of(st.integers(-10, 10), st.floats(-100, 100, allow_nan=False))

    @st.composite
    def limits_case(draw):
        nd = draw(st.integers(1, 3))
        devs = []
        for _ in range(nd):
            kind = draw(st.sampled_from(["sync", "sync", "async", "plain"]))
            a, b = draw(lim), draw(lim)
            devs.append({"kind": kind, "low": min(a, b), "high": max(a, b)})

        def target(di):
            d = devs[di]
            span = (d["high"] - d["low"]) or 1.0
            return st.one_of(
                st.sampled_from([d["low"], d["high"], (d["low"] + d["high"]) / 2]),
                st.floats(d["low"], d["high"], allow_nan=False),
                st.floats(d["low"] - span, d["high"] + span, allow_nan=False),
                st.sampled_from([d["low"] - 1e-9 - abs(d["low"]) * 1e-9, d["high"] + 1e-9 + abs(d["high"]) * 1e-9]),
            )

        form = draw(st.sampled_from(["raw", "raw", "mv", "scan"]))
        case = {"mode": "limits", "devices": devs, "form": form, "sync": draw(st.integers(0, 3)) == 0}
        if form == "raw":
            steps = []
            for _ in range(draw(st.integers(0, 8))):
                if draw(st.integers(0, 3)) > 0:
                    di = draw(st.integers(0, nd - 1))
                    steps.append(["set", di, draw(target(di))])
                else:
                    steps.append(["other", draw(st.sampled_from(["read", "trigger", "wait", "checkpoint", "stage"])), draw(st.one_of(st.none(), st.integers(0, nd - 1)))])
            case["steps"] = steps
            case["as_list"] = draw(st.booleans())
        elif form == "mv":
            moves = []
            for _ in range(draw(st.integers(1, 4))):
                dis = draw(st.lists(st.integers(0, nd - 1), min_size=1, max_size=nd, unique=True))
                moves.append([[di, draw(target(di))] for di in dis])
            case["moves"] = moves
        else:
            di = draw(st.integers(0, nd - 1))
            case["scan"] = [di, draw(target(di)), draw(target(di)), draw(st.integers(1, 6))]
        return case

    return st.one_of(sim_case(), sim_case(), limits_case())


def run(ctx):
    ctx.hyp(_strategy, check_case, max_examples=ctx.pick(8000, 400000))


def replay(case):
    return check_case(case)
