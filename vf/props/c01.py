"""C01 Every opened run is a well-formed document stream, whatever happens."""

from __future__ import annotations

import copy

from ..core import Result, use_repo

use_repo()

from ..engine import corpus, e1common  # noqa: E402
from ..engine.oracles import check_docs  # noqa: E402

ID = "C01"
ENGINE = "E1"
DESIGN_REF = "DESIGN.md §8 C01"
TECHNIQUE = "schedule enumeration (every loop-callback boundary x request kind x decision) and Hypothesis-generated plans/schedules/faults on the real RunEngine, judged by a document-lifecycle automaton + event-model schema validation"
LEVEL_TEXT = (
    "Runs the real RunEngine on a harness-owned virtual-time loop; complete sweeps of every injection point of "
    "pause/defer/suspend/abort/stop/halt (and every post-pause decision) over a plan corpus, plus generated plans "
    "with nested runs, bundles, monitors, flyers, try/finally and device faults. Each emitted document stream is "
    "checked by an independent lifecycle/referential-integrity model, event-model's JSON schemas and uid uniqueness."
)
LEVEL_NOTE = (
    "Exploration, not proof. Arrivals are explored at boundaries between loop callbacks (not inside one); fake "
    "devices implement bluesky.protocols; documents are observed by the first-subscribed callback."
)
RULE = (
    "case = (plan, devices, faults, stages with injections at loop-callback index k). Sweep: every k in "
    "[0, handles+3) of each corpus plan x {pause,defer}x{resume,abort,stop,halt} + suspend variants + abort/stop/halt; "
    "plus Hypothesis-generated (plan AST, schedule, fault) triples. Non-trivial: at least one run was open when an "
    "injection or device fault took effect. Distinct = distinct canonical JSON of the case."
)
ASSUMPTIONS = [
    "requests arrive at boundaries between event-loop callbacks (intra-callback arrivals not explored)",
    "documents judged on the first-subscribed callback",
    "fake devices (vf/engine/devices.py) stand in for hardware",
]

KINDS = ("pause", "defer", "suspend", "abort", "stop", "halt")


def oracle(case, obs, res: Result):
    idle = obs.final_state == "idle" and not obs.stuck
    if not idle:
        # the engine never became idle again (judged by C07); the "once idle" clause does not apply
        res.classes.append("never_idle_again(C07)")
    runs, problems = check_docs(obs.docs, idle=idle)
    for kind, detail in problems:
        res.fail(kind, detail, **e1common.features(case, obs))
    res.nontrivial = e1common.interrupted_with_open_run(obs)
    return res


check_case = e1common.make_check(oracle)


def monitor_left_to_close_run_cases():
    """A run closed while a signal is still monitored (close_run removes the callback itself) x the n-th
    subscribe / clear_sub of that signal failing once, alone and after a pause+resume: a close_run that fails must
    still leave the run closable by the plan's or the engine's clean-up."""
    from ..engine.planlang import M, SEQ

    def plan(guard):
        body = SEQ(
            M("open_run"),
            M("checkpoint"),
            M("monitor", "s1", name="s1_monitor"),
            corpus.point(("d1",), "m1", 0.5),
            M("close_run"),
            M("checkpoint"),
        )
        if guard == "swallow":
            return SEQ(["try", body, [["Exception", "swallow", M("null", None, "handler")]], None], M("null", None, "after"))
        return body

    for guard in ("none", "swallow"):
        for op, nth in (("clear_sub", 1), ("clear_sub", 2), ("subscribe", 1), ("subscribe", 2)):
            for pause_at in (None, 12, 30):
                c = {"name": f"monitor_left_to_close_run:{guard}", "plan": plan(guard), "devices": copy.deepcopy(corpus.DEV_A), "probe": True}
                c["faults"] = [{"dev": "s1", "op": op, "n": nth, "kind": "raise"}]
                c["stages"] = [{"do": "call"}] if pause_at is None else [{"do": "call", "inj": [{"at": pause_at, "do": "pause"}]}, {"do": "resume"}]
                yield c


def run(ctx):
    names = corpus.corpus_names(ctx.tier)
    step = 1
    cases = list(corpus.single_request_cases(names, KINDS, step=step))
    if ctx.quick:
        # keep every k for pause/abort families but thin decisions: deterministic subsample by index
        cases = [c for i, c in enumerate(cases) if i % 3 == ctx.seed % 3]
    cases += list(corpus.single_fault_cases(names, kinds=("raise", "status_fail")))
    cases += list(monitor_left_to_close_run_cases())
    ctx.sweep(cases, check_case)
    ctx.extra["sweep_cases"] = len(cases)
    e1common.generated(ctx, check_case, n=ctx.pick(600, 20000), profile="general")


def replay(case):
    return check_case(case)
