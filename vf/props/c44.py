"""C44 Peak statistics describe the data they were given."""

from __future__ import annotations

import math

from ..core import Result, use_repo

use_repo()

ID = "C44"
DESIGN_REF = "DESIGN.md §8 C44"
TECHNIQUE = (
    "Hypothesis-generated scans (strictly monotonic uneven x in both directions, finite y from several shape "
    "families) fed to PeakStats through its document interface, checked against independently recomputed predicates"
)
LEVEL_TEXT = (
    "PeakStats receives start/descriptor/event/stop documents; its max, min, com, cen, crossings and fwhm (and the "
    "same fields of derivative_stats when requested) are tested against predicates evaluated on an independent "
    "recomputation of the (optionally edge-background-subtracted) y: extremum attained at the reported x, com/cen "
    "inside [min x, max x], every crossing inside an adjacent sample pair that straddles the half-maximum, every "
    "strictly straddling pair has a crossing, fwhm = distance between outermost crossings."
)
LEVEL_NOTE = (
    "Exploration, not proof. Tolerances: 1e-9 * (x range) for positions, 1e-9 * (|y| + |line| scale) for levels. A "
    "zero total weight (sum of the evaluated y == 0) makes the centre of mass undefined; such cases are labelled and "
    "com is not asserted. Values are kept away from float overflow/underflow (|y| in {0} or [1e-50, 1e50])."
)
RULE = (
    "case = (x start, direction, positive steps, y values, edge_count|None, derivative flag). x is start + "
    "direction * cumsum(steps) with steps in [1e-3, 1e3]; y comes from one of: arbitrary floats, small integers "
    "(many ties), a noisy peak on a sloped background, a step, a constant, multi-peak. edge_count in [1, n/2). "
    "Non-trivial: >= 3 samples, y not constant after the optional background subtraction and at least one "
    "half-maximum crossing exists. Distinct = distinct canonical JSON of the case."
)
ASSUMPTIONS = [
    "with edge_count the statement is evaluated on the background-subtracted y (as the class documents), the reported y of max/min being the original reading",
    "x and y arrive as Python floats in one event stream, one event per sample",
    "a centre of mass is only asserted when the total weight sum(y) is non-zero",
    "no crossing / fewer than two crossings: cen/crossings/fwhm are None and nothing is asserted about them",
]
ENGINE = "E3"


def _build_x(case):
    x = []
    cur = case["x0"]
    x.append(cur)
    for s in case["steps"]:
        cur = cur + case["dir"] * s
        x.append(cur)
    return x


def _bkg_subtract(x, y, ec):
    """Independent recomputation of the quick-and-dirty linear background (pure Python floats)."""
    n = len(x)
    lx = math.fsum(x[:ec]) / ec
    ly = math.fsum(y[:ec]) / ec
    rx = math.fsum(x[n - ec :]) / ec
    ry = math.fsum(y[n - ec :]) / ec
    m = (ry - ly) / (rx - lx)
    b = ly - m * lx
    ys = [yi - (m * xi + b) for xi, yi in zip(x, y)]
    scale = max(abs(v) for v in y) + max(abs(m * xi) for xi in x) + abs(b)
    return ys, scale


def _check_stats(res, label, x, y_orig, ec, got, feats):
    """Apply the predicates to one set of statistics. ``got`` maps field -> reported value."""
    n = len(x)
    xmin, xmax = min(x), max(x)
    xr = xmax - xmin
    tol_x = 1e-9 * xr + 1e-12 * max(abs(xmin), abs(xmax), 1e-300)
    if ec is not None:
        y, scale = _bkg_subtract(x, y_orig, ec)
    else:
        y, scale = list(y_orig), max(abs(v) for v in y_orig)
    tol_y = 1e-9 * scale
    ymax, ymin = max(y), min(y)
    feats = dict(feats, stats=label)

    def fail(kind, detail):
        res.fail(kind, f"[{label}] {detail}", **feats)

    # --- max / min
    for name, target in (("max", ymax), ("min", ymin)):
        rep = got.get(name)
        try:
            rx, ry = float(rep[0]), float(rep[1])
        except Exception:
            fail(f"{name}_malformed", f"{name} = {rep!r} is not an (x, y) pair")
            continue
        idx = [i for i in range(n) if x[i] == rx]
        if len(idx) != 1:
            fail(f"{name}_not_a_sample", f"{name} x = {rx!r} is not one of the x samples")
            continue
        i = idx[0]
        if ry != y_orig[i]:
            fail(f"{name}_y_mismatch", f"{name} = ({rx!r}, {ry!r}) but the reading at that x is {y_orig[i]!r}")
        if abs(y[i] - target) > tol_y:
            fail(
                f"{name}_not_extremum",
                f"{name} reported at x = {rx!r} (index {i}) where evaluated y = {y[i]!r}, but the {name} of y is {target!r} (tol {tol_y!r})",
            )

    # --- centre of mass
    total = math.fsum(y)
    com = got.get("com")
    # zero weight up to the precision to which the evaluated y is known (background subtraction cancels)
    if total == 0 or abs(total) <= n * tol_y or abs(total) <= 1e-13 * math.fsum(abs(v) for v in y):
        res.classes.append(f"{label}:com-undefined(zero-weight)")
    else:
        try:
            c = float(com)
        except Exception:
            c = None
        if c is None or c != c or not (xmin - tol_x <= c <= xmax + tol_x):
            fail("com_out_of_range", f"com = {com!r} not within the x range [{xmin!r}, {xmax!r}] (sum of y = {total!r})")

    # --- crossings / cen / fwhm
    mid = (ymax + ymin) / 2
    s = [1 if v - mid > tol_y else (-1 if v - mid < -tol_y else 0) for v in y]
    strict_pairs = [i for i in range(n - 1) if s[i] * s[i + 1] < 0]
    crossings = got.get("crossings")
    cen = got.get("cen")
    fwhm = got.get("fwhm")
    if crossings is None:
        cr = []
    else:
        try:
            cr = [float(v) for v in crossings]
        except Exception:
            fail("crossings_malformed", f"crossings = {crossings!r}")
            cr = []
    res.classes.append(f"{label}:crossings={min(len(cr), 4)}{'+' if len(cr) >= 4 else ''}")
    for c in cr:
        ok = False
        if c == c:
            for i in range(n - 1):
                lo, hi = min(x[i], x[i + 1]), max(x[i], x[i + 1])
                if lo - tol_x <= c <= hi + tol_x and s[i] * s[i + 1] <= 0:
                    ok = True
                    break
        if not ok:
            fail(
                "crossing_not_between_straddling_samples",
                f"crossing {c!r} does not lie between two adjacent samples on opposite sides of the half-maximum {mid!r}",
            )
            break
    for i in strict_pairs:
        lo, hi = min(x[i], x[i + 1]), max(x[i], x[i + 1])
        if not any(lo - tol_x <= c <= hi + tol_x for c in cr):
            fail(
                "crossing_missing",
                f"samples {i},{i + 1} (x {x[i]!r},{x[i + 1]!r}; y-mid {y[i] - mid!r},{y[i + 1] - mid!r}) straddle the "
                f"half-maximum but no crossing is reported there (crossings = {cr!r})",
            )
            break
    if cr:
        try:
            cv = float(cen)
        except Exception:
            cv = None
        if cv is None or cv != cv or not (xmin - tol_x <= cv <= xmax + tol_x):
            fail("cen_out_of_range", f"cen = {cen!r} not within the x range [{xmin!r}, {xmax!r}]")
    elif cen is not None:
        try:
            cv = float(cen)
            if cv != cv or not (xmin - tol_x <= cv <= xmax + tol_x):
                fail("cen_out_of_range", f"cen = {cen!r} (no crossings) not within the x range")
        except Exception:
            fail("cen_out_of_range", f"cen = {cen!r}")
    if len(cr) >= 2:
        want = max(cr) - min(cr)
        try:
            fv = float(fwhm)
        except Exception:
            fv = None
        if fv is None or fv != fv or abs(fv - want) > 2 * tol_x:
            fail("fwhm_mismatch", f"fwhm = {fwhm!r} but the outermost crossings {min(cr)!r} and {max(cr)!r} are {want!r} apart")
    elif fwhm is not None:
        # the statement only defines fwhm through two outermost crossings; anything else is just recorded
        res.classes.append(f"{label}:fwhm-reported-with-<2-crossings")
    return {"n_cross": len(cr), "constant": ymax - ymin <= tol_y}


def check_case(case) -> Result:
    import warnings

    from bluesky.callbacks.fitting import PeakStats

    x = _build_x(case)
    y = [float(v) for v in case["y"]]
    ec = case.get("edge_count")
    deriv = bool(case.get("derivative"))
    n = len(x)
    if len(y) != n or any(b == a for a, b in zip(x, x[1:])) or any(v != 0 and not (1e-50 <= abs(v) <= 1e50) for v in y):
        from ..core import HarnessError

        raise HarnessError(f"case outside the domain (x not strictly monotonic, length mismatch or |y| outside 0/[1e-50,1e50]): {case}")
    res = Result()
    feats = {
        "n": n,
        "direction": "inc" if case["dir"] > 0 else "dec",
        "edge": ec is not None,
        "derivative": deriv,
        "family": case.get("family", "?"),
    }
    res.klass = f"{feats['direction']}/edge={'y' if ec is not None else 'n'}/deriv={'y' if deriv else 'n'}/{feats['family']}"

    ps = PeakStats("mot", "det", edge_count=ec, calc_derivative_and_stats=deriv)
    try:
        with warnings.catch_warnings():
            warnings.simplefilter("ignore")
            ps("start", {"uid": "run-1", "time": 0.0, "scan_id": 1})
            ps(
                "descriptor",
                {"uid": "desc-1", "run_start": "run-1", "time": 0.0, "name": "primary", "data_keys": {}, "configuration": {}},
            )
            for i in range(n):
                ps(
                    "event",
                    {
                        "uid": f"ev-{i}",
                        "descriptor": "desc-1",
                        "seq_num": i + 1,
                        "time": float(i),
                        "data": {"mot": x[i], "det": y[i]},
                        "timestamps": {"mot": float(i), "det": float(i)},
                    },
                )
            ps("stop", {"uid": "stop-1", "run_start": "run-1", "time": float(n), "exit_status": "success"})
    except Exception as e:
        return res.fail("unexpected_exception", f"PeakStats raised {type(e).__name__}: {e}", **feats)

    got = {k: ps[k] for k in ("min", "max", "com", "cen", "crossings", "fwhm")}
    # the attributes and the stats tuple must tell the same story
    if ps.stats is None:
        return res.fail("no_stats", "PeakStats.stats is None after the stop document", **feats)
    info = _check_stats(res, "stats", x, y, ec, got, feats)
    res.nontrivial = n >= 3 and not info["constant"] and info["n_cross"] >= 1
    res.obs = {"n_cross": info["n_cross"]}
    if deriv:
        ds = ps.derivative_stats
        if ds is None:
            return res.fail("no_derivative_stats", "derivative_stats is None although requested", **feats)
        xd = x[1:]
        yd = [b - a for a, b in zip(y, y[1:])]
        gotd = {k: getattr(ds, k) for k in ("min", "max", "com", "cen", "crossings", "fwhm")}
        _check_stats(res, "derivative", xd, yd, ec, gotd, feats)
    return res


# ------------------------------------------------------------------------------------------


def _strategy():
    from hypothesis import strategies as st

    mag = st.one_of(st.floats(1e-50, 1e50), st.floats(1e-3, 1e3), st.floats(1e-3, 1e3))
    anyy = st.one_of(st.just(0.0), mag, mag.map(lambda v: -v))

    @st.composite
    def cases(draw):
        family = draw(st.sampled_from(["arbitrary", "small-ints", "peak", "peak", "step", "multi-peak", "constant", "linear"]))
        deriv = draw(st.booleans()) if family != "constant" else draw(st.sampled_from([False, False, True]))
        nmin = 2 if deriv else 1
        n = draw(st.integers(nmin, 60)) if draw(st.booleans()) else draw(st.integers(max(nmin, 3), 14))
        steps = draw(
            st.one_of(
                st.lists(st.floats(1e-3, 1e3), min_size=n - 1, max_size=n - 1),
                st.lists(st.sampled_from([0.5, 1.0, 1.0, 2.0]), min_size=n - 1, max_size=n - 1),
            )
        )
        x0 = draw(st.one_of(st.just(0.0), st.floats(-1e4, 1e4)))
        direction = draw(st.sampled_from([1, -1]))
        idx = list(range(n))
        if family == "arbitrary":
            y = draw(st.lists(anyy, min_size=n, max_size=n))
        elif family == "small-ints":
            y = [float(v) for v in draw(st.lists(st.integers(-3, 3), min_size=n, max_size=n))]
        elif family == "constant":
            c = draw(st.one_of(st.just(0.0), st.floats(-100, 100)))
            y = [c] * n
        elif family == "linear":
            a = draw(st.floats(-10, 10))
            b = draw(st.floats(-100, 100))
            y = [a * i + b for i in idx]
        else:
            amp = draw(st.floats(0.1, 1000.0))
            sign = draw(st.sampled_from([1.0, 1.0, -1.0]))
            slope = draw(st.one_of(st.just(0.0), st.floats(-5, 5)))
            off = draw(st.one_of(st.just(0.0), st.floats(-100, 100)))
            noise = draw(st.lists(st.floats(-0.2, 0.2), min_size=n, max_size=n))
            nz = draw(st.sampled_from([0.0, 0.0, 1.0]))
            if family == "peak":
                c = draw(st.floats(-2.0, n + 1.0))
                w = draw(st.floats(0.3, max(0.5, n / 3)))
                shape = [math.exp(-((i - c) ** 2) / (2 * w * w)) for i in idx]
            elif family == "step":
                c = draw(st.floats(-1.0, n + 0.0))
                w = draw(st.floats(0.05, max(0.1, n / 5)))
                shape = [0.5 * (1 + math.tanh((i - c) / w)) for i in idx]
            else:
                k = draw(st.integers(2, 4))
                cs = [draw(st.floats(0.0, n - 1.0)) for _ in range(k)]
                w = draw(st.floats(0.3, max(0.5, n / 8)))
                shape = [sum(math.exp(-((i - c) ** 2) / (2 * w * w)) for c in cs) for i in idx]
            y = [sign * amp * s + slope * i + off + nz * amp * e for i, s, e in zip(idx, shape, noise)]
        # keep y inside the stated magnitude domain ({0} or [1e-50, 1e50]): slopes of subnormal data underflow
        y = [0.0 if abs(v) < 1e-50 else max(-1e50, min(1e50, v)) for v in y]
        max_ec = (n - (1 if deriv else 0) - 1) // 2  # edge_count < n/2 for every evaluated series
        ec = None
        if max_ec >= 1 and draw(st.booleans()):
            ec = draw(st.integers(1, max_ec))
        return {
            "x0": x0,
            "dir": direction,
            "steps": steps,
            "y": y,
            "edge_count": ec,
            "derivative": deriv,
            "family": family,
        }

    return cases()


def run(ctx):
    import bluesky.callbacks.fitting  # noqa: F401  (import once; forked workers inherit it)

    ctx.hyp(_strategy, check_case, max_examples=ctx.pick(4000, 150000))


def replay(case):
    return check_case(case)
