"""C46 TiledWriter stores exactly the run it was given.

Every case is an abstract description of one Bluesky run (start metadata, 1-3 streams with internal
columns and/or external keys, events / event pages, stream resources / stream datums, an
interleaving, a stop document) plus a ``batch_size``.  The documents are composed with
``event_model.compose_run`` (so they are schema-valid), fed to ``TiledWriter(client,
batch_size=...)`` backed by an in-process Tiled server (one per worker process), and the content of
the run's container is then read back through the public Tiled client API and compared with an
expectation computed from the case alone.
"""

from __future__ import annotations

import atexit
import copy
import io
import json
import math
import multiprocessing
import os
import shutil
import signal
import tempfile
import uuid

from ..core import HarnessError, Result, unjson, use_repo

use_repo()

ID = "C46"
DESIGN_REF = "DESIGN.md §8 C46"
TECHNIQUE = "Hypothesis-generated runs x batch sizes written to an in-process Tiled server, read back and compared with a model"
LEVEL_TEXT = (
    "Generated runs (1-3 streams; number/integer/string/boolean/array columns; events and event pages; external "
    "HDF5 keys fed by stream_resource/stream_datum incl. per-event, multi-frame, file roll-over and collect-only "
    "streams; mid-run re-description; interleaved streams) are written with batch_size in {0,1,2,3,10000} through "
    "TiledWriter (RunNormalizer + _RunWriter) into a real in-process Tiled catalog; start/stop metadata, every row "
    "and column of each internal table and the shape of every external array node are compared with an independent "
    "expectation, in both directions (nothing lost, nothing invented)."
)
LEVEL_NOTE = (
    "Trusts Tiled 0.2.18 (server, duckdb storage, arrow export) and event_model's composers; external files do not "
    "exist, so only the registered array structure is observed, not array contents; legacy resource/datum documents "
    "are not generated; exploration, not proof."
)
RULE = (
    "case = (batch_size, start metadata, stop fields, streams[name, internal keys with per-event values, external "
    "keys with datum sizes, chunking of the events into single events / pages, optional second descriptor, "
    "read/collect mode], interleaving order). Drawn by Hypothesis. Non-trivial: some stream has >=2 events carrying "
    ">=1 internal column, or some external key receives >=2 stream datums (so batching/ordering can matter). "
    "Distinct = distinct canonical JSON of the case."
)
ASSUMPTIONS = [
    "documents are composed by event_model.compose_run and emitted in an order the RunEngine can produce "
    "(descriptor before its events, stream_resource before its stream_datums, assets before the event they belong to, "
    "seq_num 1..N increasing per stream)",
    "start metadata may be changed only by bluesky.utils.truncate_json_overflow (documented clamp of integral numbers "
    "to +-(2**53-1)) and reserved data keys 'time'/'seq_num' are renamed with a leading underscore (documented in "
    "RunNormalizer)",
    "external array shape follows ConsolidatorBase.shape: rows*shape[0] for 'concat', rows for 'stack' / scalar keys",
    "data key names are lower-case and distinct from 'ts_*' (Tiled's SQL storage folds case; the writer prefixes timestamps)",
]
ENGINE = "E3"

BATCH_SIZES = [0, 1, 2, 3, 10000]
_JSON_MAX = 2**53 - 1

# ------------------------------------------------------------------------------------------
# One Tiled app/client per process.  The *parent* process owns the base temp dir (pool workers are
# killed with SIGTERM / os._exit and cannot clean up after themselves).

_BASE = {"dir": None, "pid": None}
_STATE = {"pid": None, "ctx": None, "client": None, "dir": None}
_GRAVEYARD = []  # inherited (forked) state that must not be finalised in this process
_REPLAY = {"pool": None, "pid": None}


def _cleanup_base():
    if _BASE["dir"] and _BASE["pid"] == os.getpid():
        shutil.rmtree(_BASE["dir"], ignore_errors=True)
        _BASE["dir"] = None


def _on_sigterm(signum, frame):
    """`kill <check>`: take the workers and the temp dir down with us (atexit does not run on SIGTERM and
    unwinding through multiprocessing.Pool from a signal handler can hang)."""
    if _BASE["pid"] == os.getpid():
        for child in multiprocessing.active_children():
            try:
                child.kill()
            except Exception:
                pass
        if _BASE["dir"]:
            shutil.rmtree(_BASE["dir"], ignore_errors=True)
    os._exit(143)


def _base_dir():
    """Directory under /tmp that holds all Tiled storage of this check run (created by the first caller,
    inherited by forked workers, removed by its creator)."""
    if _BASE["dir"] is None or not os.path.isdir(_BASE["dir"]):
        _BASE["dir"] = tempfile.mkdtemp(prefix=f"vf_c46_{os.getpid()}_", dir="/tmp")
        _BASE["pid"] = os.getpid()
        atexit.register(_cleanup_base)
        try:  # make a plain `kill` of the check run the clean-up too
            if signal.getsignal(signal.SIGTERM) is signal.SIG_DFL:
                signal.signal(signal.SIGTERM, _on_sigterm)
        except ValueError:  # not the main thread
            pass
    return _BASE["dir"]


def _shutdown_client():
    if _STATE["pid"] == os.getpid() and _STATE["ctx"] is not None:
        try:
            _STATE["ctx"].__exit__(None, None, None)
        except Exception:
            pass
        shutil.rmtree(_STATE["dir"], ignore_errors=True)
        _STATE.update(pid=None, ctx=None, client=None, dir=None)


def _client():
    if _STATE["pid"] != os.getpid():
        if _STATE["ctx"] is not None:  # forked copy of another process's client: never touch it
            _GRAVEYARD.append(dict(_STATE))
        if _BASE["pid"] is not None and _BASE["pid"] != os.getpid():
            try:  # worker process: die silently on SIGTERM (the parent owns the clean-up)
                signal.signal(signal.SIGTERM, signal.SIG_DFL)
            except ValueError:
                pass
        try:
            from tiled.catalog import in_memory
            from tiled.client import Context, from_context
            from tiled.server.app import build_app

            d = tempfile.mkdtemp(prefix=f"w{os.getpid()}_", dir=_base_dir())
            catalog = in_memory(
                writable_storage={"filesystem": d, "sql": f"duckdb:///{d}/internal.db"},
                readable_storage=[d],
            )
            ctx = Context.from_app(build_app(catalog))
            ctx.__enter__()
            client = from_context(ctx)
        except Exception as e:  # infrastructure, never a property failure
            raise HarnessError(f"cannot start in-process Tiled: {type(e).__name__}: {e}") from e
        _STATE.update(pid=os.getpid(), ctx=ctx, client=client, dir=d)
        atexit.register(_shutdown_client)
    return _STATE["client"]


# ------------------------------------------------------------------------------------------
# Model side: expectations computed from the case only


def _truncate_ref(x):
    """Independent statement of bluesky.utils.truncate_json_overflow's documented behaviour."""
    if isinstance(x, dict):
        return {k: _truncate_ref(v) for k, v in x.items()}
    if isinstance(x, list):
        return [_truncate_ref(v) for v in x]
    if isinstance(x, bool) or x is None or isinstance(x, str):
        return x
    if isinstance(x, int):
        return max(-_JSON_MAX, min(_JSON_MAX, x))
    if isinstance(x, float) and math.isfinite(x) and x == math.floor(x) and abs(x) > _JSON_MAX:
        return _JSON_MAX if x > 0 else -_JSON_MAX
    return x


def _same_scalar(a, e):
    if isinstance(e, float) and e != e:
        # Tiled's arrow export goes through pandas, which presents a stored NaN as null
        return a is None or (isinstance(a, float) and a != a)
    if isinstance(e, str) or isinstance(a, str) or a is None or e is None:
        return type(a) is type(e) and a == e
    return a == e


def _same_value(a, e):
    if isinstance(e, list):
        return isinstance(a, list) and len(a) == len(e) and all(_same_value(x, y) for x, y in zip(a, e))
    return _same_scalar(a, e)


def _same_json(a, e):
    """Equality of JSON-like metadata (dict order irrelevant, numbers by value)."""
    if isinstance(e, dict):
        return isinstance(a, dict) and set(a) == set(e) and all(_same_json(a[k], e[k]) for k in e)
    if isinstance(e, list):
        return isinstance(a, list) and len(a) == len(e) and all(_same_json(x, y) for x, y in zip(a, e))
    if isinstance(e, bool) or isinstance(a, bool):
        return isinstance(a, bool) and isinstance(e, bool) and a == e
    return _same_scalar(a, e)


def _plain(x):
    """Tiled DictView / tuples -> plain dict / list."""
    if hasattr(x, "items"):
        return {k: _plain(v) for k, v in x.items()}
    if isinstance(x, (list, tuple)):
        return [_plain(v) for v in x]
    return x


RESERVED = ("time", "seq_num")


def _col(name):
    return f"_{name}" if name in RESERVED else name


def _non_integral(v):
    """A float that an int64 column cannot hold exactly."""
    return isinstance(v, float) and (not math.isfinite(v) or v != math.floor(v) or abs(v) >= 2.0**63)


def _mixed_feature(case):
    """True iff some 'number' column's first written batch holds only Python ints while a later batch holds a
    non-integral float (so a schema inferred from the first batch cannot represent the later one)."""
    b = max(1, int(case["batch_size"]))
    for s in case["streams"]:
        for k in s["keys"]:
            if k["kind"] != "number":
                continue
            vals = [r["data"][k["name"]] for r in s["rows"]]
            first, rest = vals[:b], vals[b:]
            if first and all(isinstance(v, int) and not isinstance(v, bool) for v in first) and any(
                _non_integral(v) for v in rest
            ):
                return True
    return False


def _ext_expected_shape(ext, rows):
    shape = list(ext["shape"])
    if ext.get("join") == "stack":
        if shape == [1]:  # whether a (1,) datum is squeezed when stacking is not specified: length only
            return [rows, None]
        return [rows] + shape
    if len(shape) > 0:
        return [rows * shape[0]] + shape[1:]
    return [rows]


# ------------------------------------------------------------------------------------------
# Document composition


def _data_key(k):
    kind = k["kind"]
    if kind == "array":
        return {"source": "sim:" + k["name"], "dtype": "array", "shape": list(k["shape"])}
    return {"source": "sim:" + k["name"], "dtype": kind, "shape": []}


def _ext_data_key(e):
    dk = {
        "source": "file:" + e["name"],
        "dtype": "array" if len(e["shape"]) > 1 else "number",
        "shape": list(e["shape"]),
        "dtype_numpy": e["dtype_numpy"],
        "external": "STREAM:",
    }
    return dk


def _compose(case, run_uid):
    """Return (documents in emission order, expectation dict)."""
    import event_model

    t0 = 1.7e9
    bundle = event_model.compose_run(uid=run_uid, time=t0, metadata=copy.deepcopy(case["start_md"]))
    start = bundle.start_doc
    per_stream_units = []
    expect = {"streams": {}}

    for si, s in enumerate(case["streams"]):
        name = s["name"]
        keys, exts, rows = s["keys"], s["ext"], s["rows"]
        data_keys = {k["name"]: _data_key(k) for k in keys}
        data_keys.update({e["name"]: _ext_data_key(e) for e in exts})
        object_keys = {f"dev{si}": list(data_keys)} if data_keys else {}
        ndesc = [0]

        def new_desc():
            ndesc[0] += 1
            return bundle.compose_descriptor(
                name=name,
                data_keys=copy.deepcopy(data_keys),
                object_keys=copy.deepcopy(object_keys),
                time=t0 + 1 + si,
                uid=f"{run_uid}-s{si}-desc{ndesc[0]}",
            )

        db = new_desc()
        units = [[("descriptor", db.descriptor_doc)]]
        ext_state = {}  # name -> dict(bundle, index, seq, total, nres)
        for e in exts:
            ext_state[e["name"]] = {"bundle": None, "index": 0, "seq": 1, "total": 0, "nres": 0, "ndatum": 0}

        def new_resource(e):
            st_ = ext_state[e["name"]]
            st_["nres"] += 1
            params = {"dataset": f"/entry/data/{e['name']}"}
            if e.get("chunk0"):
                params["chunk_shape"] = [int(e["chunk0"])]
            if e.get("join"):
                params["join_method"] = e["join"]
            srb = bundle.compose_stream_resource(
                mimetype="application/x-hdf5",
                uri=f"file://localhost/nonexistent/vf_c46/{run_uid}/s{si}_{e['name']}_{st_['nres']}.h5",
                data_key=e["name"],
                parameters=params,
                uid=f"{run_uid}-s{si}-{e['name']}-res{st_['nres']}",
            )
            st_["bundle"] = srb
            st_["index"] = 0  # indices restart in a new file
            return ("stream_resource", srb.stream_resource_doc)

        def datum(e, size, desc):
            st_ = ext_state[e["name"]]
            doc = st_["bundle"].compose_stream_datum(
                indices={"start": st_["index"], "stop": st_["index"] + size},
                seq_nums={"start": st_["seq"], "stop": st_["seq"] + size},
                descriptor=desc.descriptor_doc,
            )
            st_["index"] += size
            st_["seq"] += size
            st_["total"] += size
            st_["ndatum"] += 1
            return ("stream_datum", doc)

        if s["mode"] == "read":
            pos = 0
            for ci, (ckind, k) in enumerate(s["chunks"]):
                if s.get("redescribe_at") is not None and ci == s["redescribe_at"]:
                    db = new_desc()
                    units.append([("descriptor", db.descriptor_doc)])
                chunk_rows = rows[pos : pos + k]
                # assets first (as the RunEngine emits them before the event they belong to)
                asset_unit = []
                for e in exts:
                    if ext_state[e["name"]]["bundle"] is None:
                        asset_unit.append(new_resource(e))
                    if e.get("split"):
                        for _ in range(k):
                            asset_unit.append(datum(e, 1, db))
                    else:
                        asset_unit.append(datum(e, k, db))
                if asset_unit:
                    units.append(asset_unit)
                if ckind == "page":
                    page = db.compose_event_page(
                        data={kk["name"]: [r["data"][kk["name"]] for r in chunk_rows] for kk in keys},
                        timestamps={kk["name"]: [r["ts"][kk["name"]] for r in chunk_rows] for kk in keys},
                        time=[r["time"] for r in chunk_rows],
                        seq_num=list(range(pos + 1, pos + k + 1)),
                        uid=[f"{run_uid}-s{si}-ev{pos + j + 1}" for j in range(k)],
                    )
                    units.append([("event_page", page)])
                else:
                    for j, r in enumerate(chunk_rows):
                        ev = db.compose_event(
                            data={kk["name"]: r["data"][kk["name"]] for kk in keys},
                            timestamps={kk["name"]: r["ts"][kk["name"]] for kk in keys},
                            time=r["time"],
                            seq_num=pos + j + 1,
                            uid=f"{run_uid}-s{si}-ev{pos + j + 1}",
                        )
                        units.append([("event", ev)])
                pos += k
            if pos != len(rows):
                raise HarnessError(f"chunks {s['chunks']} do not cover {len(rows)} rows")
        else:  # collect: external keys only, no events
            if rows or keys:
                raise HarnessError("collect-mode stream must not have rows / internal keys")
            sizes = {e["name"]: list(s["datum_sizes"][e["name"]]) for e in exts}
            for e in exts:  # the resource is declared even when no datum follows
                units.append([new_resource(e)])
            for j in range(max([len(v) for v in sizes.values()] or [0])):
                unit = []
                for e in exts:
                    if j < len(sizes[e["name"]]):
                        if s.get("rollover", {}).get(e["name"]) == j and j > 0:
                            unit.append(new_resource(e))
                        unit.append(datum(e, sizes[e["name"]][j], db))
                if unit:
                    units.append(unit)

        per_stream_units.append(units)
        expect["streams"][name] = {
            "rows": rows,
            "keys": keys,
            "ext": {e["name"]: {"spec": e, "rows": ext_state[e["name"]]["total"]} for e in exts},
        }

    # interleave
    docs = [("start", start)]
    cursors = [0] * len(per_stream_units)
    order = list(case.get("order", []))
    oi = 0
    while True:
        live = [i for i, u in enumerate(per_stream_units) if cursors[i] < len(u)]
        if not live:
            break
        pick = live[order[oi] % len(live)] if oi < len(order) else live[0]
        oi += 1
        docs.extend(per_stream_units[pick][cursors[pick]])
        cursors[pick] += 1
    stop = bundle.compose_stop(
        exit_status=case["stop"]["exit_status"],
        reason=case["stop"]["reason"],
        uid=f"{run_uid}-stop",
        time=t0 + 100,
    )
    docs.append(("stop", stop))
    expect["start"] = _truncate_ref(json.loads(json.dumps(start)))
    expect["stop"] = json.loads(json.dumps(stop))
    return docs, expect


# ------------------------------------------------------------------------------------------
# The check


def _labels(case):
    b = int(case["batch_size"])
    labs = []
    n_ext = sum(len(s["ext"]) for s in case["streams"])
    n_int = sum(len(s["keys"]) for s in case["streams"])
    for s in case["streams"]:
        n = len(s["rows"])
        if any(c[0] == "page" for c in s.get("chunks", [])):
            labs.append("has:event_page")
        if s.get("redescribe_at") is not None:
            labs.append("has:second_descriptor")
        if s["mode"] == "collect":
            labs.append("has:collect_stream")
            if any(v is not None and v > 0 for v in s.get("rollover", {}).values()):
                labs.append("has:file_rollover")
        if s["keys"] and n > max(b, 1):
            labs.append("int:crosses_batch")
            if n % max(b, 1):
                labs.append("int:partial_last_batch")
        if s["keys"] and 1 < b and 0 < n < b:
            labs.append("int:only_flushed_at_stop")
        for e in s["ext"]:
            if e.get("shape") and e["shape"][0] > 1:
                labs.append("ext:multi_frame")
            if e.get("join") == "stack":
                labs.append("ext:stack")
        if any(k["kind"] == "array" for k in s["keys"]):
            labs.append("int:array_column")
        if any(k["name"] in RESERVED for k in s["keys"]):
            labs.append("int:reserved_key")
        if n == 0 and s["mode"] == "read":
            labs.append("has:stream_without_events")
    if len(case["streams"]) > 1:
        labs.append("has:multi_stream")
    if _mixed_feature(case):
        labs.append("int:number_int_then_float_across_batches")
    kind = ("int" if n_int else "") + ("+ext" if n_ext else "")
    return f"bs={b}/streams={len(case['streams'])}/{kind or 'empty'}", sorted(set(labs))


def _nontrivial(case):
    for s in case["streams"]:
        if len(s["rows"]) >= 2 and s["keys"]:
            return True
        if s["mode"] == "read":
            for e in s["ext"]:
                nd = sum(k if e.get("split") else 1 for _, k in s["chunks"])
                if nd >= 2:
                    return True
        else:
            if any(len(v) >= 2 for v in s["datum_sizes"].values()):
                return True
    return False


def check_case(case) -> Result:
    case = unjson(case)
    res = Result()
    res.klass, res.classes = _labels(case)
    res.nontrivial = _nontrivial(case)
    batch = int(case["batch_size"])
    feats = {
        "batch_size": batch,
        "number_int_then_float_across_batches": _mixed_feature(case),
        "n_streams": len(case["streams"]),
        "reserved_data_key": any(k["name"] in RESERVED for s in case["streams"] for k in s["keys"]),
    }

    client = _client()
    run_uid = str(uuid.uuid4())  # the catalog is shared by all cases of this process: fresh key per write
    docs, expect = _compose(case, run_uid)

    from bluesky.callbacks.tiled_writer import TiledWriter

    tw = TiledWriter(client, batch_size=batch)
    for i, (name, doc) in enumerate(docs):
        try:
            tw(name, doc)
        except Exception as e:
            return res.fail(
                "writer_raised",
                f"TiledWriter(batch_size={batch}) raised on document {i} ({name}) of a valid run: "
                f"{type(e).__name__}: {str(e)[:300]}",
                **feats,
            )

    # ---- read back through the public client API
    try:
        run = client[run_uid]
    except KeyError:
        return res.fail("run_missing", f"no container for run {run_uid} after RunStop", **feats)
    md = _plain(run.metadata)
    if "start" not in md:
        res.fail("start_metadata_missing", f"metadata keys {sorted(md)}", **feats)
    elif not _same_json(md["start"], expect["start"]):
        res.fail("start_metadata_differs", f"expected {expect['start']!r}, stored {md['start']!r}", **feats)
    if "stop" not in md:
        res.fail("stop_metadata_missing", f"metadata keys {sorted(md)}", **feats)
    elif not _same_json(md["stop"], expect["stop"]):
        res.fail("stop_metadata_differs", f"expected {expect['stop']!r}, stored {md['stop']!r}", **feats)
    extra_md = set(md) - {"start", "stop"}
    if extra_md:
        res.fail("metadata_invented", f"unexpected top-level metadata keys {sorted(extra_md)}", **feats)

    stream_nodes = dict(run.items())
    stream_names = set(stream_nodes)
    if stream_names != set(expect["streams"]):
        res.fail("streams_differ", f"expected streams {sorted(expect['streams'])}, found {sorted(stream_names)}", **feats)

    import pyarrow

    for sname, es in expect["streams"].items():
        if sname not in stream_names:
            continue
        node = stream_nodes[sname]
        node = dict(getattr(node, "base", node).items())
        children = set(node)
        allowed = {"internal"} | set(es["ext"])
        if children - allowed:
            res.fail("nodes_invented", f"stream {sname!r}: unexpected nodes {sorted(children - allowed)}", **feats)

        # -- internal table
        rows = es["rows"]
        if "internal" not in children:
            if rows:
                res.fail("internal_missing", f"stream {sname!r}: {len(rows)} events but no 'internal' table", **feats)
        else:
            buf = io.BytesIO()
            node["internal"].export(buf, format="application/vnd.apache.arrow.file")
            table = pyarrow.ipc.open_file(buf.getvalue()).read_all()
            cols = [c for c in table.column_names if not c.startswith("__index_level_")]
            exp_cols = {"seq_num", "time"}
            for k in es["keys"]:
                exp_cols |= {_col(k["name"]), "ts_" + _col(k["name"])}
            if set(cols) != exp_cols or len(cols) != len(set(cols)):
                res.fail("columns_differ", f"stream {sname!r}: expected columns {sorted(exp_cols)}, found {cols}", **feats)
            got = table.to_pylist()
            seq = [r.get("seq_num") for r in got]
            exp_seq = list(range(1, len(rows) + 1))
            if len(got) != len(rows):
                res.fail(
                    "row_count", f"stream {sname!r}: {len(rows)} events written, table has {len(got)} rows (seq_num {seq})", **feats
                )
            elif seq != exp_seq:
                res.fail("row_order", f"stream {sname!r}: seq_num column is {seq}, expected {exp_seq}", **feats)
            else:
                for i, (g, r) in enumerate(zip(got, rows)):
                    if "time" in g and not _same_scalar(g["time"], r["time"]):
                        res.fail("time_differs", f"stream {sname!r} row {i}: time {g['time']!r} != {r['time']!r}", **feats)
                        break
                    bad = None
                    for k in es["keys"]:
                        c = _col(k["name"])
                        if c in g and not _same_value(g[c], r["data"][k["name"]]):
                            bad = ("value_differs", c, g[c], r["data"][k["name"]])
                        elif "ts_" + c in g and not _same_scalar(g["ts_" + c], r["ts"][k["name"]]):
                            bad = ("timestamp_differs", "ts_" + c, g["ts_" + c], r["ts"][k["name"]])
                        if bad:
                            break
                    if bad:
                        res.fail(
                            bad[0],
                            f"stream {sname!r} row {i} (seq_num {i + 1}) column {bad[1]!r}: stored {bad[2]!r}, event had {bad[3]!r}",
                            **feats,
                        )
                        break

        # -- external arrays
        for ename, ee in es["ext"].items():
            nrows = ee["rows"]
            if ename not in children:
                if nrows:
                    res.fail(
                        "external_missing",
                        f"stream {sname!r}: no array node for external key {ename!r} although stream datums covering "
                        f"{nrows} rows were received",
                        **feats,
                    )
                continue
            arr = node[ename]
            fam = str(getattr(arr.item["attributes"]["structure_family"], "value", arr.item["attributes"]["structure_family"]))
            if fam != "array":
                res.fail("external_not_array", f"stream {sname!r} key {ename!r}: structure family {fam}", **feats)
                continue
            shape = list(arr.structure().shape)
            exp_shape = _ext_expected_shape(ee["spec"], nrows)
            if not shape or shape[0] != exp_shape[0]:
                res.fail(
                    "external_length",
                    f"stream {sname!r} key {ename!r}: stream datums covering {nrows} rows (x{(ee['spec']['shape'] or [1])[0]} "
                    f"frames) received, expected leading dimension {exp_shape[0]}, array shape is {shape}",
                    **feats,
                )
            elif exp_shape[-1] is not None and shape != exp_shape:
                res.fail("external_shape", f"stream {sname!r} key {ename!r}: expected shape {exp_shape}, found {shape}", **feats)
    res.obs = {"documents": len(docs)}
    return res


# ------------------------------------------------------------------------------------------
# Generator

_STREAM_NAMES = ["primary", "baseline", "dark", "x_monitor"]
_INT_NAMES = ["x", "y", "det-key1", "motor_pos", "s", "flag", "arr", "i0"]
_EXT_NAMES = ["img", "det-ext1", "cam_image"]


def _strategy():
    from hypothesis import strategies as st

    quick = os.environ.get("VERIF_TIER", "quick") == "quick"
    max_events = 8 if quick else 14

    nice_float = st.one_of(
        st.floats(min_value=-1e6, max_value=1e6, allow_nan=False),
        st.floats(allow_nan=True, allow_infinity=True),
        st.sampled_from([0.5, -0.0, 1e300, 5e-324, float(2**53)]),
    )
    text = st.text(
        alphabet=st.characters(blacklist_categories=("Cs",), blacklist_characters="\x00"), max_size=6
    )
    md_leaf = st.one_of(
        st.none(),
        st.booleans(),
        st.integers(-(2**70), 2**70),
        st.sampled_from([2**53 - 1, 2**53, -(2**53), 1 - 2**53, 2**63, 0]),
        st.floats(min_value=-1e12, max_value=1e12, allow_nan=False),
        st.sampled_from([1e16, -1e300, 0.1]),
        text,
    )
    md_value = st.recursive(
        md_leaf,
        lambda ch: st.one_of(st.lists(ch, max_size=3), st.dictionaries(st.sampled_from(["a", "b", "c"]), ch, max_size=3)),
        max_leaves=6,
    )

    @st.composite
    def column(draw, kind, n, shape=None, mixed=False):
        if kind == "number":
            if mixed:
                return draw(st.lists(st.one_of(st.integers(-1000, 1000), nice_float), min_size=n, max_size=n))
            return draw(st.lists(nice_float, min_size=n, max_size=n))
        if kind == "integer":
            return draw(st.lists(st.integers(-(2**62), 2**62), min_size=n, max_size=n))
        if kind == "string":
            return draw(st.lists(text, min_size=n, max_size=n))
        if kind == "boolean":
            return draw(st.lists(st.booleans(), min_size=n, max_size=n))
        # array of fixed shape, homogeneous element type
        elem = st.integers(-1000, 1000) if draw(st.booleans()) else st.floats(min_value=-1e6, max_value=1e6, allow_nan=False)

        def arr(shp):
            if not shp:
                return elem
            return st.lists(arr(shp[1:]), min_size=shp[0], max_size=shp[0])

        return draw(st.lists(arr(shape), min_size=n, max_size=n))

    @st.composite
    def stream(draw, name, reserved=False):
        mode = draw(st.sampled_from(["read", "read", "read", "collect"]))
        ext_names = draw(st.lists(st.sampled_from(_EXT_NAMES), max_size=2, unique=True))
        if mode == "collect" and not ext_names:
            ext_names = ["img"]
        exts = []
        for en in ext_names:
            shape = draw(st.sampled_from([[], [1], [1, 3, 4], [1, 3, 4], [2, 3, 4], [5, 2], [4, 5]]))
            exts.append(
                {
                    "name": en,
                    "shape": shape,
                    "dtype_numpy": draw(st.sampled_from(["<f8", "<i8", "|u1", "<u2"])),
                    "chunk0": draw(st.sampled_from([None, 1, 3, 100])),
                    "join": draw(st.sampled_from([None, None, None, "stack"])),
                    "split": draw(st.booleans()),
                }
            )
        s = {"name": name, "mode": mode, "ext": exts}
        if mode == "collect":
            s["keys"], s["rows"], s["chunks"] = [], [], []
            s["datum_sizes"] = {e["name"]: draw(st.lists(st.integers(1, 4), max_size=6)) for e in exts}
            s["rollover"] = {
                e["name"]: draw(st.one_of(st.none(), st.integers(1, max(1, len(s["datum_sizes"][e["name"]]) - 1))))
                for e in exts
            }
            for en, v in list(s["rollover"].items()):
                if v is not None and v >= len(s["datum_sizes"][en]):
                    s["rollover"][en] = None
            return s
        n = draw(st.sampled_from(list(range(2, max_events + 1)) + [0, 1] + list(range(2, max_events + 1))))
        names = draw(st.lists(st.sampled_from(_INT_NAMES), max_size=3, unique=True))
        if not names and not exts:
            names = ["x"]  # a stream without any data key exercises nothing
        if reserved:
            names.append(draw(st.sampled_from(list(RESERVED))))
        keys, cols = [], {}
        for kn in names:
            kind = draw(st.sampled_from(["number", "number", "integer", "string", "boolean", "array"]))
            k = {"name": kn, "kind": kind}
            if kind == "array":
                k["shape"] = draw(st.sampled_from([[3], [2, 2], [1], [0], [2, 1, 2]]))
            mixed = kind == "number" and draw(st.sampled_from(range(6))) == 3
            keys.append(k)
            cols[kn] = draw(column(kind, n, k.get("shape"), mixed))
        times = draw(st.lists(st.floats(min_value=1.6e9, max_value=1.8e9), min_size=n, max_size=n))
        tss = {kn: draw(st.lists(st.floats(min_value=0, max_value=2e9), min_size=n, max_size=n)) for kn in names}
        s["keys"] = keys
        s["rows"] = [
            {"time": times[i], "data": {kn: cols[kn][i] for kn in names}, "ts": {kn: tss[kn][i] for kn in names}}
            for i in range(n)
        ]
        chunks, left = [], n
        while left:
            k = draw(st.integers(1, min(4, left)))
            chunks.append([draw(st.sampled_from(["event", "event", "page"])), k])
            left -= k
        s["chunks"] = chunks
        s["redescribe_at"] = (
            draw(st.integers(1, len(chunks) - 1)) if len(chunks) >= 2 and draw(st.sampled_from(range(4))) == 2 else None
        )
        return s

    @st.composite
    def cases(draw):
        names = draw(st.lists(st.sampled_from(_STREAM_NAMES), min_size=1, max_size=3, unique=True))
        md = draw(st.dictionaries(st.sampled_from(["k0", "k1", "k2", "plan_args", "note"]), md_value, max_size=4))
        reserved = draw(st.sampled_from(range(24))) == 11  # a data key called 'time' / 'seq_num' (rare)
        if draw(st.booleans()):
            md["scan_id"] = draw(st.integers(0, 10**6))
        if draw(st.booleans()):
            md["plan_name"] = draw(st.sampled_from(["count", "scan", "fly"]))
        return {
            "batch_size": draw(st.sampled_from([2, 3, 1, 0, 10000])),
            "start_md": md,
            "stop": {
                "exit_status": draw(st.sampled_from(["success", "success", "abort", "fail"])),
                "reason": draw(st.sampled_from(["", "user abort", "ValueError('x')"])),
            },
            "streams": [draw(stream(nm, reserved=(reserved and i == 0))) for i, nm in enumerate(names)],
            "order": draw(st.lists(st.integers(0, 5), max_size=40)),
        }

    return cases()


# ------------------------------------------------------------------------------------------
# Replays run in a helper process so that the main process never owns Tiled threads before it forks workers


def _replay_child(case):
    try:
        return ("ok", check_case(case))
    except BaseException as e:  # noqa: BLE001 - reported as a harness error by the parent
        import traceback

        return ("harness", "".join(traceback.format_exception(e)))


def _close_replay_pool():
    if _REPLAY["pool"] is not None and _REPLAY["pid"] == os.getpid():
        try:
            _REPLAY["pool"].terminate()
            _REPLAY["pool"].join()
        except Exception:
            pass
    _REPLAY.update(pool=None, pid=None)


def replay(case):
    if multiprocessing.current_process().daemon:  # inside a pool worker: cannot fork helpers
        return check_case(case)
    if _REPLAY["pool"] is None or _REPLAY["pid"] != os.getpid():
        _base_dir()  # created by (and cleaned up by) this process, inherited by the helper
        _REPLAY["pool"] = multiprocessing.get_context("fork").Pool(1)
        _REPLAY["pid"] = os.getpid()
        atexit.register(_close_replay_pool)
    kind, payload = _REPLAY["pool"].apply(_replay_child, (case,))
    if kind != "ok":
        raise HarnessError(payload)
    return payload


def run(ctx):
    _close_replay_pool()
    _base_dir()
    try:
        # >= 320 examples are needed for the runner to use all 16 worker processes
        n = int(os.environ.get("VERIF_C46_EXAMPLES", "0") or 0) or ctx.pick(336, 6000)
        ctx.hyp(_strategy, check_case, max_examples=n, shrink=not ctx.quick)
    finally:
        _cleanup_base()
    ctx.extra["batch_sizes"] = BATCH_SIZES
    ctx.extra["tiled_version"] = __import__("tiled").__version__
