"""C18 Subscriptions live exactly as long as they were asked to."""

from __future__ import annotations

import itertools
import sys

from ..core import HarnessError, Result, use_repo

use_repo()

ID = "C18"
DESIGN_REF = "DESIGN.md §8 C18"
ENGINE = "E1"
TECHNIQUE = "generated subscribe/unsubscribe/run histories on a real RunEngine against a token->(callable, kind) model, plus an exhaustive sweep of two-subscription histories"
LEVEL_TEXT = (
    "Model-based stateful check on a real RunEngine: for every emitted document the set of callables that received "
    "it must equal the set of callables holding a live subscription (permanent, per-call or in-plan) for that "
    "document kind, over generated histories in which the same callable is routinely subscribed several times; "
    "complete for all histories of two subscriptions of one callable followed by one removal."
)
LEVEL_NOTE = (
    "Exploration beyond the enumerated two-subscription histories. Delivery multiplicity is not asserted; callables "
    "that compare equal are treated as the same callable; weak-reference expiry of bound-method owners is out of scope."
)
RULE = (
    "case = JSON list of operations: sub(f,name) / unsub(token index) / reset / call(per-call subs, plan ops), plan ops "
    "= open / ev / close / psub(f,name) / punsub(token index); callables come from a pool of 6 (two plain functions, two "
    "bound methods of one object re-created at each use, two distinct-but-equal callable objects) drawn with a bias so "
    "repeats are the norm. Non-trivial: some callable held >= 2 live tokens covering a common document kind when one of "
    "them was removed AND a document of that kind was emitted afterwards. Distinct = distinct canonical JSON of the case."
)
ASSUMPTIONS = [
    "in-plan 'unsubscribe' is only applied to live tokens returned by an in-plan 'subscribe' of the same call (documented use)",
    "per-call and in-plan subscriptions are dropped when the next call (or reset) begins, as in the engine; no document is emitted in between, so this is observationally 'the end of their call'",
    "callables comparing equal (two accesses of obj.method; two equal callable objects) are one logical callable",
    "multiplicity (subscribed twice => called twice?) is not asserted, only received at-least-once vs not-at-all",
]

NAMES = ["all", "start", "descriptor", "event", "stop"]
KINDS = ["start", "descriptor", "event", "stop"]
POOL = ["f0", "f1", "m", "o", "e", "e"]  # logical callable of pool entry i (entries 4 and 5 are distinct but equal)


def _covers(name, kind):
    return name == "all" or name == kind


class _Owner:
    def __init__(self, log):
        self._log = log

    def m(self, name, doc):
        self._log.append(("m", name))

    def o(self, name, doc):
        self._log.append(("o", name))


class _EqCallable:
    """Distinct instances compare (and hash) equal."""

    def __init__(self, log, ident):
        self._log = log
        self.ident = ident

    def __call__(self, name, doc):
        self._log.append(("e", name))

    def __eq__(self, other):
        return isinstance(other, _EqCallable)

    def __hash__(self):
        return hash("_EqCallable")


class _Pool:
    def __init__(self, log):
        self.log = log
        self.owner = _Owner(log)  # kept alive for the whole case

        def f0(name, doc):
            log.append(("f0", name))

        def f1(name, doc):
            log.append(("f1", name))

        self.f0, self.f1 = f0, f1
        self.ea, self.eb = _EqCallable(log, "A"), _EqCallable(log, "B")

    def get(self, i):
        i %= len(POOL)
        if i == 0:
            return self.f0
        if i == 1:
            return self.f1
        if i == 2:
            return self.owner.m  # a new bound-method object at every access
        if i == 3:
            return self.owner.o
        return self.ea if i == 4 else self.eb


class _Det:
    name = "det"
    parent = None

    def read(self):
        return {"det": {"value": 1, "timestamp": 0.0}}

    def describe(self):
        return {"det": {"source": "sim", "dtype": "number", "shape": []}}


# ------------------------------------------------------------------------------------------
# the model


class _Model:
    def __init__(self):
        self.tokens = []  # dicts: c, name, scope ('perm'|'call'|'plan'), live
        self.shared_removed = set()  # (c, kind): a token was removed while another live token of c covered kind
        self.shared_removed_ever = False

    def add(self, pool_i, name, scope):
        t = {"c": POOL[pool_i % len(POOL)], "name": name, "scope": scope, "live": True}
        self.tokens.append(t)
        return t

    def remove(self, t):
        if not t["live"]:
            return
        t["live"] = False
        for k in KINDS:
            if _covers(t["name"], k):
                others = [u for u in self.tokens if u["live"] and u["c"] == t["c"] and _covers(u["name"], k)]
                if others:
                    self.shared_removed.add((t["c"], k))
                    self.shared_removed_ever = True
                else:
                    # nothing of c is left for k: a later subscription is a fresh registration
                    self.shared_removed.discard((t["c"], k))

    def remove_all(self):
        for t in self.tokens:
            t["live"] = False
        self.shared_removed.clear()

    def expected(self, kind):
        return sorted({t["c"] for t in self.tokens if t["live"] and _covers(t["name"], kind)})

    def multi(self, c):
        return sum(1 for t in self.tokens if t["live"] and t["c"] == c)


def _stop_engine(RE):
    RE.loop.call_soon_threadsafe(RE.loop.stop)
    RE._th.join(10)
    if RE._th.is_alive():
        raise HarnessError("RunEngine loop thread did not stop")
    try:
        RE.loop.close()
    except Exception:
        pass


def check_case(case) -> Result:
    import logging
    import warnings

    from bluesky.run_engine import RunEngine
    from bluesky.utils import DuringTask, Msg

    logging.getLogger("bluesky").setLevel(logging.CRITICAL + 1)
    sys.setswitchinterval(0.0005)  # loop-thread hand-offs dominate; see c17
    res = Result()
    RE = RunEngine({}, context_managers=[], during_task=DuringTask())
    try:
        with warnings.catch_warnings():
            warnings.simplefilter("ignore")
            _drive(case, RE, Msg, res)
    finally:
        _stop_engine(RE)
    return res


def _drive(case, RE, Msg, res):
    log = []
    pool = _Pool(log)
    model = _Model()
    det = _Det()
    perm = []  # (engine token, model token) of permanent subscriptions, in issue order
    issued = []  # every engine token ever returned
    stats = {"docs": 0, "docs_after_shared_removal": 0, "dup_live_max": 0, "calls": 0, "resets": 0}
    scopes_seen = set()
    pending_temp = []  # model tokens of the previous call's per-call / in-plan subscriptions
    nfail = [0]

    def fail(kind, detail, **feats):
        nfail[0] += 1
        if nfail[0] <= 12:
            res.fail(kind, detail, **feats)

    def note_token(tok, where):
        if tok in issued:
            fail("token_reused", f"{where}: token {tok!r} was already issued earlier on this RunEngine")
        issued.append(tok)

    def compare(step_desc, expected_by_kind, entries):
        """entries: log entries produced by one document-producing step."""
        got_by_kind = {}
        for c, name in entries:
            got_by_kind.setdefault(name, set()).add(c)
        for name in got_by_kind:
            if name not in expected_by_kind:
                fail("unexpected_document_kind", f"{step_desc}: callbacks received a {name!r} document not produced by this step")
        for kind, (exp, flagged, scopes) in expected_by_kind.items():
            got = got_by_kind.get(kind, set())
            for c in sorted(set(exp) - got):
                fail(
                    "silenced",
                    f"{step_desc}: callable {c!r} holds a live subscription for {kind!r} but did not receive the document "
                    f"(received by {sorted(got)}, expected {exp})",
                    removed_while_shared=(c, kind) in flagged,
                    callable=c,
                )
            for c in sorted(got - set(exp)):
                fail(
                    "spurious",
                    f"{step_desc}: callable {c!r} received a {kind!r} document with no live subscription "
                    f"(received by {sorted(got)}, expected {exp})",
                    callable=c,
                )

    for oi, op in enumerate(case["ops"]):
        kind = op["op"]
        if kind == "sub":
            tok = RE.subscribe(pool.get(op["f"]), op["name"])
            note_token(tok, f"op {oi} subscribe")
            perm.append((tok, model.add(op["f"], op["name"], "perm")))
            scopes_seen.add("perm")
        elif kind == "unsub":
            if not perm:
                continue
            tok, mt = perm[op["t"] % len(perm)]
            RE.unsubscribe(tok)  # may be a token that was unsubscribed before: documented no-op
            model.remove(mt)
        elif kind == "reset":
            RE.reset()
            model.remove_all()
            pending_temp.clear()
            stats["resets"] += 1
        elif kind == "call":
            stats["calls"] += 1
            for mt in pending_temp:
                model.remove(mt)
            pending_temp.clear()
            # per-call subscriptions
            call_tokens = []
            subs_pairs = [(int(f), n) for f, n in op.get("subs", [])]
            form = op.get("subs_form", "dict")
            if not subs_pairs:
                subs_arg = None
            elif form == "single" and len(subs_pairs) == 1 and subs_pairs[0][1] == "all":
                subs_arg = pool.get(subs_pairs[0][0])
            elif form == "list" and all(n == "all" for _, n in subs_pairs):
                subs_arg = [pool.get(f) for f, _ in subs_pairs]
            else:
                subs_arg = {}
                for f, n in subs_pairs:
                    subs_arg.setdefault(n, []).append(pool.get(f))
            for f, n in subs_pairs:
                call_tokens.append(model.add(f, n, "call"))
                scopes_seen.add("call")

            steps = []  # (description, expected_by_kind, log index at marker)
            plan_tokens = []  # (engine token, model token) live in-plan tokens
            plan_err = []

            def plan(op=op, steps=steps, plan_tokens=plan_tokens, call_tokens=call_tokens, oi=oi):
                run_open = False
                have_desc = False

                def snap(kinds):
                    flagged = set(model.shared_removed)
                    return {k: (model.expected(k), flagged, None) for k in kinds}

                for pi, pop in enumerate(op["plan"]):
                    p = pop["op"]
                    where = f"op {oi} plan step {pi} ({p})"
                    if p == "psub":
                        tok = yield Msg("subscribe", None, pool.get(pop["f"]), pop["name"])
                        note_token(tok, where)
                        plan_tokens.append((tok, model.add(pop["f"], pop["name"], "plan")))
                        scopes_seen.add("plan")
                    elif p == "punsub":
                        if not plan_tokens:
                            continue
                        tok, mt = plan_tokens.pop(pop["t"] % len(plan_tokens))
                        if pop.get("form", "kw") == "kw":
                            yield Msg("unsubscribe", token=tok)
                        else:
                            yield Msg("unsubscribe", None, tok)
                        model.remove(mt)
                    elif p == "open":
                        if run_open:
                            continue
                        steps.append((where, snap(["start"]), len(log)))
                        yield Msg("open_run")
                        run_open, have_desc = True, False
                    elif p == "ev":
                        if not run_open:
                            continue
                        yield Msg("create", name="primary")
                        yield Msg("read", det)
                        steps.append((where, snap(["event"] if have_desc else ["descriptor", "event"]), len(log)))
                        yield Msg("save")
                        have_desc = True
                    elif p == "close":
                        if not run_open:
                            continue
                        steps.append((where, snap(["stop"]), len(log)))
                        yield Msg("close_run")
                        run_open = False
                if run_open:
                    steps.append((f"op {oi} final close", snap(["stop"]), len(log)))
                    yield Msg("close_run")
                steps.append(("end", {}, len(log)))

            try:
                RE(plan(), subs_arg)
            except Exception as e:  # nothing in these plans may fail
                fail("call_raised", f"op {oi}: RE(...) raised {type(e).__name__}: {e}")
                plan_err.append(e)
            if RE.state != "idle":
                raise HarnessError(f"RunEngine left in state {RE.state}")
            if not plan_err:
                for (desc, exp, start), (_, _, end) in zip(steps, steps[1:]):
                    stats["docs"] += len(exp)
                    if model.shared_removed_ever:
                        for k, (_, flagged, _) in exp.items():
                            if any(fk == k for _, fk in flagged):
                                stats["docs_after_shared_removal"] += 1
                    compare(desc, exp, log[start:end])
            # end of the call: per-call and in-plan subscriptions are over.  The engine drops them when the
            # next call begins (no document can be emitted in between), the model does the same so that
            # "removed while another token of the same callable was live" is judged at the same moment.
            pending_temp.extend(call_tokens)
            pending_temp.extend(mt for _, mt in plan_tokens)
        else:
            raise HarnessError(f"unknown op {kind}")
        for c in set(POOL):
            stats["dup_live_max"] = max(stats["dup_live_max"], model.multi(c))

    res.nontrivial = stats["docs_after_shared_removal"] > 0
    res.klass = f"dup_live_max={min(stats['dup_live_max'], 4)}"
    res.classes.append("scopes=" + "+".join(sorted(scopes_seen)) if scopes_seen else "scopes=none")
    res.classes.append(f"calls={min(stats['calls'], 4)}")
    if stats["resets"]:
        res.classes.append("with_reset")
    res.classes.append("shared_removal_then_docs" if res.nontrivial else "no_shared_removal_observed")
    return res


# ------------------------------------------------------------------------------------------


def _enumerated_cases():
    """Every history 'subscribe one callable twice (any two names, any two scopes), remove one, emit a run'."""
    run_plan = [{"op": "open"}, {"op": "ev"}, {"op": "ev"}, {"op": "close"}]
    pairs = [(0, 0), (2, 2), (4, 5), (4, 4)]  # plain function twice, obj.m twice, equal-but-distinct pair, same object
    for (fa, fb), n1, n2 in itertools.product(pairs, NAMES, NAMES):
        # permanent + permanent, unsubscribe either
        for t in (0, 1):
            yield {
                "ops": [
                    {"op": "sub", "f": fa, "name": n1},
                    {"op": "sub", "f": fb, "name": n2},
                    {"op": "unsub", "t": t},
                    {"op": "call", "subs": [], "plan": run_plan},
                ]
            }
        # permanent + per-call: the permanent one must survive into the next call
        yield {
            "ops": [
                {"op": "sub", "f": fa, "name": n1},
                {"op": "call", "subs": [[fb, n2]], "subs_form": "dict", "plan": run_plan},
                {"op": "call", "subs": [], "plan": run_plan},
            ]
        }
        # permanent + in-plan subscribe, unsubscribed in the plan, then more documents in the same call
        yield {
            "ops": [
                {"op": "sub", "f": fa, "name": n1},
                {
                    "op": "call",
                    "subs": [],
                    "plan": [{"op": "psub", "f": fb, "name": n2}] + run_plan + [{"op": "punsub", "t": 0, "form": "kw"}] + run_plan,
                },
                {"op": "call", "subs": [], "plan": run_plan},
            ]
        }
        # per-call + in-plan in one call, in-plan one removed mid-call
        yield {
            "ops": [
                {
                    "op": "call",
                    "subs": [[fa, n1]],
                    "subs_form": "dict",
                    "plan": [{"op": "psub", "f": fb, "name": n2}, {"op": "open"}, {"op": "ev"}, {"op": "punsub", "t": 0, "form": "pos"}]
                    + [{"op": "ev"}, {"op": "close"}],
                },
                {"op": "call", "subs": [], "plan": run_plan},
            ]
        }


def _strategy():
    from hypothesis import strategies as st

    pool_i = st.sampled_from([0, 0, 0, 0, 2, 2, 2, 4, 5, 4, 5, 1, 3])
    name = st.sampled_from(["all", "all", "all", "event", "start", "stop", "descriptor"])
    psub = st.fixed_dictionaries({"op": st.just("psub"), "f": pool_i, "name": name})
    punsub = st.fixed_dictionaries({"op": st.just("punsub"), "t": st.integers(0, 3), "form": st.sampled_from(["kw", "pos"])})
    simple = st.sampled_from([{"op": "open"}, {"op": "ev"}, {"op": "ev"}, {"op": "close"}])
    by_ptag = {"simple": simple, "psub": psub, "punsub": punsub}
    plan_op = st.sampled_from(["simple", "simple", "simple", "psub", "psub", "punsub"]).flatmap(by_ptag.__getitem__)
    plan = st.lists(plan_op, min_size=1, max_size=9).map(
        lambda ops: ops if any(o["op"] == "open" for o in ops) else [{"op": "open"}, {"op": "ev"}] + ops
    )
    call = st.fixed_dictionaries(
        {
            "op": st.just("call"),
            "subs": st.lists(st.tuples(pool_i, name).map(list), max_size=3),
            "subs_form": st.sampled_from(["dict", "list", "single"]),
            "plan": plan,
        }
    )
    sub = st.fixed_dictionaries({"op": st.just("sub"), "f": pool_i, "name": name})
    unsub = st.fixed_dictionaries({"op": st.just("unsub"), "t": st.integers(0, 5)})
    reset = st.just({"op": "reset"})
    # weights via sampled_from + flatmap (one_of de-duplicates repeated strategies)
    by_tag = {"sub": sub, "unsub": unsub, "call": call, "reset": reset}
    op = st.sampled_from(["sub"] * 6 + ["unsub"] * 4 + ["call"] * 7 + ["reset"]).flatmap(by_tag.__getitem__)
    return st.lists(op, min_size=2, max_size=12).map(
        lambda ops: {"ops": ops if any(o["op"] == "call" for o in ops) else ops + [{"op": "call", "subs": [], "plan": [{"op": "open"}, {"op": "ev"}]}]}
    )


def run(ctx):
    cases = list(_enumerated_cases())
    ctx.sweep(cases, check_case)
    ctx.extra["enumerated_two_subscription_histories"] = len(cases)
    ctx.extra["enumerated_part"] = (
        "one callable (function / bound method / equal pair / same object) subscribed twice with every pair of names in "
        "the scope pairs perm+perm, perm+per-call, perm+in-plan, per-call+in-plan, one removal, then runs"
    )
    ctx.hyp(_strategy, check_case, max_examples=ctx.pick(2000, 40000))


def replay(case):
    return check_case(case)
