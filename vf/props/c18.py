"""C18 Subscriptions live exactly as long as they were asked to."""

from __future__ import annotations

import itertools
import sys

from ..core import HarnessError, Result, use_repo

use_repo()

ID = "C18"
DESIGN_REF = "DESIGN.md §8 C18"
ENGINE = "E1"
TECHNIQUE = "generated subscribe/unsubscribe/run histories on a real RunEngine against a token->(callable, kind) model, plus an exhaustive sweep of two-subscription histories"
LEVEL_TEXT = (
    "Model-based stateful check on a real RunEngine: for every emitted document the set of callables that received "
    "it must equal the set of callables holding a live subscription (permanent, per-call or in-plan) for that "
    "document kind, over generated histories in which the same callable is routinely subscribed several times; "
    "complete for all histories of two subscriptions of one callable followed by one removal."
)
LEVEL_NOTE = (
    "Exploration beyond the enumerated two-subscription histories. Delivery multiplicity is not asserted; callables "
    "that compare equal are treated as the same callable; weak-reference expiry of bound-method owners is out of scope."
)
RULE = (
    "case = JSON list of operations: sub(f,name) / unsub(token index) / reset / call(per-call subs, plan ops), plan ops "
    "= open / ev / close / psub(f,name) / punsub(token index); callables come from a pool of 6 (two plain functions, two "
    "bound methods of one object re-created at each use, two distinct-but-equal callable objects) drawn with a bias so "
    "repeats are the norm. Non-trivial: some callable held >= 2 live tokens covering a common document kind when one of "
    "them was removed AND a document of that kind was emitted afterwards. Distinct = distinct canonical JSON of the case."
)
ASSUMPTIONS = [
    "in-plan 'unsubscribe' is only applied to live tokens returned by an in-plan 'subscribe' of the same call (documented use)",
    "per-call and in-plan subscriptions are dropped when the next call (or reset) begins, as in the engine; no document is emitted in between, so this is observationally 'the end of their call'",
    "callables comparing equal (two accesses of obj.method; two equal callable objects) are one logical callable",
    "multiplicity (subscribed twice => called twice?) is not asserted, only received at-least-once vs not-at-all",
]

NAMES = ["all", "start", "descriptor", "event", "stop"]
KINDS = ["start", "descriptor", "event", "stop"]
POOL = ["f0", "f1", "m", "o", "e", "e"]  # logical callable of pool entry i (entries 4 and 5 are distinct but equal)


def _covers(name, kind):
    return name == "all" or name == kind


class _Owner:
    def __init__(self, log):
        self._log = log

    def m(self, name, doc):
        self._log.append(("m", name))

    def o(self, name, doc):
        self._log.append(("o", name))


class _EqCallable:
    """Distinct instances compare (and hash) equal."""

    def __init__(self, log, ident):
        self._log = log
        self.ident = ident

    def __call__(self, name, doc):
        self._log.append(("e", name))

    def __eq__(self, other):
        return isinstance(other, _EqCallable)

    def __hash__(self):
        return hash("_EqCallable")


class _Pool:
    def __init__(self, log):
        self.log = log
        self.owner = _Owner(log)  # kept alive for the whole case

        def f0(name, doc):
            log.append(("f0", name))

        def f1(name, doc):
            log.append(("f1", name))

        self.f0, self.f1 = f0, f1
        self.ea, self.eb = _EqCallable(log, "A"), _EqCallable(log, "B")

    def get(self, i):
        i %= len(POOL)
        if i == 0:
            return self.f0
        if i == 1:
            return self.f1
        if i == 2:
            return self.owner.m  # a new bound-method object at every access
        if i == 3:
            return self.owner.o
        return self.ea if i == 4 else self.eb


class _Det:
    name = "det"
    parent = None

    def read(self):
        return {"det": {"value": 1, "timestamp": 0.0}}

    def describe(self):
        return {"det": {"source": "sim", "dtype": "number", "shape": []}}


# ------------------------------------------------------------------------------------------
# the model


class _Model:
    def __init__(self):
        self.tokens = []  # dicts: c, name, scope ('perm'|'call'|'plan'), live
        self.shared_removed = set()  # (c, kind): a token was removed while another live token of c covered kind
        self.shared_removed_ever = False

    def add(self, pool_i, name, scope):
        t = {"c": POOL[pool_i % len(POOL)], "name": name, "scope": scope, "live": True}
        self.tokens.append(t)
        return t

    def remove(self, t):
        if not t["live"]:
            return
        t["live"] = False
        for k in KINDS:
            if _covers(t["name"], k):
                others = [u for u in self.tokens if u["live"] and u["c"] == t["c"] and _covers(u["name"], k)]
                if others:
                    self.shared_removed.add((t["c"], k))
                    self.shared_removed_ever = True
                else:
                    # nothing of c is left for k: a later subscription is a fresh registration
                    self.shared_removed.discard((t["c"], k))

    def remove_all(self):
        for t in self.tokens:
            t["live"] = False
        self.shared_removed.clear()

    def expected(self, kind):
        return sorted({t["c"] for t in self.tokens if t["live"] and _covers(t["name"], kind)})

    def multi(self, c):
        return sum(1 for t in self.tokens if t["live"] and t["c"] == c)


def _stop_engine(RE):
    RE.loop.call_soon_threadsafe(RE.loop.stop)
    RE._th.join(10)
    if RE._th.is_alive():
        raise HarnessError("RunEngine loop thread did not stop")
    try:
        RE.loop.close()
    except Exception:
        pass


# ------------------------------------------------------------------------------------------
# (un)subscribe from inside a document callback, while a document of that very kind is being dispatched

RE_ACTIONS = ["resub", "sub_then_unsub", "unsub", "sub"]


def _check_reentrant(spec) -> Result:
    """A permanent 'driver' callback, at its first ``trig`` document, changes the subscriptions of a target callable.

    Oracle: every document emitted strictly after the dispatch in which the change was made reaches the target iff
    the target then holds a live token covering the document kind; documents before it follow the initial
    subscription; the driver (a different subscription) receives every ``trig`` document of every run.  The document
    being dispatched when the change is made is not judged for the target (delivery order within one dispatch is
    not part of the property).
    """
    import logging
    import warnings

    from bluesky.run_engine import RunEngine
    from bluesky.utils import DuringTask, Msg

    logging.getLogger("bluesky").setLevel(logging.CRITICAL + 1)
    sys.setswitchinterval(0.0005)
    res = Result()
    action, n1, n2, trig = spec["action"], spec["n1"], spec["n2"], spec["trig"]
    RE = RunEngine({}, context_managers=[], during_task=DuringTask())
    try:
        log = []  # (callable, kind) in delivery order; ("#", kind) marks the driver's deliveries
        pool = _Pool(log)
        det = _Det()
        state = {"tok": None, "done": False, "mark": None, "err": None}

        def driver(name, doc):
            log.append(("#", name))
            if state["done"]:
                return
            state["done"] = True
            try:
                if action == "resub":
                    RE.unsubscribe(state["tok"])
                    state["tok"] = RE.subscribe(pool.get(spec["f"]), n2)
                elif action == "sub_then_unsub":
                    old = state["tok"]
                    state["tok"] = RE.subscribe(pool.get(spec["f"]), n2)
                    RE.unsubscribe(old)
                elif action == "unsub":
                    RE.unsubscribe(state["tok"])
                    state["tok"] = None
                else:
                    state["tok"] = RE.subscribe(pool.get(spec["f"]), n2)
            except Exception as e:  # noqa: BLE001
                state["err"] = e
            state["mark"] = len(log)

        if spec["order"] == "driver_first":
            dtok = RE.subscribe(driver, trig)
        if action != "sub":
            state["tok"] = RE.subscribe(pool.get(spec["f"]), n1)
        if spec["order"] != "driver_first":
            dtok = RE.subscribe(driver, trig)

        emitted = []  # (kind, log index just before the emitting message)

        def one_run():
            emitted.append(("start", len(log)))
            yield Msg("open_run")
            for i in range(2):
                yield Msg("create", name="primary")
                yield Msg("read", det)
                if i == 0:
                    emitted.append(("descriptor", len(log)))
                emitted.append(("event", len(log)))
                yield Msg("save")
            emitted.append(("stop", len(log)))
            yield Msg("close_run")

        def two_runs():
            yield from one_run()
            yield from one_run()

        with warnings.catch_warnings():
            warnings.simplefilter("ignore")
            try:
                RE(two_runs())
                RE(one_run())
            except Exception as e:  # noqa: BLE001
                res.fail("call_raised", f"RE(...) raised {type(e).__name__}: {e}")
                return res
        if RE.state != "idle":
            raise HarnessError(f"RunEngine left in state {RE.state}")
        if state["err"] is not None:
            res.fail("subscribe_in_callback_raised", f"{action} inside the driver callback raised {state['err']!r}")
            return res
        if state["mark"] is None:
            raise HarnessError("driver callback was never called")
        c = POOL[spec["f"] % len(POOL)]
        before = None if action == "sub" else n1
        after = None if action == "unsub" else n2
        # deliveries per emitted document: descriptor and first event come from one 'save'
        bounds = [i for _, i in emitted] + [len(log)]
        judged_after = 0
        seen_trigger = False
        for ei, (kind, start) in enumerate(emitted):
            # the descriptor and the first event are both emitted by the 'save' that follows their common marker
            end = bounds[ei + 2] if kind == "descriptor" else bounds[ei + 1]
            seg = [e for e in log[start:end] if e[1] == kind]
            got_driver = ("#", kind) in seg
            if kind == trig and not got_driver:
                res.fail("silenced", f"driver subscribed to {trig!r} did not receive the {kind!r} document emitted at log index {start}", callable="driver")
            is_trigger_doc = kind == trig and not seen_trigger
            if is_trigger_doc:
                seen_trigger = True
                continue
            live = after if seen_trigger else before
            exp = live is not None and _covers(live, kind)
            got = (c, kind) in seg
            if seen_trigger:
                judged_after += 1
            if exp and not got:
                res.fail(
                    "silenced",
                    f"{c!r} holds a live subscription ({live!r}, made {'inside a ' + trig + ' callback' if seen_trigger else 'before the call'}) "
                    f"but did not receive the {kind!r} document emitted at log index {start}",
                    callable=c,
                    from_inside_callback=seen_trigger,
                )
            elif got and not exp:
                res.fail(
                    "spurious",
                    f"{c!r} received a {kind!r} document at log index {start} with no live subscription covering it "
                    f"(live: {live!r}; changed inside a {trig!r} callback: {seen_trigger})",
                    callable=c,
                    from_inside_callback=seen_trigger,
                )
        RE.unsubscribe(dtok)
        res.nontrivial = judged_after > 0 and action != "sub"
        res.klass = f"reentrant:{action}"
        res.classes.append("reentrant_in_callback")
        res.classes.append(f"trig={trig}")
    finally:
        _stop_engine(RE)
    return res


def _reentrant_cases(quick):
    fs = [0, 2] if quick else [0, 2, 4]
    for f, n1, n2, trig, order, action in itertools.product(fs, NAMES, NAMES, KINDS, ["driver_first", "target_first"], RE_ACTIONS):
        if action == "unsub" and n2 != "all":
            continue  # n2 unused
        if action == "sub" and n1 != "all":
            continue  # n1 unused
        yield {"reentrant": {"f": f, "n1": n1, "n2": n2, "trig": trig, "order": order, "action": action}}


def check_case(case) -> Result:
    if "reentrant" in case:
        return _check_reentrant(case["reentrant"])
    import logging
    import warnings

    from bluesky.run_engine import RunEngine
    from bluesky.utils import DuringTask, Msg

    logging.getLogger("bluesky").setLevel(logging.CRITICAL + 1)
    sys.setswitchinterval(0.0005)  # loop-thread hand-offs dominate; see c17
    res = Result()
    RE = RunEngine({}, context_managers=[], during_task=DuringTask())
    try:
        with warnings.catch_warnings():
            warnings.simplefilter("ignore")
            _drive(case, RE, Msg, res)
    finally:
        _stop_engine(RE)
    return res


def _drive(case, RE, Msg, res):
    log = []
    pool = _Pool(log)
    model = _Model()
    det = _Det()
    perm = []  # (engine token, model token) of permanent subscriptions, in issue order
    issued = []  # every engine token ever returned
    stats = {"docs": 0, "docs_after_shared_removal": 0, "dup_live_max": 0, "calls": 0, "resets": 0}
    scopes_seen = set()
    pending_temp = []  # model tokens of the previous call's per-call / in-plan subscriptions
    nfail = [0]

    def fail(kind, detail, **feats):
        nfail[0] += 1
        if nfail[0] <= 12:
            res.fail(kind, detail, **feats)

    def note_token(tok, where):
        if tok in issued:
            fail("token_reused", f"{where}: token {tok!r} was already issued earlier on this RunEngine")
        issued.append(tok)

    def compare(step_desc, expected_by_kind, entries):
        """entries: log entries produced by one document-producing step."""
        got_by_kind = {}
        for c, name in entries:
            got_by_kind.setdefault(name, set()).add(c)
        for name in got_by_kind:
            if name not in expected_by_kind:
                fail("unexpected_document_kind", f"{step_desc}: callbacks received a {name!r} document not produced by this step")
        for kind, (exp, flagged, scopes) in expected_by_kind.items():
            got = got_by_kind.get(kind, set())
            for c in sorted(set(exp) - got):
                fail(
                    "silenced",
                    f"{step_desc}: callable {c!r} holds a live subscription for {kind!r} but did not receive the document "
                    f"(received by {sorted(got)}, expected {exp})",
                    removed_while_shared=(c, kind) in flagged,
                    callable=c,
                )
            for c in sorted(got - set(exp)):
                fail(
                    "spurious",
                    f"{step_desc}: callable {c!r} received a {kind!r} document with no live subscription "
                    f"(received by {sorted(got)}, expected {exp})",
                    callable=c,
                )

    for oi, op in enumerate(case["ops"]):
        kind = op["op"]
        if kind == "sub":
            tok = RE.subscribe(pool.get(op["f"]), op["name"])
            note_token(tok, f"op {oi} subscribe")
            perm.append((tok, model.add(op["f"], op["name"], "perm")))
            scopes_seen.add("perm")
        elif kind == "unsub":
            if not perm:
                continue
            tok, mt = perm[op["t"] % len(perm)]
            RE.unsubscribe(tok)  # may be a token that was unsubscribed before: documented no-op
            model.remove(mt)
        elif kind == "reset":
            RE.reset()
            model.remove_all()
            pending_temp.clear()
            stats["resets"] += 1
        elif kind == "call":
            stats["calls"] += 1
            for mt in pending_temp:
                model.remove(mt)
            pending_temp.clear()
            # per-call subscriptions
            call_tokens = []
            subs_pairs = [(int(f), n) for f, n in op.get("subs", [])]
            form = op.get("subs_form", "dict")
            if not subs_pairs:
                subs_arg = None
            elif form == "single" and len(subs_pairs) == 1 and subs_pairs[0][1] == "all":
                subs_arg = pool.get(subs_pairs[0][0])
            elif form == "list" and all(n == "all" for _, n in subs_pairs):
                subs_arg = [pool.get(f) for f, _ in subs_pairs]
            else:
                subs_arg = {}
                for f, n in subs_pairs:
                    subs_arg.setdefault(n, []).append(pool.get(f))
            for f, n in subs_pairs:
                call_tokens.append(model.add(f, n, "call"))
                scopes_seen.add("call")

            steps = []  # (description, expected_by_kind, log index at marker)
            plan_tokens = []  # (engine token, model token) live in-plan tokens
            plan_err = []

            def plan(op=op, steps=steps, plan_tokens=plan_tokens, call_tokens=call_tokens, oi=oi):
                run_open = False
                have_desc = False

                def snap(kinds):
                    flagged = set(model.shared_removed)
                    return {k: (model.expected(k), flagged, None) for k in kinds}

                for pi, pop in enumerate(op["plan"]):
                    p = pop["op"]
                    where = f"op {oi} plan step {pi} ({p})"
                    if p == "psub":
                        tok = yield Msg("subscribe", None, pool.get(pop["f"]), pop["name"])
                        note_token(tok, where)
                        plan_tokens.append((tok, model.add(pop["f"], pop["name"], "plan")))
                        scopes_seen.add("plan")
                    elif p == "punsub":
                        if not plan_tokens:
                            continue
                        tok, mt = plan_tokens.pop(pop["t"] % len(plan_tokens))
                        if pop.get("form", "kw") == "kw":
                            yield Msg("unsubscribe", token=tok)
                        else:
                            yield Msg("unsubscribe", None, tok)
                        model.remove(mt)
                    elif p == "open":
                        if run_open:
                            continue
                        steps.append((where, snap(["start"]), len(log)))
                        yield Msg("open_run")
                        run_open, have_desc = True, False
                    elif p == "ev":
                        if not run_open:
                            continue
                        yield Msg("create", name="primary")
                        yield Msg("read", det)
                        steps.append((where, snap(["event"] if have_desc else ["descriptor", "event"]), len(log)))
                        yield Msg("save")
                        have_desc = True
                    elif p == "close":
                        if not run_open:
                            continue
                        steps.append((where, snap(["stop"]), len(log)))
                        yield Msg("close_run")
                        run_open = False
                if run_open:
                    steps.append((f"op {oi} final close", snap(["stop"]), len(log)))
                    yield Msg("close_run")
                steps.append(("end", {}, len(log)))

            try:
                RE(plan(), subs_arg)
            except Exception as e:  # nothing in these plans may fail
                fail("call_raised", f"op {oi}: RE(...) raised {type(e).__name__}: {e}")
                plan_err.append(e)
            if RE.state != "idle":
                raise HarnessError(f"RunEngine left in state {RE.state}")
            if not plan_err:
                for (desc, exp, start), (_, _, end) in zip(steps, steps[1:]):
                    stats["docs"] += len(exp)
                    if model.shared_removed_ever:
                        for k, (_, flagged, _) in exp.items():
                            if any(fk == k for _, fk in flagged):
                                stats["docs_after_shared_removal"] += 1
                    compare(desc, exp, log[start:end])
            # end of the call: per-call and in-plan subscriptions are over.  The engine drops them when the
            # next call begins (no document can be emitted in between), the model does the same so that
            # "removed while another token of the same callable was live" is judged at the same moment.
            pending_temp.extend(call_tokens)
            pending_temp.extend(mt for _, mt in plan_tokens)
        else:
            raise HarnessError(f"unknown op {kind}")
        for c in set(POOL):
            stats["dup_live_max"] = max(stats["dup_live_max"], model.multi(c))

    res.nontrivial = stats["docs_after_shared_removal"] > 0
    res.klass = f"dup_live_max={min(stats['dup_live_max'], 4)}"
    res.classes.append("scopes=" + "+".join(sorted(scopes_seen)) if scopes_seen else "scopes=none")
    res.classes.append(f"calls={min(stats['calls'], 4)}")
    if stats["resets"]:
        res.classes.append("with_reset")
    res.classes.append("shared_removal_then_docs" if res.nontrivial else "no_shared_removal_observed")
    return res


# ------------------------------------------------------------------------------------------


def _enumerated_cases():
    """Every history 'subscribe one callable twice (any two names, any two scopes), remove one, emit a run'."""
    run_plan = [{"op": "open"}, {"op": "ev"}, {"op": "ev"}, {"op": "close"}]
    pairs = [(0, 0), (2, 2), (4, 5), (4, 4)]  # plain function twice, obj.m twice, equal-but-distinct pair, same object
    for (fa, fb), n1, n2 in itertools.product(pairs, NAMES, NAMES):
        # permanent + permanent, unsubscribe either
        for t in (0, 1):
            yield {
                "ops": [
                    {"op": "sub", "f": fa, "name": n1},
                    {"op": "sub", "f": fb, "name": n2},
                    {"op": "unsub", "t": t},
                    {"op": "call", "subs": [], "plan": run_plan},
                ]
            }
        # permanent + per-call: the permanent one must survive into the next call
        yield {
            "ops": [
                {"op": "sub", "f": fa, "name": n1},
                {"op": "call", "subs": [[fb, n2]], "subs_form": "dict", "plan": run_plan},
                {"op": "call", "subs": [], "plan": run_plan},
            ]
        }
        # permanent + in-plan subscribe, unsubscribed in the plan, then more documents in the same call
        yield {
            "ops": [
                {"op": "sub", "f": fa, "name": n1},
                {
                    "op": "call",
                    "subs": [],
                    "plan": [{"op": "psub", "f": fb, "name": n2}] + run_plan + [{"op": "punsub", "t": 0, "form": "kw"}] + run_plan,
                },
                {"op": "call", "subs": [], "plan": run_plan},
            ]
        }
        # per-call + in-plan in one call, in-plan one removed mid-call
        yield {
            "ops": [
                {
                    "op": "call",
                    "subs": [[fa, n1]],
                    "subs_form": "dict",
                    "plan": [{"op": "psub", "f": fb, "name": n2}, {"op": "open"}, {"op": "ev"}, {"op": "punsub", "t": 0, "form": "pos"}]
                    + [{"op": "ev"}, {"op": "close"}],
                },
                {"op": "call", "subs": [], "plan": run_plan},
            ]
        }


def _strategy():
    from hypothesis import strategies as st

    pool_i = st.sampled_from([0, 0, 0, 0, 2, 2, 2, 4, 5, 4, 5, 1, 3])
    name = st.sampled_from(["all", "all", "all", "event", "start", "stop", "descriptor"])
    psub = st.fixed_dictionaries({"op": st.just("psub"), "f": pool_i, "name": name})
    punsub = st.fixed_dictionaries({"op": st.just("punsub"), "t": st.integers(0, 3), "form": st.sampled_from(["kw", "pos"])})
    simple = st.sampled_from([{"op": "open"}, {"op": "ev"}, {"op": "ev"}, {"op": "close"}])
    by_ptag = {"simple": simple, "psub": psub, "punsub": punsub}
    plan_op = st.sampled_from(["simple", "simple", "simple", "psub", "psub", "punsub"]).flatmap(by_ptag.__getitem__)
    plan = st.lists(plan_op, min_size=1, max_size=9).map(
        lambda ops: ops if any(o["op"] == "open" for o in ops) else [{"op": "open"}, {"op": "ev"}] + ops
    )
    call = st.fixed_dictionaries(
        {
            "op": st.just("call"),
            "subs": st.lists(st.tuples(pool_i, name).map(list), max_size=3),
            "subs_form": st.sampled_from(["dict", "list", "single"]),
            "plan": plan,
        }
    )
    sub = st.fixed_dictionaries({"op": st.just("sub"), "f": pool_i, "name": name})
    unsub = st.fixed_dictionaries({"op": st.just("unsub"), "t": st.integers(0, 5)})
    reset = st.just({"op": "reset"})
    # weights via sampled_from + flatmap (one_of de-duplicates repeated strategies)
    by_tag = {"sub": sub, "unsub": unsub, "call": call, "reset": reset}
    op = st.sampled_from(["sub"] * 6 + ["unsub"] * 4 + ["call"] * 7 + ["reset"]).flatmap(by_tag.__getitem__)
    return st.lists(op, min_size=2, max_size=12).map(
        lambda ops: {"ops": ops if any(o["op"] == "call" for o in ops) else ops + [{"op": "call", "subs": [], "plan": [{"op": "open"}, {"op": "ev"}]}]}
    )


def run(ctx):
    cases = list(_enumerated_cases())
    ctx.sweep(cases, check_case)
    ctx.extra["enumerated_two_subscription_histories"] = len(cases)
    ctx.extra["enumerated_part"] = (
        "one callable (function / bound method / equal pair / same object) subscribed twice with every pair of names in "
        "the scope pairs perm+perm, perm+per-call, perm+in-plan, per-call+in-plan, one removal, then runs"
    )
    rcases = list(_reentrant_cases(ctx.tier == "quick"))
    ctx.sweep(rcases, check_case)
    ctx.extra["enumerated_reentrant_histories"] = len(rcases)
    ctx.extra["reentrant_part"] = (
        "a permanent driver callback that, while its first start/descriptor/event/stop document is being dispatched, "
        "re-subscribes (unsubscribe+subscribe, or subscribe+unsubscribe), unsubscribes or subscribes a target callable "
        "(plain function / bound method / equal callable object) for every pair of names and both registration orders; "
        "three runs in two calls follow"
    )
    ctx.hyp(_strategy, check_case, max_examples=ctx.pick(2000, 40000))


def replay(case):
    return check_case(case)
