"""C11 Suspension holds the plan until release, then runs post-plan and rewinds."""

from __future__ import annotations

from ..core import use_repo

use_repo()

from ..engine import corpus, e1common, e1oracles  # noqa: E402

ID = "C11"
ENGINE = "E1"
DESIGN_REF = "DESIGN.md §8 C11"
TECHNIQUE = "schedule enumeration of request_suspend at every loop-callback boundary with generated pre/post plans and virtual-time releases, overlapping suspensions and pause+resume during the wait; Hypothesis-generated plans; trace predicate over msg_hook, device ledger and release markers + the C04 replay model"
LEVEL_TEXT = (
    "RE.request_suspend is called on the loop thread (the production path of suspenders) at every callback boundary; the "
    "release is a harness-owned asyncio.Event set at a recorded virtual time. Between the _start_suspender message and the "
    "recorded release no message of the plan under test may execute (only the helper's rewindable/pre-plan/wait_for), every "
    "device set so far must be stopped before the wait, after release _resume_from_suspender, the post-plan and the replay "
    "predicted by the C04 model must follow, all within one blocking call, and the justification must be recorded."
)
LEVEL_NOTE = "Suspensions combined with a pause or a second suspension inside the wait are judged only on 'no plan message before release' and motor stops."
RULE = (
    "case = (plan, suspend injection(s) with pre/post/justification/release time, optional pause during the wait). Sweep "
    "over the corpus at every callback boundary (2 variants) + pause-during-wait and double-suspension slices; Hypothesis "
    "profile 'suspend'. Non-trivial: at least one motor had been moved and the replay cache was non-empty at the trip. "
    "Distinct = canonical JSON."
)
ASSUMPTIONS = ["requests arrive at boundaries between event-loop callbacks", "release = asyncio.Event.set at a harness-recorded virtual time"]

check_case = e1common.make_check(e1oracles.oracle_c11)


def extra_cases(names, step):
    for name in names:
        n = corpus.n_handles(name)
        for k in range(0, n + 2, step):
            # hard pause + resume during the suspension wait
            c = corpus.base_case(name)
            c["stages"] = [
                {"do": "call", "inj": [{"at": k, "do": "suspend", "release_after": 2.0}, {"at": k, "do": "pause", "after": 0.5}]},
                {"do": "resume"},
                {"do": "resume"},
            ]
            c["probe"] = True
            yield c
            # overlapping second suspension before the first release
            c = corpus.base_case(name)
            c["stages"] = [
                {
                    "do": "call",
                    "inj": [
                        {"at": k, "do": "suspend", "release_after": 1.0, "just": "first"},
                        {"at": k, "do": "suspend", "after": 0.4, "release_after": 1.5, "just": "second"},
                    ],
                },
                {"do": "resume"},
            ]
            c["re"] = {"record_interruptions": True}
            c["probe"] = True
            yield c
            # two suspensions one after the other (the second long after the first was released)
            for d in (30, 60):
                c = corpus.base_case(name)
                c["stages"] = [
                    {
                        "do": "call",
                        "inj": [
                            {"at": k, "do": "suspend", "release_after": 0.2, "just": "first"},
                            {"at": k + d, "do": "suspend", "release_after": 0.2, "just": "second"},
                        ],
                    },
                    {"do": "resume"},
                ]
                c["probe"] = True
                yield c


def run(ctx):
    names = corpus.corpus_names(ctx.tier)
    cases = list(corpus.single_request_cases(names, ("suspend",), re={"record_interruptions": True}))
    cases += list(extra_cases(["scan3", "custom_ck", "sleepy"] if ctx.quick else names, step=ctx.pick(2, 1)))
    ctx.sweep(cases, check_case)
    ctx.extra["sweep_cases"] = len(cases)
    e1common.generated(ctx, check_case, n=ctx.pick(600, 20000), profile="suspend")


def replay(case):
    return check_case(case)
