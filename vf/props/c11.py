"""C11 Suspension holds the plan until release, then runs post-plan and rewinds."""

from __future__ import annotations

from ..core import use_repo

use_repo()

from ..engine import corpus, e1common, e1oracles  # noqa: E402

ID = "C11"
ENGINE = "E1"
DESIGN_REF = "DESIGN.md §8 C11"
TECHNIQUE = "schedule enumeration of request_suspend at every loop-callback boundary with generated pre/post plans and virtual-time releases, overlapping suspensions and pause+resume during the wait; Hypothesis-generated plans; trace predicate over msg_hook, device ledger and release markers + the C04 replay model"
LEVEL_TEXT = (
    "RE.request_suspend is called on the loop thread (the production path of suspenders) at every callback boundary; the "
    "release is a harness-owned asyncio.Event set at a recorded virtual time. Between the _start_suspender message and the "
    "recorded release no message of the plan under test may execute (only the helper's rewindable/pre-plan/wait_for), every "
    "device set so far must be stopped before the wait, after release _resume_from_suspender, the post-plan and the replay "
    "predicted by the C04 model must follow, all within one blocking call, and the justification must be recorded."
)
LEVEL_NOTE = "Suspensions combined with a pause or a second suspension inside the wait are judged only on 'no plan message before release' and motor stops."
RULE = (
    "case = (plan, suspend injection(s) with pre/post/justification/release time, optional pause during the wait). Sweep "
    "over the corpus at every callback boundary (2 variants) + pause-during-wait and double-suspension slices; Hypothesis "
    "profile 'suspend'. Non-trivial: at least one motor had been moved and the replay cache was non-empty at the trip. "
    "Distinct = canonical JSON."
    " Also a real suspender (SuspendBoolHigh/Low, 0.5 s settle time) installed on the engine with a flapping watched signal at every third callback boundary: no plan message may execute while the suspender's documented condition holds the plan."
)
ASSUMPTIONS = ["requests arrive at boundaries between event-loop callbacks", "release = asyncio.Event.set at a harness-recorded virtual time"]

check_case = e1common.make_check(e1oracles.oracle_c11)


def extra_cases(names, step):
    for name in names:
        n = corpus.n_handles(name)
        for k in range(0, n + 2, step):
            # hard pause + resume during the suspension wait
            c = corpus.base_case(name)
            c["stages"] = [
                {"do": "call", "inj": [{"at": k, "do": "suspend", "release_after": 2.0}, {"at": k, "do": "pause", "after": 0.5}]},
                {"do": "resume"},
                {"do": "resume"},
            ]
            c["probe"] = True
            yield c
            # overlapping second suspension before the first release
            c = corpus.base_case(name)
            c["stages"] = [
                {
                    "do": "call",
                    "inj": [
                        {"at": k, "do": "suspend", "release_after": 1.0, "just": "first"},
                        {"at": k, "do": "suspend", "after": 0.4, "release_after": 1.5, "just": "second"},
                    ],
                },
                {"do": "resume"},
            ]
            c["re"] = {"record_interruptions": True}
            c["probe"] = True
            yield c
            # two suspensions one after the other (the second long after the first was released)
            for d in (30, 60):
                c = corpus.base_case(name)
                c["stages"] = [
                    {
                        "do": "call",
                        "inj": [
                            {"at": k, "do": "suspend", "release_after": 0.2, "just": "first"},
                            {"at": k + d, "do": "suspend", "release_after": 0.2, "just": "second"},
                        ],
                    },
                    {"do": "resume"},
                ]
                c["probe"] = True
                yield c


# ------------------------------------------------------------------------------------------
# a real suspender (bluesky.suspenders.SuspendBoolHigh / SuspendBoolLow with a settle time) installed on the engine


SETTLE = 0.5


def real_suspender_cases(names, step):
    """The watched signal trips at callback k, returns to nominal after t1, trips again t2 later (inside or after the
    settle time of the first release) and returns to nominal for good after t3."""
    for name in names:
        n = corpus.n_handles(name)
        for k in range(2, n, step):
            for cls, hi, lo in (("SuspendBoolHigh", 1, 0), ("SuspendBoolLow", 0, 1)):
                for t1, t2, t3 in ((0.3, 0.2, 0.4), (0.3, 0.8, 0.4), (0.1, 0.45, 0.2), (0.2, None, None)):
                    c = corpus.base_case(name)
                    c["re"] = {"suspender": {"cls": cls, "sleep": SETTLE, "initial": lo}}
                    inj = [{"at": k, "do": "sigput", "value": hi}, {"at": k, "after": t1, "do": "sigput", "value": lo}]
                    if t2 is not None:
                        inj.append({"at": k, "after": t1 + t2, "do": "sigput", "value": hi})
                        inj.append({"at": k, "after": t1 + t2 + t3, "do": "sigput", "value": lo})
                    c["stages"] = [{"do": "call", "inj": inj}]
                    c["probe"] = True
                    c["name"] = f"real_suspender:{name}"
                    yield c


def check_real_suspender(case):
    from ..core import Result
    from ..engine.harness import run_case

    obs = run_case(case)
    res = Result()
    res.klass = f"{case['name']}|{case['re']['suspender']['cls']}"
    if obs.harness_error:
        from ..core import HarnessError

        raise HarnessError(obs.harness_error)
    if any(r["label"] == "sigput" and r.get("state") == "raised" for r in obs.foreign):
        # SuspenderBase.__make_event gives the loop 0.1 s of real time to create its event; on an overloaded
        # machine that can expire: nothing can be concluded from such a case
        res.classes.append("suspender_callback_raised(inconclusive)")
        return res
    sp = case["re"]["suspender"]
    trip = 1 if sp["cls"] == "SuspendBoolHigh" else 0
    if any(p["state"] != "running" for p in obs.sigputs):
        # a signal that trips before the plan runs or after it has finished is C31's subject (gating the start)
        res.classes.append("update_while_not_running(C31)")
        return res
    settle = float(sp["sleep"])
    # intervals during which the documented behaviour keeps the plan suspended: from a trip until `settle` after the
    # signal's return to nominal, unless it trips again before that
    intervals = []
    cur = None
    for p in obs.sigputs:
        if p["value"] == trip:
            if cur is not None and cur["release_at"] is not None and p["vtime"] < cur["release_at"]:
                cur["release_at"] = None  # tripped again inside the settle time: still suspended
            elif cur is None or (cur["release_at"] is not None and p["vtime"] >= cur["release_at"]):
                cur = {"start_total": p["total"], "start_vtime": p["vtime"], "release_at": None}
                intervals.append(cur)
        elif cur is not None and cur["release_at"] is None:
            cur["release_at"] = p["vtime"] + settle
    SLACK = 12  # loop callbacks the engine may need to take a suspension request up
    ran = []
    for hi_, h in enumerate(obs.hook):
        if id(h["msg"]) not in obs.plog.msg_ids:
            continue
        for iv in intervals:
            end = iv["release_at"]
            if h["total"] > iv["start_total"] + SLACK and (end is None or h["vtime"] < end - 1e-9):
                ran.append((hi_, h["msg"].command, round(h["vtime"], 3)))
    started = any(h["msg"].command == "_start_suspender" for h in obs.hook)
    res.nontrivial = started and len(obs.sigputs) >= 3
    res.classes.append("suspension_started" if started else "tripped_too_late_for_a_suspension")
    F = dict(plan=case["name"], cls=sp["cls"], nputs=len(obs.sigputs))
    if ran:
        res.fail(
            "plan_ran_while_suspender_condition_held",
            f"plan messages executed while the suspender had to hold the plan (tripped, or inside the {settle}s settle time "
            f"after a return to nominal): {ran[:6]}; signal updates (value, vtime): {[(p['value'], round(p['vtime'], 3)) for p in obs.sigputs]}",
            **F,
        )
    c0 = obs.calls[0]
    if obs.stuck or obs.final_state != "idle" or c0.get("outcome") != "return" or not obs.plog.returned:
        res.fail(
            "suspended_plan_did_not_complete",
            f"after the last release the call must finish the plan without returning control: outcome {c0.get('outcome')} "
            f"{c0.get('exc')!r}, state {obs.final_state}, stuck {obs.stuck}",
            **F,
        )
    return res


def check_any(case):
    if (case.get("re") or {}).get("suspender"):
        return check_real_suspender(case)
    return check_case(case)


def run(ctx):
    rs = list(real_suspender_cases(["sleepy", "scan3"] if ctx.quick else ["sleepy", "scan3", "custom_ck", "count2"], ctx.pick(3, 1)))
    ctx.sweep(rs, check_real_suspender)
    ctx.extra["real_suspender_cases"] = len(rs)
    names = corpus.corpus_names(ctx.tier)
    cases = list(corpus.single_request_cases(names, ("suspend",), re={"record_interruptions": True}))
    cases += list(extra_cases(["scan3", "custom_ck", "sleepy"] if ctx.quick else names, step=ctx.pick(2, 1)))
    ctx.sweep(cases, check_case)
    ctx.extra["sweep_cases"] = len(cases)
    e1common.generated(ctx, check_case, n=ctx.pick(600, 20000), profile="suspend")


def replay(case):
    return check_any(case)
