"""C20 Message mutators are transparent when they change nothing."""

from __future__ import annotations

from .. import gendrv as G
from ..core import Result, use_repo

use_repo()

ID = "C20"
DESIGN_REF = "DESIGN.md §8 C20, §2.2"
TECHNIQUE = (
    "generated plan programs (real Python generators compiled from a JSON grammar) driven by generated "
    "send/throw/close scripts built against the program; differential oracle wrapped-vs-bare on driver trace "
    "and program-side log; bounded exhaustive sweep of small programs x scripts"
)
LEVEL_TEXT = (
    "Differential check: for each program and script the bare generator, plan_mutator(p, identity), "
    "msg_mutator(p, identity) and their compositions must give the same driver trace (messages by object "
    "identity, responses, return value, raised exception object/type/args, RuntimeError on yield-during-close) and "
    "the same program-side log (responses received, exceptions seen at each yield, handlers/finally entered). "
    "Complete for the small-alphabet programs up to the stated node bound x scripts up to the stated length; "
    "Hypothesis-generated beyond that."
)
LEVEL_NOTE = (
    "Exploration, not proof. The driver does what the RunEngine does to a plan (send, throw Exception instances or "
    "classes / RequestStop / RequestAbort / PlanHalt, close); KeyboardInterrupt/SystemExit are never thrown. For a "
    "thrown PlanHalt the program-side exception is compared up to isinstance(GeneratorExit) and programs that yield, "
    "return or raise something else while handling it are excluded from the comparison (labelled halt_unspecified)."
)
RULE = (
    "case = (program, script). Programs: grammar of yield (pool message object, possibly re-yielded / fresh "
    "message), response-dependent branch, seq, nested yield-from, try/except/else/finally with yields in every "
    "clause, raise, return; <= 10 nodes (Hypothesis) or every program of the small alphabet up to the bound "
    "(sweep). Scripts are drawn while stepping the bare program so throws/closes are aimed at guarded yields and "
    "thrown types at enclosing handlers. Non-trivial: at least one throw or close landed on a yield inside a try "
    "body, a handler, an else-with-finally or a finally clause. Distinct = distinct canonical JSON of the case."
)
ASSUMPTIONS = [
    "programs never yield None and never raise non-Exception BaseExceptions themselves",
    "KeyboardInterrupt/SystemExit are never thrown into plans (the RunEngine never does)",
    "PlanHalt: program-side exception compared up to isinstance(GeneratorExit); programs that do not simply "
    "propagate it are excluded (wrappers turn the throw into close(), which Python treats differently)",
    "exception identity is compared by order of first observation, not by id()",
]
ENGINE = "E2"

VARIANTS = ["pm", "mm", "pm_pm", "mm_pm", "pm_mm"]


def _wrap(variant, gen):
    from bluesky.preprocessors import msg_mutator, plan_mutator

    def ident_pm(m):
        return None, None

    def ident_mm(m):
        return m

    if variant == "bare":
        return gen
    if variant == "pm":
        return plan_mutator(gen, ident_pm)
    if variant == "mm":
        return msg_mutator(gen, ident_mm)
    if variant == "pm_pm":
        return plan_mutator(plan_mutator(gen, ident_pm), ident_pm)
    if variant == "mm_pm":
        return msg_mutator(plan_mutator(gen, ident_pm), ident_mm)
    if variant == "pm_mm":
        return plan_mutator(msg_mutator(gen, ident_mm), ident_pm)
    raise ValueError(variant)


def _run(prog, script, variant):
    env = G.Env()
    inner = env.instantiate(prog, "p")
    gen = _wrap(variant, inner)
    d = G.Driver(gen, env, cap=120)
    d.inner = inner  # keep the program alive so that only an explicit close() reaches it before the logs freeze
    d.run(script)
    return env, d


def check_case(case) -> Result:
    prog, script = case["prog"], case["script"]
    res = Result()
    env0, d0 = _run(prog, script, "bare")
    ref = G.observation(env0, d0)
    used = script[: len(d0.where)]
    labs = G.script_classes(used, d0.where)
    res.classes = sorted(set(labs))
    guarded = [G.pos_guarded(w) for a, w in zip(used, d0.where) if a[0] != "send"]
    res.nontrivial = any(guarded)
    # PlanHalt guard, decided on the bare run only
    halt_messy = False
    for (a, out) in d0.trace:
        if a[0] == "throw" and G.is_genexit_name(a[1]) and out != ["raise", ["GeneratorExit*"]]:
            halt_messy = True
    if any(o == ["runaway"] for _, o in d0.trace):
        raise RuntimeError("bare program hit the runaway cap: grammar programs must terminate")
    res.klass = "halt_unspecified" if halt_messy else ("guarded_event" if res.nontrivial else ("event" if labs else "sends_only"))
    feats = {"events": sorted(set(labs))}
    for v in case.get("variants", VARIANTS):
        try:
            env, d = _run(prog, script, v)
        except RecursionError as e:  # pragma: no cover
            res.fail("wrapper_crashed", f"{v}: {e!r}", variant=v, **feats)
            continue
        if any(o == ["runaway"] for _, o in d.trace):
            res.fail("runaway", f"{v}: wrapped generator still yielding after {d.cap} steps; bare finished in {len(d0.trace)}", variant=v, **feats)
            continue
        if halt_messy:
            continue
        got = G.observation(env, d)
        if got != ref:
            res.fail(
                "not_transparent",
                f"{v} differs from bare program at {G.first_diff(ref, got)} (left=bare, right={v})",
                variant=v,
                **feats,
            )
    return res


# ------------------------------------------------------------------------------------------


def _strategy():
    from hypothesis import strategies as st

    @st.composite
    def cases(draw):
        budget = draw(st.sampled_from([3, 5, 7, 10]))
        prog = G.draw_program(draw, st, budget=budget)
        script = G.draw_script(draw, st, lambda env: env.instantiate(prog, "p"), max_len=10)
        return {"prog": prog, "script": script}

    return cases()


_SWEEP_ALPHABET = [
    ["send", None],
    ["send", 1],
    ["throw", "ValueError", "e", False],
    ["throw", "KeyError", "e", True],
    ["throw", "RequestStop", "ctl", False],
    ["throw", "PlanHalt", "halt", True],
    ["close"],
]


def _sweep_cases(max_nodes, max_len):
    """Every small-alphabet program x every script over the alphabet that the bare program can
    consume (depth-first: a script is only extended while the bare generator is still alive)."""
    bodies = G.enumerate_bodies(max_nodes, pool=1)
    pool = [{"cmd": "m", "obj": None, "args": ["p0"]}]
    out = []
    for b in bodies:
        prog = {"pool": pool, "body": b}
        stack = [[["send", None]]]
        while stack:
            s = stack.pop()
            env = G.Env()
            d = G.Driver(env.instantiate(prog, "p"), env, cap=100)
            for a in s:
                d.apply(a)
            alive = not d.done
            d.finish()
            if not alive or len(s) > max_len:
                out.append({"prog": prog, "script": s})
                continue
            for a in _SWEEP_ALPHABET:
                stack.append(s + [list(a)])
    return out


def run(ctx):
    nodes, length = ctx.pick((4, 3), (5, 5))
    cases = _sweep_cases(nodes, length)
    ctx.extra["sweep_cases"] = len(cases)
    ctx.sweep(cases, check_case)
    ctx.exhaustive = True
    ctx.bound = (
        f"every program body with <= {nodes} nodes over the alphabet (1 pool message, fresh message, raise ValueError, "
        f"return 7, seq, sub, try with finally / handler(ValueError|GeneratorExit|Exception, reraise or not) / handler+finally "
        f"/ handler+else) x every script of <= {length} actions over {{send None, send 1, throw ValueError(), throw KeyError "
        f"class, throw RequestStop(), throw PlanHalt class, close}} (de-duplicated by consumed prefix); 5 wrapper variants"
    )
    ctx.hyp(_strategy, check_case, max_examples=ctx.pick(5000, 120000))


def replay(case):
    return check_case(case)
