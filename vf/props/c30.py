"""C30 Suspenders trip and release exactly on their documented conditions."""

from __future__ import annotations

import asyncio
import concurrent.futures
import contextlib
import io
import itertools
import math
import os
import sys
import threading
import warnings
from types import SimpleNamespace

from ..core import HarnessError, Result, jsonable, unjson, use_repo

use_repo()

ID = "C30"
DESIGN_REF = "DESIGN.md §8 C30"
TECHNIQUE = (
    "bounded-exhaustive value sequences around every threshold + Hypothesis-generated sequences, each driven through "
    "the real SuspenderBase.__call__ against a stub RunEngine and compared step by step with a docstring hysteresis model"
)
LEVEL_TEXT = (
    "Every built-in suspender class is installed on a stub RunEngine (real asyncio loop thread, recording "
    "request_suspend, real waiter tasks on the suspender's event) and fed generated value sequences; after every value "
    "the tripped flag, the number of request_suspend calls, the released/unreleased state of every waiter and the "
    "pure _should_suspend/_should_resume verdicts are compared with a reference written from the class docstrings. "
    "Complete for all sequences of length <=3 over the alphabet {min-1, pred(p), p, succ(p), midpoints, max+1} of the "
    "pivots of a small parameter grid (incl. 0 / falsy parameters); random beyond that."
)
LEVEL_NOTE = (
    "Trusts the fake signal (synchronous subscribe/put like a soft ophyd.Signal) and the stub RE; sleep=0 only; "
    "boundary values the docstrings leave open (v == resume_thresh) accept either verdict; a value on a band limit is "
    "outside the band (both classes print the band as the open range '(bottom, top)'); "
    "exploration, not proof."
)
RULE = (
    "case = (suspender class, constructor parameters incl. omitted/falsy ones, initial signal value, value sequence, "
    "RE running or idle). Sweep: every sequence of length 1..3 over the pivot alphabet for a parameter grid; then "
    "Hypothesis sequences up to length 12 biased to pivots +- one ulp. Non-trivial: the reference model has at least "
    "one untripped->tripped edge and afterwards at least one value that either must release or lies in the hysteresis "
    "gap / must-not-release region while tripped. Distinct = distinct canonical JSON of the case."
)
ASSUMPTIONS = [
    "signal values are non-NaN scalars of the kind the class documents (numbers for threshold/band classes, "
    "bool/0/1 for the boolean classes, str/int/float/bool for SuspendWhenChanged)",
    "callbacks arrive one at a time from a non-loop thread (as ophyd delivers them)",
    "at v == resume_thresh (Floor/Ceil) the documentation does not decide; either verdict accepted",
    "sleep=0; pre/post plans are passed through untouched and not interpreted",
]
ENGINE = "E3"

NUMERIC = ("SuspendFloor", "SuspendCeil", "SuspendWhenOutsideBand", "SuspendInBand", "SuspendOutBand")
BOOLS = ("SuspendBoolHigh", "SuspendBoolLow")
ALL_CLASSES = NUMERIC + BOOLS + ("SuspendWhenChanged",)

# ------------------------------------------------------------------------------------------
# one asyncio loop thread per process (lazily created; re-created after fork)

_LT = {"pid": None, "loop": None, "thread": None}


def _get_loop():
    if _LT["pid"] != os.getpid() or _LT["loop"] is None or not _LT["thread"].is_alive():
        loop = asyncio.new_event_loop()
        started = threading.Event()

        def runner():
            asyncio.set_event_loop(loop)
            loop.call_soon(started.set)
            loop.run_forever()

        t = threading.Thread(target=runner, name="vf-c30-loop", daemon=True)
        t.start()
        if not started.wait(60):
            raise HarnessError("loop thread did not start")
        _LT.update(pid=os.getpid(), loop=loop, thread=t)
        # every step is a main-thread <-> loop-thread hand-over; the default 5 ms GIL switch interval
        # would dominate the run time (no effect on results)
        sys.setswitchinterval(0.0005)
    return _LT["loop"]


def _stop_loop():
    if _LT["pid"] == os.getpid() and _LT["loop"] is not None:
        loop, t = _LT["loop"], _LT["thread"]
        loop.call_soon_threadsafe(loop.stop)
        t.join(60)
        if not t.is_alive():
            loop.close()
        sys.setswitchinterval(0.005)
    _LT.update(pid=None, loop=None, thread=None)


def _on_loop(loop, coro):
    fut = asyncio.run_coroutine_threadsafe(coro, loop)
    try:
        return fut.result(120)
    except concurrent.futures.TimeoutError:
        raise HarnessError("loop thread did not answer within 120 s") from None


async def _drain(n=5):
    # call_soon_threadsafe(local) -> call_later(0, ev.set) -> waiter wake-up: a fixed number of
    # ready-queue turns; nothing here depends on wall time.
    for _ in range(n):
        await asyncio.sleep(0)


async def _wait(fut):
    await fut()


async def _spawn_waiter(fut):
    return asyncio.get_running_loop().create_task(_wait(fut))


async def _cancel_all(tasks):
    for t in tasks:
        if not t.done():
            t.cancel()
    for _ in range(3):
        await asyncio.sleep(0)
    me = asyncio.current_task()
    return len([t for t in asyncio.all_tasks() if t is not me and not t.done()])


class _StubRE:
    """What SuspenderBase touches of a RunEngine: _loop, state.is_running, request_suspend."""

    def __init__(self, loop, running):
        self._loop = loop
        self.loop = loop
        self.state = SimpleNamespace(is_running=bool(running))
        self.requests = []  # (fut, waiter task, kwargs)

    def request_suspend(self, fut, *, pre_plan=None, post_plan=None, justification=None):
        # called on the loop thread through call_soon_threadsafe, like the real one
        task = self._loop.create_task(_wait(fut))
        self.requests.append((fut, task, {"pre_plan": pre_plan, "post_plan": post_plan, "justification": justification}))


class _Sig:
    """Synchronous stand-in for a soft ophyd.Signal (subscribe/clear_sub/get/value/name/put)."""

    def __init__(self, name, value):
        self.name = name
        self._value = value
        self._subs = []

    def __repr__(self):
        return f"_Sig(name={self.name!r}, value={self._value!r})"

    @property
    def value(self):
        return self._value

    def get(self):
        return self._value

    def subscribe(self, cb, event_type=None, run=True):
        self._subs.append(cb)
        if run:
            cb(value=self._value, old_value=self._value, timestamp=0.0, obj=self, sub_type="value")
        return len(self._subs)

    def clear_sub(self, cb, event_type=None):
        self._subs = [c for c in self._subs if c is not cb]

    def put(self, v):
        old, self._value = self._value, v
        for cb in list(self._subs):
            cb(value=v, old_value=old, timestamp=0.0, obj=self, sub_type="value")


# ------------------------------------------------------------------------------------------
# reference: documented suspend / resume conditions, three-valued (None = documentation leaves it open)


def _doc_conditions(cls, params, init):
    if cls == "SuspendBoolHigh":
        return (lambda v: bool(v)), (lambda v: not bool(v))
    if cls == "SuspendBoolLow":
        return (lambda v: not bool(v)), (lambda v: bool(v))
    if cls == "SuspendFloor":
        st = params["suspend_thresh"]
        rt = params.get("resume_thresh")
        rt = st if rt is None else rt
        # "Suspend if the signal value falls below"; "Resume when the signal value rises above"
        return (lambda v: v < st), (lambda v: True if v > rt else (None if v == rt else False))
    if cls == "SuspendCeil":
        st = params["suspend_thresh"]
        rt = params.get("resume_thresh")
        rt = st if rt is None else rt
        # "Suspend when a scalar rises above a threshold"; "...has not yet crossed below {resume}"
        return (lambda v: v > st), (lambda v: True if v < rt else (None if v == rt else False))
    if cls in ("SuspendWhenOutsideBand", "SuspendInBand", "SuspendOutBand"):
        bot, top = params["band_bottom"], params["band_top"]

        def inside(v):
            # the justification messages of both band classes name the band as the open range "(bottom, top)":
            # a value on a limit is outside of it
            return bot < v < top

        def neg(x):
            return None if x is None else (not x)

        if cls == "SuspendOutBand":  # suspend when the signal enters the band
            return inside, (lambda v: neg(inside(v)))
        return (lambda v: neg(inside(v))), inside
    if cls == "SuspendWhenChanged":
        exp = params["expected_value"] if params.get("expected_value") is not None else init
        allow = bool(params.get("allow_resume", False))
        return (lambda v: v != exp), (lambda v: bool(allow and v == exp))
    raise ValueError(cls)


def _allowed_next(prev, s, r):
    """Allowed tripped states after a value with documented verdicts s, r (None = either)."""
    out = set()
    for s_ in [s] if s is not None else [True, False]:
        for r_ in [r] if r is not None else [True, False]:
            if s_ and r_:
                continue
            out.add(True if s_ else (False if r_ else prev))
    return out


def _ctor_validity(cls, params):
    """'valid' / 'invalid' / 'edge' (documentation inconsistent) for the constructor arguments."""
    if cls in ("SuspendFloor", "SuspendCeil"):
        st, rt = params["suspend_thresh"], params.get("resume_thresh")
        if rt is None or rt == st:
            return "valid" if rt is None else "edge"
        if cls == "SuspendFloor":
            return "valid" if rt > st else "invalid"
        return "valid" if rt < st else "invalid"
    if cls in ("SuspendWhenOutsideBand", "SuspendInBand", "SuspendOutBand"):
        return "valid" if params["band_bottom"] < params["band_top"] else "invalid"
    return "valid"


def _build(cls, params, sig):
    from bluesky import suspenders

    klass = getattr(suspenders, cls)
    kw = {"sleep": 0}
    if cls in ("SuspendFloor", "SuspendCeil"):
        if "resume_thresh" in params:
            kw["resume_thresh"] = params["resume_thresh"]
        return klass(sig, params["suspend_thresh"], **kw)
    if cls in ("SuspendWhenOutsideBand", "SuspendInBand", "SuspendOutBand"):
        return klass(sig, params["band_bottom"], params["band_top"], **kw)
    if cls == "SuspendWhenChanged":
        if "expected_value" in params:
            kw["expected_value"] = params["expected_value"]
        if "allow_resume" in params:
            kw["allow_resume"] = params["allow_resume"]
        return klass(sig, **kw)
    return klass(sig, **kw)


class _Retry(Exception):
    pass


def _features(cls, params, init):
    f = {"cls": cls}
    if cls == "SuspendWhenChanged":
        ev = params.get("expected_value")
        f["explicit_falsy_expected"] = bool("expected_value" in params and ev is not None and not ev)
        f["init_differs_from_expected"] = bool(ev is not None and init != ev)
    if cls in ("SuspendFloor", "SuspendCeil"):
        f["falsy_threshold"] = bool(not params["suspend_thresh"] or ("resume_thresh" in params and params["resume_thresh"] is not None and not params["resume_thresh"]))
    return f


def _model_trace(S, R, values):
    """Reference trace with open verdicts resolved as 'no change'; used only for the non-triviality label."""
    t = False
    tripped_once = False
    interesting_after = False
    gap = False
    for v in values:
        s, r = S(v), R(v)
        if t and not s:
            if r is True:
                interesting_after = True
            elif r is False:
                gap = True
                interesting_after = True
        if s is True:
            if not t:
                tripped_once = True
            t = True
        elif r is True:
            t = False
    return tripped_once and interesting_after, gap


def _run_case(case, res):
    cls = case["cls"]
    params = unjson(case["params"])
    init = unjson(case["init"])
    values = [init] + [unjson(v) for v in case["values"]]
    running = bool(case.get("running", True))
    feats = _features(cls, params, init)

    S, R = _doc_conditions(cls, params, init)
    validity = _ctor_validity(cls, params)
    nt, gap = _model_trace(S, R, values) if validity != "invalid" else (False, False)
    res.nontrivial = bool(nt)
    res.klass = f"{cls}/{'running' if running else 'idle'}"
    if gap:
        res.classes.append("hysteresis_gap_visited_while_tripped")
    if any(S(v) is None or R(v) is None for v in values) and validity != "invalid":
        res.classes.append("open_boundary_value_visited")
    if any((k != "allow_resume" and p is not None and not p) for k, p in params.items()):
        res.classes.append("falsy_parameter")

    sig = _Sig("sig", init)
    try:
        susp = _build(cls, params, sig)
    except ValueError as e:
        if validity == "valid":
            return res.fail("constructor_rejected_valid", f"{cls}({params}) raised ValueError: {e}", **feats)
        res.classes.append(f"ctor_{validity}_rejected")
        res.klass = f"{cls}/ctor_rejected"
        return res
    if validity == "invalid":
        return res.fail(
            "constructor_accepted_invalid",
            f"{cls}({params}) was accepted although the documented ordering of its limits is violated "
            "(suspend and resume conditions can then hold together)",
            **feats,
        )
    if validity == "edge":
        res.classes.append("ctor_edge_accepted")

    if cls == "SuspendWhenChanged":
        exp = params["expected_value"] if params.get("expected_value") is not None else init
        got = susp.expected_value
        if not (got == exp):
            return res.fail(
                "expected_value_not_reflected",
                f"SuspendWhenChanged(expected_value={params.get('expected_value')!r}) on a signal reading {init!r}: "
                f"expected_value attribute is {got!r}, documented {exp!r}",
                **feats,
            )

    # pure verdict functions
    seen = []
    for v in values:
        if any(v is w or (type(v) is type(w) and v == w and str(v) == str(w)) for w in seen):
            continue
        seen.append(v)
        try:
            cs, cr = bool(susp._should_suspend(v)), bool(susp._should_resume(v))
        except Exception as e:
            return res.fail("verdict_raised", f"{cls}({params}) verdict on {v!r} raised {type(e).__name__}: {e}", **feats)
        s, r = S(v), R(v)
        if cs and cr:
            return res.fail("suspend_and_resume_both_true", f"{cls}({params}): value {v!r} satisfies both conditions", **feats)
        if s is not None and cs != s:
            return res.fail("should_suspend_mismatch", f"{cls}({params})._should_suspend({v!r}) = {cs}, documented {s}", **feats)
        if r is not None and cr != r:
            return res.fail("should_resume_mismatch", f"{cls}({params})._should_resume({v!r}) = {cr}, documented {r}", **feats)

    loop = _get_loop()
    RE = _StubRE(loop, running)
    extra_waiters = []  # idle mode: (step, task) obtained through get_futures
    prev = False
    edges = 0
    current_waiter = None
    all_waiters = []
    obs = []
    try:
        for i, v in enumerate(values):
            try:
                if i == 0:
                    susp.install(RE)  # subscribe(run=True) delivers the initial value
                else:
                    sig.put(v)
            except RuntimeError as e:
                if "Could not create the" in str(e):
                    raise _Retry() from None  # the 0.1 s real-time wait for the loop thread expired: infrastructure
                return res.fail("call_raised", f"{cls}({params}) value #{i} {v!r}: RuntimeError {e}", **feats)
            except Exception as e:
                return res.fail("call_raised", f"{cls}({params}) value #{i} {v!r}: {type(e).__name__}: {e}", **feats)
            _on_loop(loop, _drain())
            now = bool(susp.tripped)
            obs.append(now)
            allowed = _allowed_next(prev, S(v), R(v))
            where = f"{cls}({params}) values={values[: i + 1]!r}"
            if now not in allowed:
                return res.fail(
                    "wrong_tripped_state",
                    f"{where}: tripped={now} after value #{i} {v!r}; documented conditions allow {sorted(allowed)} "
                    f"(previously tripped={prev})",
                    **feats,
                )
            if now and not prev:
                edges += 1
                current_waiter = None
            if running:
                if len(RE.requests) != edges:
                    return res.fail(
                        "request_suspend_count",
                        f"{where}: {len(RE.requests)} request_suspend calls after {edges} untripped->tripped edges",
                        **feats,
                    )
                if now and not prev:
                    fut, task, _kw = RE.requests[-1]
                    if not callable(fut):
                        return res.fail("request_suspend_bad_future", f"{where}: fut {fut!r} is not callable", **feats)
                    current_waiter = task
                    all_waiters.append(task)
            else:
                if RE.requests:
                    return res.fail("request_suspend_while_idle", f"{where}: request_suspend called although RE is not running", **feats)
                try:
                    futs, just = susp.get_futures()
                except RuntimeError as e:
                    if "Could not create the" in str(e):
                        raise _Retry() from None
                    raise
                if now:
                    if len(futs) != 1 or not callable(futs[0]):
                        return res.fail("get_futures_when_tripped", f"{where}: tripped but get_futures() returned {futs!r}", **feats)
                    if current_waiter is None:
                        current_waiter = _on_loop(loop, _spawn_waiter(futs[0]))
                        all_waiters.append(current_waiter)
                        _on_loop(loop, _drain())
                elif list(futs):
                    return res.fail("get_futures_when_untripped", f"{where}: not tripped but get_futures() returned {futs!r}", **feats)
            # release state of every waiter
            for k, t in enumerate(all_waiters):
                is_current = now and t is current_waiter
                if t.done() and not t.cancelled() and t.exception() is not None:
                    return res.fail("waiter_raised", f"{where}: waiting on the suspender's future raised {t.exception()!r}", **feats)
                if is_current and t.done():
                    return res.fail("released_while_tripped", f"{where}: the wait future of suspension #{k} is released although the suspender is tripped", **feats)
                if not is_current and not t.done():
                    return res.fail(
                        "not_released",
                        f"{where}: the wait future of suspension #{k} is still blocked although the suspender is no longer tripped",
                        **feats,
                    )
            prev = now
        res.obs = {"tripped": obs, "requests": len(RE.requests)}
        return res
    finally:
        try:
            susp.remove()
        except Exception:
            pass
        _on_loop(loop, _drain())
        tasks = [t for _f, t, _k in RE.requests] + list(all_waiters)
        left = _on_loop(loop, _cancel_all(tasks))
        if left:
            raise HarnessError(f"{left} tasks left on the shared loop after a case")


def check_case(case) -> Result:
    sink = io.StringIO()
    for _attempt in range(5):
        res = Result()
        try:
            with contextlib.redirect_stdout(sink), warnings.catch_warnings():
                warnings.simplefilter("ignore")
                return _run_case(case, res)
        except _Retry:
            continue
    raise HarnessError("the suspender could not create its asyncio.Event within 0.1 s five times in a row (machine overloaded)")


# ------------------------------------------------------------------------------------------
# generators


def _around(p):
    p = float(p)
    return [p - 1, math.nextafter(p, -math.inf), p, math.nextafter(p, math.inf), p + 1]


def _alphabet(pivots):
    ps = sorted(set(float(p) for p in pivots))
    vals = [ps[0] - 1]
    for p in ps:
        vals += [math.nextafter(p, -math.inf), p, math.nextafter(p, math.inf)]
    for a, b in zip(ps, ps[1:]):
        vals.append((a + b) / 2)
    vals.append(ps[-1] + 1)
    out = []
    for v in vals:
        if v not in out:
            out.append(v)
    return out


def _sweep_cases(maxlen, grid):
    cases = []

    def seqs(alpha, n):
        for L in range(1, n + 1):
            yield from itertools.product(alpha, repeat=L)

    for cls in ("SuspendFloor", "SuspendCeil"):
        for st in grid:
            for rt in [None, "omit"] + list(grid):
                params = {"suspend_thresh": st}
                if rt != "omit":
                    params["resume_thresh"] = rt
                if _ctor_validity(cls, params) == "invalid":
                    cases.append({"cls": cls, "params": params, "init": 0, "values": [], "running": True})
                    continue
                alpha = _alphabet([st] + ([rt] if rt not in (None, "omit") else []))
                for s in seqs(alpha, maxlen):
                    cases.append({"cls": cls, "params": params, "init": s[0], "values": list(s[1:]), "running": True})
    for cls in ("SuspendWhenOutsideBand", "SuspendInBand", "SuspendOutBand"):
        for bot in grid:
            for top in grid:
                params = {"band_bottom": bot, "band_top": top}
                if not bot < top:
                    cases.append({"cls": cls, "params": params, "init": 0, "values": [], "running": True})
                    continue
                alpha = _alphabet([bot, top])
                for s in seqs(alpha, maxlen):
                    cases.append({"cls": cls, "params": params, "init": s[0], "values": list(s[1:]), "running": True})
    for cls in BOOLS:
        for s in seqs([False, True, 0, 1], maxlen + 1):
            for running in (True, False):
                cases.append({"cls": cls, "params": {}, "init": s[0], "values": list(s[1:]), "running": running})
    pool = [0, 1, "", "a", False, 2.5]
    for exp in ["omit", None] + pool:
        for allow in (False, True, "omit"):
            params = {}
            if exp != "omit":
                params["expected_value"] = exp
            if allow != "omit":
                params["allow_resume"] = allow
            for s in seqs(pool, min(maxlen, 3)):
                cases.append({"cls": "SuspendWhenChanged", "params": params, "init": s[0], "values": list(s[1:]), "running": True})
    return [jsonable(c) for c in cases]


def _strategy():
    from hypothesis import strategies as st

    special = [0, 0.0, -0.0, 1, -1, 0.5, -0.5, 10, -3.5, 1e-9, -1e-9, 1e9, 100, 2]
    thresh = st.one_of(st.sampled_from(special), st.integers(-5, 5), st.floats(-100, 100, allow_nan=False, width=64))

    def values_for(pivots, draw, n):
        ps = [float(p) for p in pivots]
        near = []
        for p in ps:
            near += _around(p) + [math.nextafter(math.nextafter(p, math.inf), math.inf), p + 1e-9, p - 1e-9]
        for a, b in zip(sorted(ps), sorted(ps)[1:]):
            near.append((a + b) / 2)
        near += [int(p) for p in ps if float(p).is_integer() and abs(p) < 1e12]
        elem = st.one_of(
            st.sampled_from(near),
            st.sampled_from(near),
            st.floats(allow_nan=False, allow_infinity=True, width=64),
            st.integers(-6, 6),
            st.sampled_from([math.inf, -math.inf, 0, 0.0, -0.0]),
        )
        return draw(st.lists(elem, min_size=n[0], max_size=n[1]))

    @st.composite
    def cases(draw):
        cls = draw(st.sampled_from(ALL_CLASSES + ("SuspendFloor", "SuspendCeil", "SuspendWhenChanged")))
        running = draw(st.sampled_from([True, True, True, False]))
        if cls in ("SuspendFloor", "SuspendCeil"):
            stv = draw(thresh)
            mode = draw(st.sampled_from(["omit", "none", "equal", "apart", "apart", "apart", "any"]))
            params = {"suspend_thresh": stv}
            sign = 1 if cls == "SuspendFloor" else -1
            if mode == "none":
                params["resume_thresh"] = None
            elif mode == "equal":
                params["resume_thresh"] = stv
            elif mode == "apart":
                d = draw(st.one_of(st.sampled_from([1, 0.5, 2, 1e-9, 10]), st.floats(1e-6, 50, allow_nan=False)))
                rt = stv + sign * d
                # prefer a falsy resume threshold now and then
                if draw(st.integers(0, 4)) == 0 and sign * (0 - stv) > 0:
                    rt = draw(st.sampled_from([0, 0.0]))
                params["resume_thresh"] = rt
            elif mode == "any":
                params["resume_thresh"] = draw(thresh)
            piv = [stv] + ([params["resume_thresh"]] if params.get("resume_thresh") is not None else [])
            vals = values_for(piv, draw, (1, 12))
        elif cls in ("SuspendWhenOutsideBand", "SuspendInBand", "SuspendOutBand"):
            a, b = draw(thresh), draw(thresh)
            if draw(st.integers(0, 9)) != 0 and not a < b:
                a, b = (b, a) if b < a else (a, a + 1)
            params = {"band_bottom": a, "band_top": b}
            vals = values_for([a, b], draw, (1, 12))
        elif cls in BOOLS:
            params = {}
            vals = draw(st.lists(st.sampled_from([False, True, 0, 1]), min_size=1, max_size=10))
        else:
            pool = [0, 0.0, False, "", 1, True, "a", "2-BM-A", "none", -1, 2.5, 2]
            params = {}
            mode = draw(st.sampled_from(["omit", "none", "given", "given", "given"]))
            if mode == "none":
                params["expected_value"] = None
            elif mode == "given":
                params["expected_value"] = draw(st.sampled_from(pool))
            am = draw(st.sampled_from(["omit", True, True, False]))
            if am != "omit":
                params["allow_resume"] = am
            sub = draw(st.lists(st.sampled_from(pool), min_size=2, max_size=4, unique_by=lambda x: (type(x).__name__, x)))
            if params.get("expected_value") is not None:
                sub.append(params["expected_value"])
            vals = draw(st.lists(st.sampled_from(sub), min_size=1, max_size=10))
        return jsonable({"cls": cls, "params": params, "init": vals[0], "values": vals[1:], "running": running})

    return cases()


def run(ctx):
    try:
        grid = [-1, 0, 0.5] if ctx.quick else [-1, 0, 0.5, 2]
        maxlen = 3 if ctx.quick else 4
        cases = _sweep_cases(maxlen, grid)
        ctx.sweep(cases, check_case)
        ctx.exhaustive = True
        ctx.bound = (
            f"every value sequence of length 1..{maxlen} over the pivot alphabet (min-1, pred(p), p, succ(p), midpoints, max+1) for "
            f"thresholds / band limits in {grid} (resume threshold omitted / None / given), boolean sequences up to length "
            f"{maxlen + 1} (running and idle RE), SuspendWhenChanged over expected/initial/values in [0, 1, '', 'a', False, 2.5]"
        )
        ctx.extra["exhaustive_part"] = len(cases)
        # several moderate Hypothesis runs instead of one huge one: per-example cost grows with the size of a run
        for r in range(ctx.pick(1, 5)):
            ctx.hyp(_strategy, check_case, max_examples=ctx.pick(5000, 30000), tag=f"r{r}" if r else "")
    finally:
        _stop_loop()


def replay(case):
    try:
        return check_case(case)
    finally:
        _stop_loop()
