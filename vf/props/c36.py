"""C36 Stream datums concatenate and consolidate into consistent array shapes."""

from __future__ import annotations

import copy

from ..core import Result, use_repo

use_repo()

ID = "C36"
DESIGN_REF = "DESIGN.md §8 C36"
TECHNIQUE = "Hypothesis-generated stream-datum sets and consolidator parameters against a tiling reference and chunk-sum / seq_num-map invariants"
LEVEL_TEXT = (
    "concatenate_stream_datums is compared with an independent reference (one descriptor, one resource, sorted index "
    "ranges tile) on shuffled, perturbed datum sets; every CONSOLIDATOR_REGISTRY class (plus the default) is built from "
    "generated parameters and fed generated stream datums, checking after every step that chunks is a valid chunking "
    "of shape and that every consumed seq_num maps to its row index."
)
LEVEL_NOTE = (
    "Constructor rejections (ValueError/AssertionError/NotImplementedError/IndexError/KeyError) and the documented "
    "ValueError of `chunks` for a chunk_shape longer than the data shape count as rejected parameters, not failures. "
    "Exploration, not proof."
)
RULE = (
    "part 'concat': 1-6 stream datums tiling an index interval (seq_nums advancing alongside, equal or different "
    "lengths), perturbed by one of {none, gap, overlap, duplicate, other descriptor, other resource, seq gap} and "
    "shuffled; non-trivial when >= 2 datums. part 'consolidator': mimetype in registry + octet-stream, data-key shape "
    "in scalar/1-d/image/stack forms, chunk_shape of length 0..ndim+1, multiplier, join_method, join_chunks, 1-5 "
    "consumed datums (contiguous indices from 0, seq_nums with optional skips); non-trivial when the constructor "
    "accepts, a chunk_shape is given and >= 1 datum is consumed. Distinct = distinct canonical JSON of the case."
)
ASSUMPTIONS = [
    "stream datums have non-empty index ranges; seq_nums advance in the same order as indices (as the RunEngine emits)",
    "consumed stream datums arrive in index order starting at 0 and never repeat a seq_num",
    "a ValueError from `chunks` when chunk_shape has more entries than the data shape is the documented behaviour",
]
ENGINE = "E3"

REJECT = (ValueError, AssertionError, NotImplementedError, IndexError, KeyError, TypeError)


# ---------------------------------------------------------------------------------------------------
# part A: concatenate_stream_datums


def _check_concat(case, res):
    from bluesky.callbacks.tiled_writer import concatenate_stream_datums

    datums = case["datums"]
    pert = case.get("perturbation", "none")
    res.klass = f"concat/{pert}/n={'1' if len(datums) == 1 else '2+'}"
    res.nontrivial = len(datums) >= 2
    feats = {"perturbation": pert, "n": len(datums)}

    # independent reference
    one_desc = len({d["descriptor"] for d in datums}) == 1
    one_res = len({d["stream_resource"] for d in datums}) == 1
    by_start = sorted(datums, key=lambda d: (d["indices"]["start"], d["indices"]["stop"]))
    tiles = all(a["indices"]["stop"] == b["indices"]["start"] for a, b in zip(by_start, by_start[1:]))
    seq_tiles = all(a["seq_nums"]["stop"] == b["seq_nums"]["start"] for a, b in zip(by_start, by_start[1:]))
    expect_ok = len(datums) == 1 or (one_desc and one_res and tiles)
    res.classes.append("expect_accept" if expect_ok else "expect_reject")

    args = copy.deepcopy(datums)
    try:
        out = concatenate_stream_datums(*args)
    except ValueError as e:
        if expect_ok:
            res.fail("contiguous_set_rejected", f"ValueError({e}) for a contiguous set of one descriptor/resource", **feats)
        return res
    except Exception as e:
        return res.fail("raised_other", f"{type(e).__name__}: {e}", **feats)
    if not expect_ok:
        why = "descriptors differ" if not one_desc else "resources differ" if not one_res else "index ranges do not tile"
        return res.fail("non_contiguous_set_accepted", f"accepted although {why}; returned {dict(out)!r}", **feats)
    lo = min(d["indices"]["start"] for d in datums)
    hi = max(d["indices"]["stop"] for d in datums)
    if dict(out["indices"]) != {"start": lo, "stop": hi}:
        res.fail("wrong_index_range", f"indices {dict(out['indices'])!r}, expected [{lo},{hi})", **feats)
    if seq_tiles:
        slo = min(d["seq_nums"]["start"] for d in datums)
        shi = max(d["seq_nums"]["stop"] for d in datums)
        if dict(out["seq_nums"]) != {"start": slo, "stop": shi}:
            res.fail("wrong_seq_num_range", f"seq_nums {dict(out['seq_nums'])!r}, expected [{slo},{shi})", **feats)
    else:
        res.classes.append("concat/seq_nums_not_contiguous(unasserted)")
    if out["descriptor"] != datums[0]["descriptor"] or out["stream_resource"] != datums[0]["stream_resource"]:
        res.fail("wrong_reference", f"descriptor/resource of the result: {out['descriptor']!r}/{out['stream_resource']!r}", **feats)
    return res


# ---------------------------------------------------------------------------------------------------
# part B: consolidators


def _valid_chunking(shape, chunks):
    if len(chunks) != len(shape):
        return f"len(chunks)={len(chunks)} but len(shape)={len(shape)}"
    for d, (n, c) in enumerate(zip(shape, chunks)):
        if not isinstance(c, tuple) or not all(isinstance(x, int) and x >= 0 for x in c):
            return f"chunks[{d}]={c!r} is not a tuple of non-negative ints"
        if sum(c) != n:
            return f"dimension {d}: chunk sizes {c} add up to {sum(c)}, shape says {n}"
        if n > 0 and any(x == 0 for x in c):
            return f"dimension {d}: empty chunk in {c}"
    return None


def _check_consolidator(case, res):
    from bluesky.consolidators import CONSOLIDATOR_REGISTRY, consolidator_factory

    mimetype = case["mimetype"]
    params = copy.deepcopy(case["parameters"])
    dk_shape = case["shape"]
    cls = CONSOLIDATOR_REGISTRY[mimetype]
    sres = {"uid": "sres-1", "data_key": "img", "mimetype": mimetype, "uri": "file://localhost/data/x", "parameters": params}
    spec = {"source": "file", "dtype": "array" if dk_shape else "number", "shape": list(dk_shape), "external": "STREAM:"}
    if case.get("dtype_numpy"):
        spec["dtype_numpy"] = case["dtype_numpy"]
    desc = {"uid": "desc-1", "name": "primary", "data_keys": {"img": spec}}
    chunk_shape = case["parameters"].get("chunk_shape", [])
    feats = {
        "cls": cls.__name__,
        "join_method": case["parameters"].get("join_method", cls.join_method),
        "join_chunks": case["parameters"].get("join_chunks", cls.join_chunks),
        "chunk_shape_len": len(chunk_shape),
        # the consolidator's datum_shape is () : scalar data key (or [1] for a class that stacks), no multiplier
        "empty_datum_shape": (list(dk_shape) == [] or (list(dk_shape) == [1] and cls.join_method == "stack"))
        and not case["parameters"].get("multiplier"),
        "chunk_shape_given": len(chunk_shape) > 0,
        "datum_ndim": len(dk_shape),
    }
    res.klass = f"cons/{cls.__name__}"
    try:
        cons = consolidator_factory(sres, desc)
    except REJECT as e:
        res.classes.append(f"cons/rejected/{type(e).__name__}")
        return res
    except Exception as e:
        return res.fail("constructor_raised_other", f"{type(e).__name__}: {e}", **feats)
    res.classes.append(f"cons/accepted/{cons.join_method}/join_chunks={bool(cons.join_chunks)}")
    res.classes.append(f"cons/chunk_shape_len={len(chunk_shape)}")
    res.nontrivial = bool(chunk_shape) and bool(case["datums"])

    def check_structure(step):
        try:
            shape = cons.shape
        except Exception as e:
            res.fail("shape_raised", f"{step}: {type(e).__name__}: {e}", **feats)
            return False
        try:
            chunks = cons.chunks
        except ValueError as e:
            if len(cons.chunk_shape) > len(shape):
                res.classes.append("cons/chunk_shape_longer_than_shape(documented ValueError)")
                res.nontrivial = False
                return False
            res.fail("chunks_raised", f"{step}: ValueError: {e}; shape={shape} chunk_shape={cons.chunk_shape}", **feats)
            return False
        except Exception as e:
            res.fail(
                "chunks_raised",
                f"{step}: {type(e).__name__}: {e}; shape={shape} chunk_shape={cons.chunk_shape} datum_shape={cons.datum_shape} "
                f"join={cons.join_method}/{cons.join_chunks}",
                **feats,
            )
            return False
        msg = _valid_chunking(tuple(shape), tuple(chunks))
        if msg:
            res.fail(
                "chunks_not_a_chunking_of_shape",
                f"{step}: {msg}; shape={shape} chunks={chunks} chunk_shape={cons.chunk_shape} datum_shape={cons.datum_shape} "
                f"join={cons.join_method}/{cons.join_chunks}",
                **feats,
            )
            return False
        try:
            st = cons.structure()
            if tuple(st.shape) != tuple(shape) or tuple(st.chunks) != tuple(chunks):
                res.fail("structure_differs", f"{step}: structure() reports {st.shape}/{st.chunks}", **feats)
                return False
        except Exception as e:
            res.fail("structure_raised", f"{step}: {type(e).__name__}: {e}", **feats)
            return False
        return True

    if not check_structure("after construction"):
        return res
    expected_map = {}
    for k, (i0, i1, s0, s1) in enumerate(case["datums"]):
        doc = {
            "uid": f"sres-1/{k}",
            "stream_resource": "sres-1",
            "descriptor": "desc-1",
            "indices": {"start": i0, "stop": i1},
            "seq_nums": {"start": s0, "stop": s1},
        }
        try:
            cons.consume_stream_datum(doc)
        except Exception as e:
            return res.fail("consume_raised", f"datum {k} {doc['indices']}: {type(e).__name__}: {e}", **feats)
        if not check_structure(f"after datum {k}"):
            return res
        if i1 - i0 == s1 - s0:
            for j in range(s1 - s0):
                expected_map[s0 + j] = i0 + j
        else:
            res.classes.append("cons/seq_len_differs(map unasserted)")
            expected_map = None
            break
    if expected_map is not None:
        got = dict(cons._seqnums_to_indices_map)
        if got != expected_map:
            miss = {s: i for s, i in expected_map.items() if got.get(s) != i}
            extra = {s: i for s, i in got.items() if s not in expected_map}
            res.fail("seq_num_map_wrong", f"wrong or missing {miss}, invented {extra}", **feats)
    return res


def check_case(case) -> Result:
    res = Result()
    res = _check_concat(case, res) if case["part"] == "concat" else _check_consolidator(case, res)
    res.classes = list(dict.fromkeys(res.classes))  # one count per case and label
    return res


# ---------------------------------------------------------------------------------------------------


def _strategy():
    from hypothesis import strategies as st

    @st.composite
    def concat_cases(draw):
        n = draw(st.integers(1, 6))
        i = draw(st.integers(0, 50))
        s = draw(st.integers(1, 50))
        same_len = draw(st.integers(0, 3)) != 0
        datums = []
        for k in range(n):
            li = draw(st.integers(1, 5))
            ls = li if same_len else draw(st.integers(1, 5))
            datums.append(
                {
                    "uid": f"sres-A/{k}",
                    "stream_resource": "sres-A",
                    "descriptor": "desc-A",
                    "indices": {"start": i, "stop": i + li},
                    "seq_nums": {"start": s, "stop": s + ls},
                }
            )
            i += li
            s += ls
        pert = draw(st.sampled_from(["none", "none", "gap", "overlap", "duplicate", "other_descriptor", "other_resource", "seq_gap"]))
        if n == 1 and pert in ("gap", "overlap", "seq_gap"):
            pert = "none"
        j = draw(st.integers(1, n - 1)) if n > 1 else 0
        if pert == "gap":
            g = draw(st.integers(1, 3))
            for d in datums[j:]:
                for f in ("indices", "seq_nums"):
                    d[f] = {"start": d[f]["start"] + g, "stop": d[f]["stop"] + g}
        elif pert == "overlap":
            g = draw(st.integers(1, 3))
            for d in datums[j:]:
                d["indices"] = {"start": d["indices"]["start"] - g, "stop": d["indices"]["stop"] - g}
            if datums[j]["indices"]["start"] < 0:
                pert = "none"
                for d in datums[j:]:
                    d["indices"] = {"start": d["indices"]["start"] + g, "stop": d["indices"]["stop"] + g}
        elif pert == "duplicate":
            dup = copy.deepcopy(datums[draw(st.integers(0, n - 1))])
            dup["uid"] += "-dup"
            datums.append(dup)
        elif pert == "other_descriptor":
            datums[draw(st.integers(0, n - 1))]["descriptor"] = "desc-B"
            if n == 1:
                pert = "none"
        elif pert == "other_resource":
            datums[draw(st.integers(0, n - 1))]["stream_resource"] = "sres-B"
            if n == 1:
                pert = "none"
        elif pert == "seq_gap":
            g = draw(st.integers(1, 3))
            for d in datums[j:]:
                d["seq_nums"] = {"start": d["seq_nums"]["start"] + g, "stop": d["seq_nums"]["stop"] + g}
        datums = list(draw(st.permutations(datums)))
        return {"part": "concat", "perturbation": pert, "datums": datums}

    mimetypes = [
        "application/octet-stream",
        "text/csv;header=absent",
        "application/x-hdf5",
        "multipart/related;type=image/tiff",
        "multipart/related;type=image/jpeg",
        "multipart/related;type=application/x-npy",
    ]

    @st.composite
    def cons_cases(draw):
        mimetype = draw(st.sampled_from(mimetypes))
        shape = draw(
            st.sampled_from([[], [1], [4], [7], [3, 5], [1, 3, 5], [6, 3, 5], [1, 4, 3, 2], [2, 1]])
            if draw(st.integers(0, 5))
            else st.lists(st.one_of(st.integers(0, 6), st.none()), max_size=4)
        )
        params = {}
        ndim_guess = len(shape) + 1
        if draw(st.integers(0, 4)) != 0:
            k = draw(st.integers(0, ndim_guess + 1))
            params["chunk_shape"] = [draw(st.sampled_from([1, 1, 2, 3, 4, 5, 7, 100] + ([0, -1] if draw(st.integers(0, 9)) == 0 else []))) for _ in range(k)]
        if draw(st.integers(0, 2)) == 0:
            params["multiplier"] = draw(st.sampled_from([1, 2, 3, 4, 6, 7]))
        if draw(st.integers(0, 2)) == 0:
            params["join_method"] = draw(st.sampled_from(["stack", "concat"]))
        if draw(st.integers(0, 2)) == 0:
            params["join_chunks"] = draw(st.booleans())
        if mimetype == "application/x-hdf5":
            params["dataset"] = "/entry/data/data"
        if mimetype.endswith("tiff"):
            params.update(draw(st.sampled_from([{"template": "img_{:05d}.tif"}, {"template": "%s%s_%06d.tiff", "filename": "img"}])))
        if mimetype.endswith("jpeg"):
            params["template"] = "img_{:05d}.jpg"
        datums = []
        i, s = 0, 1
        for _ in range(draw(st.integers(0, 5))):
            li = draw(st.integers(1, 4))
            ls = li if draw(st.integers(0, 5)) else draw(st.integers(1, 4))
            s += draw(st.sampled_from([0, 0, 0, 1, 2]))  # skipped seq_nums
            datums.append([i, i + li, s, s + ls])
            i += li
            s += ls
        return {
            "part": "consolidator",
            "mimetype": mimetype,
            "shape": shape,
            "dtype_numpy": draw(st.sampled_from([None, "<f8", "<u2", "|u1"])),
            "parameters": params,
            "datums": datums,
        }

    return st.one_of(concat_cases(), cons_cases(), cons_cases())


def run(ctx):
    # import the code under test (and the generators) once in the parent: forked workers inherit the modules
    import event_model  # noqa: F401
    import hypothesis.strategies  # noqa: F401

    import bluesky.callbacks.tiled_writer  # noqa: F401
    import bluesky.consolidators  # noqa: F401

    from .. import docgen  # noqa: F401

    ctx.hyp(_strategy, check_case, max_examples=ctx.pick(6000, 600000))


def replay(case):
    return check_case(case)
