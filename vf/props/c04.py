"""C04 Resuming replays exactly the work done since the last checkpoint."""

from __future__ import annotations

from ..core import use_repo

use_repo()

from ..engine import corpus, e1common, e1oracles  # noqa: E402

ID = "C04"
ENGINE = "E1"
DESIGN_REF = "DESIGN.md §8 C04"
TECHNIQUE = "schedule enumeration + Hypothesis-generated plans mixing checkpoint/clear_checkpoint/rewindable/stage/monitor/subscribe/open/close; msg_hook message identities compared with a reference replay model written from the property text"
LEVEL_TEXT = (
    "Every executed message is observed through msg_hook by object identity and classified as fresh (next un-executed "
    "yield of the plan), replayed or engine-internal. After each pause/resume and suspension/release the replayed run "
    "must equal, element by element, the cache of an independent model (checkpoint and the implicit checkpoints empty "
    "it, non-replayable commands and non-rewindable regions are excluded), the plan must continue at its next yield, "
    "and nothing else may ever be executed twice."
)
LEVEL_NOTE = "The model is derived from the statement, not from RunEngine._msg_cache; open_run is treated as non-replayable and not as a checkpoint (the statement lists neither, the code agrees)."
RULE = (
    "case = (plan, stages, injections). Sweep: pause+resume and suspend+release at every callback boundary of the "
    "corpus; Hypothesis: generated plans with cache-affecting commands and 1-2 interruptions (also during the replay). "
    "Non-trivial: the model's cache at an interruption was non-empty, or the interruption came within two messages "
    "after an implicit checkpoint. Distinct = canonical JSON."
)
ASSUMPTIONS = ["requests arrive at boundaries between event-loop callbacks", "no device faults in this property's domain"]

check_case = e1common.make_check(e1oracles.oracle_c04)


def run(ctx):
    names = corpus.corpus_names(ctx.tier)
    cases = list(corpus.single_request_cases(names, ("pause", "suspend", "defer"), decisions=("resume",)))
    if ctx.quick:
        cases = [c for i, c in enumerate(cases) if i % 2 == ctx.seed % 2]
    ctx.sweep(cases, check_case)
    ctx.extra["sweep_cases"] = len(cases)
    e1common.generated(ctx, check_case, n=ctx.pick(800, 30000), profile="replay")


def replay(case):
    return check_case(case)
